import time
DELAYS={}
def plain(x): return x*2
class make:
    # picklable callable carrying its delay table (works for processes too)
    def __init__(self, perm): self.d={i:0.004*p for i,p in enumerate(perm)}
    def __call__(self, x):
        time.sleep(self.d.get(int(x),0)); return (x*2, time.monotonic_ns())
def items_fn(*a):
    k,v = a[0] if len(a)==1 else a
    return v*2
def boom(x):
    if x==3: raise ValueError('x')
    return x
