#!/bin/bash
# usage: mut.sh <name> <file> <python-replace-old> <new> <probe cmd...>
name=$1; file=$2; old=$3; new=$4; shift 4
cd /dev/shm/sfscratch && git checkout -q . && /venv/bin/python - "$file" "$old" "$new" <<'PY'
import sys,pathlib
p=pathlib.Path(sys.argv[1]); s=p.read_text(); assert s.count(sys.argv[2])>=1, 'pattern not found'
p.write_text(s.replace(sys.argv[2],sys.argv[3],1))
PY
[ $? -ne 0 ] && { echo "$name: PATTERN NOT FOUND"; exit; }
cd /tmp/w && out=$("$@" 2>&1 | grep -v conda)
echo "=== $name"; echo "$out" | head -${LINES_SHOW:-4} | cut -c1-200
cd /dev/shm/sfscratch && git checkout -q .
