exec(open('/tmp/w/pre.py').read())
import itertools, pickle, copy, inspect
def arrays_of(obj, seen=None, depth=0):
    """yield (path, ndarray) reachable from a result via public-ish attributes"""
    if seen is None: seen=set()
    if id(obj) in seen or depth>3: return
    seen.add(id(obj))
    if isinstance(obj, np.ndarray):
        yield '', obj
        if obj.dtype==object and obj.size<50:
            for i,e in enumerate(obj.flat):
                if isinstance(e,(np.ndarray,sf.Series,sf.Frame,sf.Index,sf.IndexHierarchy)):
                    for p,a in arrays_of(e,seen,depth+1): yield f'[{i}]{p}',a
        return
    if isinstance(obj,(sf.Series,)):
        yield '.values', obj.values
        yield from ((f'.index{p}',a) for p,a in arrays_of(obj.index,seen,depth+1))
    elif isinstance(obj, sf.Frame):
        yield '.values', obj.values
        for i,b in enumerate(obj._blocks._blocks): yield f'._blocks[{i}]', b
        yield from ((f'.index{p}',a) for p,a in arrays_of(obj.index,seen,depth+1))
        yield from ((f'.columns{p}',a) for p,a in arrays_of(obj.columns,seen,depth+1))
    elif isinstance(obj,(sf.Index,sf.IndexHierarchy)):
        yield '.values', obj.values
        yield '.positions', obj.positions
    elif isinstance(obj,(tuple,list)) and len(obj)<50:
        for i,e in enumerate(obj):
            yield from ((f'[{i}]{p}',a) for p,a in arrays_of(e,seen,depth+1))
    elif inspect.isgenerator(obj) or hasattr(obj,'__next__'):
        for i,e in enumerate(itertools.islice(obj,20)):
            yield from ((f'<it{i}>{p}',a) for p,a in arrays_of(e,seen,depth+1))

f = sf.Frame.from_dict(dict(a=(1,2,3,4), b=(1.5,np.nan,3.5,4.), c=('x','y','z','w'), d=(True,False,True,False)), index=tuple('pqrs'))
f2 = sf.Frame(np.arange(12).reshape(4,3), index=tuple('pqrs'), columns=('a','b','c'))
s = f['b']
ih = sf.IndexHierarchy.from_product(('a','b'),(1,2))
fh = sf.Frame(np.arange(8).reshape(4,2), index=ih, columns=('x','y'))
targets = {'f':f,'f2':f2,'s':s,'idx':f.index,'ih':ih,'fh':fh, 'si': f['a']}
bad=[]
skip = {'to_clipboard','from_clipboard','to_html_datatables','interface','to_xarray','to_arrow','to_parquet','to_msgpack','to_hdf5','to_xlsx','to_sqlite','to_csv','to_tsv','to_delimited','to_pandas','display','display_tall','display_wide','to_html','to_latex','to_rst','to_markdown','sample','cov'}
for name,obj in targets.items():
    for attr in dir(obj):
        if attr.startswith('_') or attr in skip: continue
        try: v = getattr(obj, attr)
        except Exception as e: continue
        cands=[(attr, v)]
        if callable(v) and not isinstance(v,(sf.Series,sf.Frame)):
            try: cands=[(attr+'()', v())]
            except Exception: cands=[]
        for label,val in cands:
            try:
                for p,a in arrays_of(val):
                    if a.flags.writeable and a.ndim>0: bad.append((name,label+p,a.dtype,a.shape))
            except Exception as e: pass
for b in bad: print(b)
print(len(bad))
