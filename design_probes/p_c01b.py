exec(open('/tmp/w/pre.py').read())
import pickle, copy
res=[]
def chk(label, make, read):
    a = make.__defaults__[0] if False else None
def case(label, arr, build, read):
    try:
        obj = build(arr)
        before = repr(read(obj))
        was_w = arr.flags.writeable
        try:
            arr.flat[0] = arr.flat[-1] if arr.size>1 else arr.flat[0]
            if arr.dtype.kind in 'iuf': arr.flat[0] = 99
            elif arr.dtype.kind=='U': arr.flat[0]='ZZ'
        except ValueError as e:
            res.append((label,'input frozen in place' if was_w else 'input already ro')); return
        after = repr(read(obj))
        res.append((label, 'OK' if before==after else 'LEAK'))
    except Exception as e:
        res.append((label,'ERR '+type(e).__name__+str(e)[:60]))
A = lambda: np.array([1,2,3])
A2 = lambda: np.arange(6).reshape(3,2)
case('Series(arr)', A(), lambda a: sf.Series(a), lambda o:o.values)
case('Series(arr,index=arr)', A(), lambda a: sf.Series((1,2,3),index=a), lambda o:o.index.values)
case('Index(arr)', A(), lambda a: sf.Index(a), lambda o:(o.values, list(o), o.loc_to_iloc(3)))
case('IndexGO(arr)', A(), lambda a: sf.IndexGO(a), lambda o:(o.values, list(o)))
case('Frame(arr2)', A2(), lambda a: sf.Frame(a), lambda o:o.values)
case('FrameGO(arr2)', A2(), lambda a: sf.FrameGO(a), lambda o:o.values)
case('Frame.from_records(arr2)', A2(), lambda a: sf.Frame.from_records(a), lambda o:o.values)
case('Frame.from_items arr', A(), lambda a: sf.Frame.from_items([('a',a)]), lambda o:o.values)
case('Frame.from_fields arr', A(), lambda a: sf.Frame.from_fields([a]), lambda o:o.values)
case('Frame.from_dict arr', A(), lambda a: sf.Frame.from_dict({'a':a}), lambda o:o.values)
case('FrameGO setitem arr', A(), lambda a: (lambda f:(f.__setitem__('b',a),f)[1])(sf.FrameGO(index=(0,1,2))), lambda o:o.values)
case('IH.from_labels(arr2)', A2(), lambda a: sf.IndexHierarchy.from_labels(a), lambda o:(o.values,list(o)))
case('IH.from_product(arr,arr)', A(), lambda a: sf.IndexHierarchy.from_product(a, ('x','y')), lambda o:(o.values,list(o)))
case('IH.from_tree arr', A(), lambda a: sf.IndexHierarchy.from_tree({'a':a}), lambda o:(o.values,list(o)))
case('IndexDate(arr)', np.array(['2020-01-01','2020-01-02'],dtype='datetime64[D]'), lambda a: sf.IndexDate(a), lambda o:o.values)
case('TypeBlocks.from_blocks(arr)', A2(), lambda a: sf.TypeBlocks.from_blocks(a), lambda o:o.values)
case('Frame(index=arr)', A(), lambda a: sf.Frame(np.arange(6).reshape(3,2), index=a), lambda o:o.index.values)
case('Frame(columns=arr)', A(), lambda a: sf.Frame(np.arange(6).reshape(2,3), columns=a), lambda o:o.columns.values)
case('Series.from_concat', A(), lambda a: sf.Series.from_concat((sf.Series(a), sf.Series(a,index=(7,8,9)))), lambda o:o.values)
case('Series.assign arr', A(), lambda a: sf.Series((0,0,0)).assign[:](a), lambda o:o.values)
case('Frame.assign arr', A2(), lambda a: sf.Frame(np.zeros((3,2),dtype=int)).assign.iloc[:,:](a), lambda o:o.values)
case('Series.reindex(arr)', A(), lambda a: sf.Series((1,2,3),index=(1,2,3)).reindex(a), lambda o:o.index.values)
case('Frame.relabel(index=arr)', A(), lambda a: sf.Frame(np.arange(6).reshape(3,2)).relabel(index=a), lambda o:o.index.values)
case('Series.from_pandas', A(), lambda a: sf.Series.from_pandas(__import__('pandas').Series(a)), lambda o:o.values)
for r in res: print(r)
# pickle / deepcopy
f = sf.Frame.from_dict(dict(a=(1,2),b=('x','y')), index=sf.IndexHierarchy.from_labels([('a',1),('a',2)]), name='n')
for how,g in (('pickle',pickle.loads(pickle.dumps(f))),('deepcopy',copy.deepcopy(f))):
    flags=[b.flags.writeable for b in g._blocks._blocks]+[g.index.values.flags.writeable, g.columns.values.flags.writeable, g.values.flags.writeable]
    lv = [lvl.index.values.flags.writeable for lvl in [g.index._levels]+list(g.index._levels.targets)]
    print(how, g.equals(f,compare_name=True,compare_dtype=True,compare_class=True), flags, lv)
