import sys; sys.path.insert(0,'/dev/shm/sfscratch')
import warnings; warnings.simplefilter('ignore')
import numpy as np, static_frame as sf, random, collections
rng=random.Random(2)
fails=collections.Counter(); ex={}
def check(ix, model, tag, hist):
    try:
        assert len(ix)==len(model), 'len'
        assert [x for x in ix]==model, 'iter'
        assert list(reversed(ix))==model[::-1], 'reversed'
        assert ix.values.tolist()==[m.item() if hasattr(m,'item') else m for m in model] or list(ix.values)==model, 'values'
        assert ix.positions.tolist()==list(range(len(model))), 'positions'
        for i,l in enumerate(model):
            assert ix.loc_to_iloc(l)==i, ('lookup',l)
            assert l in ix, ('contains',l)
            assert ix.iloc[i]==l, 'iloc'
        for a in ('zz', -7, 99, 3.25):
            if a not in model: assert a not in ix, ('absent contains',a)
    except AssertionError as e:
        k=(tag,str(e.args[0])); fails[k]+=1; ex.setdefault(k,(hist[:], model))
    except Exception as e:
        k=(tag,'EXC',type(e).__name__); fails[k]+=1; ex.setdefault(k,(hist[:],model,str(e)[:80]))
for trial in range(1500):
    start=rng.choice(['auto','ints','strs','empty','auto0'])
    if start=='auto': n=rng.randint(1,4); ix=sf.Series(range(n)).index; ix=sf.IndexGO(ix); model=list(range(n))
    elif start=='auto0': ix=sf.IndexGO(sf.Series(()).index); model=[]
    elif start=='ints': model=rng.sample(range(-3,8),rng.randint(1,4)); ix=sf.IndexGO(model)
    elif start=='strs': model=rng.sample(list('abcdef'),rng.randint(1,4)); ix=sf.IndexGO(model)
    else: ix=sf.IndexGO(()); model=[]
    hist=[start,list(model)]
    for step in range(rng.randint(1,8)):
        r=rng.random()
        if r<.6:
            v=rng.choice([len(model), len(model), rng.randint(-3,9), rng.choice('abcdefgh'), 2.5, (1,2), True, None])
            hist.append(('append',v))
            try:
                ix.append(v)
                if v in model: fails[('dup accepted',)]+=1; ex.setdefault(('dup accepted',),(hist[:],model))
                model.append(v)
            except KeyError:
                if v not in model: fails[('new rejected',)]+=1; ex.setdefault(('new rejected',),(hist[:],model))
            except Exception as e:
                k=('append EXC',type(e).__name__); fails[k]+=1; ex.setdefault(k,(hist[:],model,str(e)[:80]))
        elif r<.8:
            hist.append('read'); _=ix.values; _=len(ix)
        else:
            hist.append('static'); st=sf.Index(ix); check(st, list(model), 'static', hist)
        check(ix, list(model), 'go', hist)
for k,v in fails.most_common(): print(v,k,ex[k])
print('done')
