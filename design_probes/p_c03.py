exec(open('/tmp/w/pre.py').read())
import random, collections, itertools
rng=random.Random(11)
def rand_cols(m, n):
    cols=[]
    for j in range(m):
        k=rng.choice('ifbUOM')
        if k=='i': a=np.array([rng.randint(-3,3) for _ in range(n)],dtype=np.int64)
        elif k=='f': a=np.array([rng.choice([0.5,1.5,np.nan,-2.0]) for _ in range(n)])
        elif k=='b': a=np.array([rng.random()<.5 for _ in range(n)],dtype=bool)
        elif k=='U': a=np.array([rng.choice(['a','bb','']) for _ in range(n)])
        elif k=='O': a=np.array([rng.choice([None,1,'x',2.5]) for _ in range(n)],dtype=object)
        else: a=np.array([rng.choice(['2020-01-01','2021-05-05','NaT']) for _ in range(n)],dtype='datetime64[D]')
        cols.append(a)
    return cols
def layouts(cols):
    # yield block lists: all-1D, and greedy-merged same dtype adjacent into 2D, and 2D width-1
    yield [c for c in cols]
    yield [c.reshape(-1,1) for c in cols]
    out=[]; grp=[cols[0]] if cols else []
    for c in cols[1:]:
        if c.dtype==grp[-1].dtype: grp.append(c)
        else: out.append(np.column_stack(grp) if len(grp)>1 else grp[0]); grp=[c]
    if grp: out.append(np.column_stack(grp) if len(grp)>1 else grp[0])
    yield out
def norm(x):
    if isinstance(x, sf.Frame):
        return ('F', tuple(x.index), tuple(x.columns), tuple((str(c.dtype), tuple(map(repr,c.tolist()))) for c in x._blocks.axis_values(0)), x.name)
    if isinstance(x, sf.Series):
        return ('S', tuple(x.index), str(x.dtype), tuple(map(repr,x.values.tolist())), x.name)
    if isinstance(x, np.ndarray): return ('A', str(x.dtype), repr(x.tolist()))
    if hasattr(x,'__next__'): return tuple(norm(y) for y in x)
    if isinstance(x, tuple): return tuple(norm(y) for y in x)
    return ('E', repr(x))
ops = {
 'values': lambda f: f.values,
 'iloc_row': lambda f: f.iloc[0],
 'iloc_rev': lambda f: f.iloc[::-1, ::-1],
 'iloc_cols': lambda f: f.iloc[:, [len(f.columns)-1, 0]],
 'T': lambda f: f.T,
 'isna': lambda f: f.isna(),
 'fillna0': lambda f: f.fillna(0),
 'ffill1': lambda f: f.fillna_forward(axis=1),
 'bfill1l': lambda f: f.fillna_backward(limit=1,axis=1),
 'lead1': lambda f: f.fillna_leading(-1,axis=1),
 'trail0': lambda f: f.fillna_trailing(-1,axis=0),
 'dropna': lambda f: f.dropna(axis=1, condition=np.any),
 'shift': lambda f: f.shift(1,1,fill_value=None),
 'roll': lambda f: f.roll(1,-1),
 'astype': lambda f: f.astype[f.columns[0]](object),
 'drop': lambda f: f.drop.iloc[0, 1:],
 'assign': lambda f: f.assign.iloc[0, 1:]('zz'),
 'assign2': lambda f: f.assign.iloc[:, [0, len(f.columns)-1]](np.arange(2*len(f)).reshape(len(f),2)),
 'mask': lambda f: f.mask.iloc[1:, ::2],
 'sum0': lambda f: f.sum(axis=0),
 'sum1': lambda f: f.sum(axis=1),
 'min1': lambda f: f.min(axis=1),
 'any1': lambda f: f.any(axis=1),
 'count1': lambda f: f.count(axis=1),
 'eq': lambda f: f == f,
 'iter_array1': lambda f: f.iter_array(axis=1),
 'iter_series1': lambda f: f.iter_series(axis=1),
 'to_pairs': lambda f: repr(f.to_pairs(0)),
 'sortcol': lambda f: f.sort_columns(ascending=False),
 'relabel_shift_in': lambda f: f.relabel_shift_in(f.columns[0]),
 'unset': lambda f: f.unset_index(),
 'insert': lambda f: f.insert_after(f.columns[0], sf.Series(range(len(f)),index=f.index,name='new')),
 'dup': lambda f: f.drop_duplicated(),
 'equals': lambda f: f.equals(f.iloc[:, :]),
 'bloc': lambda f: f.bloc[f.notna()],
 'dtypes': lambda f: f.dtypes,
}
fails=collections.Counter(); ex={}
for trial in range(400):
    n=rng.randint(1,4); m=rng.randint(2,5)
    cols=rand_cols(m,n)
    frames=[sf.Frame(sf.TypeBlocks.from_blocks(bl), index=tuple('pqrs')[:n], columns=tuple('abcde')[:m], name='nm') for bl in layouts(cols)]
    for name,op in ops.items():
        outs=[]
        for f in frames:
            try: outs.append(('ok',norm(op(f))))
            except Exception as e: outs.append(('err',type(e).__name__))
        if len(set(outs))>1:
            fails[name]+=1; ex.setdefault(name,([str(c.dtype) for c in cols],[c.tolist() for c in cols], [o if o[0]=='err' else o[1] for o in outs]))
for k,v in fails.most_common(): print(v,k,'\n   ',ex[k][0],'\n   ',ex[k][1],'\n   ',*[str(x)[:300]+'\n    ' for x in ex[k][2]])
