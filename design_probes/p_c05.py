exec(open('/tmp/w/pre.py').read())
import random, itertools, collections
rng = random.Random(5)
def gen_tree(depth):
    # returns list of tuples in tree order, ragged
    pools = [['a','b','c','d'], [1,2,3,4], ['x','y','z'], [10,20,30]]
    def rec(d):
        labs = rng.sample(pools[d], rng.randint(1, len(pools[d])-1))
        if d == depth-1: return [(l,) for l in labs]
        out=[]
        for l in labs:
            out.extend((l,)+t for t in rec(d+1))
        return out
    return rec(0)
def model_sel(labels, key):
    # key: tuple of per-level selectors: scalar, list, slice(None), ('slice', a, b)
    depth=len(labels[0])
    def level_vals(d, prefix_rows):
        return None
    # order: index order, except list selector orders matches of its level by list -> implement recursively over tree
    def rec(rows, d):
        # rows: list of (pos, tuple) sharing prefix up to d
        if d==depth: return [p for p,_ in rows]
        sel = key[d] if d < len(key) else slice(None)
        # group rows by label at depth d preserving order
        groups = collections.OrderedDict()
        for p,t in rows: groups.setdefault(t[d], []).append((p,t))
        labs = list(groups)
        if isinstance(sel, slice):
            if sel==slice(None): chosen=labs
            else:
                if sel.start not in labs or sel.stop not in labs: return []  # would be LocInvalid at this node
                i,j = labs.index(sel.start), labs.index(sel.stop)
                chosen = labs[i:j+1]
        elif isinstance(sel, list):
            chosen=[l for l in sel if l in groups]
        else:
            chosen=[sel] if sel in groups else []
        out=[]
        for l in chosen: out.extend(rec(groups[l], d+1))
        return out
    return rec(list(enumerate(labels)), 0)
fails=collections.Counter(); n=0; ex={}
for trial in range(3000):
    depth = rng.choice([2,3])
    labels = gen_tree(depth)
    ih = sf.IndexHierarchy.from_labels(labels)
    assert list(ih)==labels or [tuple(x) for x in ih]==labels
    key=[]
    for d in range(depth):
        vals = sorted({t[d] for t in labels}, key=str)
        kind = rng.choice(['all','one','list','slice'])
        if kind=='all': key.append(slice(None))
        elif kind=='one': key.append(rng.choice(vals))
        elif kind=='list': key.append(rng.sample(vals, rng.randint(1,len(vals))))
        else:
            a,b = sorted(rng.sample(vals,2), key=str) if len(vals)>1 else (vals[0],vals[0]); key.append(slice(a,b))
    exp = model_sel(labels, key)
    if not exp: continue
    n+=1
    try:
        got = ih.loc_to_iloc(sf.HLoc[tuple(key)])
        if isinstance(got, slice): got=list(range(*got.indices(len(labels))))
        elif isinstance(got,(int,np.integer)): got=[int(got)]
        else: got=[int(g) for g in got]
        if got!=exp:
            k=('mismatch', tuple(type(x).__name__ for x in key)); fails[k]+=1; ex.setdefault(k,(labels,key,exp,got))
    except Exception as e:
        k=(type(e).__name__, tuple(type(x).__name__ for x in key)); fails[k]+=1; ex.setdefault(k,(labels,key,exp,str(e)[:80]))
print('n',n)
for k,v in fails.most_common(): print(v,k); print('   ', ex[k])
