exec(open('/tmp/w/pre.py').read())
import random, collections, operator
rng=random.Random(3)
pools = {'int':[0,1,2,3,5,8,-1], 'str':['a','b','c','dd',''], 'mixed':[0,'a',1.5,None,(1,2),True,'b',2], 'float':[0.5,1.0,2.0,-1.5], 'tuple':[(1,'a'),(1,'b'),(2,'a')], 'date':[np.datetime64('2020-01-01'),np.datetime64('2020-01-02'),np.datetime64('2020-02-01')]}
fails=collections.Counter(); ex={}
def rec(k,e):
    fails[k]+=1; ex.setdefault(k,e)
for trial in range(4000):
    ka,kb = rng.choice(list(pools)), rng.choice(list(pools))
    if rng.random()<.6: kb=ka
    def mk(k):
        pool=pools[k]; n=rng.randint(0,len(pool))
        labs=rng.sample(pool,n)
        # dedupe by equality (True==1 etc.)
        out=[]
        for l in labs:
            if not any(l==o and type(l)==type(o) or (l==o) for o in out): out.append(l)
        return out
    la,lb = mk(ka), mk(kb)
    if rng.random()<.2: lb=list(la)
    try:
        ia,ib = sf.Index(la), sf.Index(lb)
    except Exception as e:
        rec(('ctor',type(e).__name__,ka,kb),(la,lb,str(e)[:60])); continue
    for name,op in (('union',lambda x,y: set(x)|set(y)),('intersection',lambda x,y:set(x)&set(y)),('difference',lambda x,y:set(x)-set(y))):
        try:
            r = getattr(ia,name)(ib)
            got=list(r)
            exp=op(la,lb)
            if len(got)!=len(exp) or set(got)!=exp:
                rec((name,'content',ka,kb),(la,lb,got))
            elif la==lb and name!='difference' and got!=la:
                rec((name,'order',ka,kb),(la,lb,got))
            if not r.values.flags.writeable is False: rec((name,'writeable'),(la,lb))
        except Exception as e:
            rec((name,type(e).__name__,ka,kb),(la,lb,str(e)[:80]))
    # series op alignment
    if ka in('int','str','float','tuple','date','mixed') :
        va=[rng.randint(-5,5) for _ in la]; vb=[rng.randint(-5,5) for _ in lb]
        try:
            sa,sb=sf.Series(va,index=ia,dtype=np.int64),sf.Series(vb,index=ib,dtype=np.int64)
            r = sa+sb
            da,db=dict(zip(la,va)),dict(zip(lb,vb))
            gm = dict(r.items())
            expk=set(la)|set(lb)
            if set(gm)!=expk or len(r)!=len(expk): rec(('add','labels',ka,kb),(la,lb,list(r.index)))
            else:
                for k in expk:
                    g=gm[k]
                    if k in da and k in db:
                        if g!=da[k]+db[k]: rec(('add','value',ka,kb),(la,lb,k,g))
                    elif not (g!=g): rec(('add','notnan',ka,kb),(la,lb,k,g))
        except Exception as e:
            rec(('add',type(e).__name__,ka,kb),(la,lb,str(e)[:80]))
for k,v in fails.most_common(40): print(v,k,'\n    ',ex[k])
