exec(open('/tmp/w/pre.py').read())
import traceback
try: sf.Index([2.0,-1.5,1.0]).union(sf.Index([(1,2)]))
except Exception: traceback.print_exc(limit=-4)
try: sf.Index([2,0]).union(sf.Index([(1,2),0,True]))
except Exception: traceback.print_exc(limit=-4)
try: print(list(sf.Index([2,0]).union(sf.Index(['a',0, 1.5]))))
except Exception: traceback.print_exc(limit=-4)
