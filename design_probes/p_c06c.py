import sys; sys.path.insert(0,'/dev/shm/sfscratch')
import warnings; warnings.simplefilter('ignore')
import numpy as np, static_frame as sf, random, collections, operator as op
rng=random.Random(9)
OPS={'add':op.add,'sub':op.sub,'mul':op.mul,'truediv':op.truediv,'floordiv':op.floordiv,'mod':op.mod,'pow':op.pow,'eq':op.eq,'ne':op.ne,'lt':op.lt,'ge':op.ge,'and':op.and_,'or':op.or_,'xor':op.xor}
def col(kind,n):
    if kind=='i': return np.array([rng.randint(-3,3) for _ in range(n)],dtype=np.int64)
    if kind=='f': return np.array([rng.choice([0.5,1.5,-2.0,np.nan]) for _ in range(n)])
    if kind=='b': return np.array([rng.random()<.5 for _ in range(n)])
    if kind=='U': return np.array([rng.choice(['a','bb','c']) for _ in range(n)])
def mkframe():
    n=rng.randint(1,4); m=rng.randint(1,4)
    idx=rng.sample(list('pqrstu'),n); cols=rng.sample(list('abcdef'),m)
    kinds=[rng.choice('ifbU') if rng.random()<.3 else rng.choice('if') for _ in cols]
    return sf.Frame.from_items(zip(cols,[col(k,n) for k in kinds]),index=idx), kinds
def ismissing(x):
    return x is None or (isinstance(x,(float,np.floating)) and x!=x)
fails=collections.Counter(); ex={}
for trial in range(3000):
    (a,ka),(b,kb)=mkframe(),mkframe()
    if rng.random()<.2: b=a.iloc[::-1, ::-1]
    name=rng.choice(list(OPS)); f=OPS[name]
    try: r=f(a,b)
    except Exception as e:
        # oracle: would numpy raise on some aligned pair?
        fails[('raise',name,type(e).__name__)]+=1; ex.setdefault(('raise',name,type(e).__name__),(a.to_pairs(0),b.to_pairs(0),str(e)[:80])); continue
    exp_idx=set(a.index)|set(b.index); exp_cols=set(a.columns)|set(b.columns)
    if set(r.index)!=exp_idx or set(r.columns)!=exp_cols or len(r.index)!=len(exp_idx): fails[('labels',name)]+=1; continue
    if list(a.index)==list(b.index) and list(r.index)!=list(a.index): fails[('order',name)]+=1
    for i in r.index:
        for c in r.columns:
            g=r.loc[i,c]
            if i in a.index and i in b.index and c in a.columns and c in b.columns:
                x,y=a.loc[i,c],b.loc[i,c]
                try:
                    with np.errstate(all='ignore'): e=f(x,y)
                except Exception as ee: e=('EXC',type(ee).__name__)
                ok = (g==e) or (ismissing(g) and ismissing(e)) if not isinstance(e,tuple) else False
                try: ok=bool(ok)
                except Exception: ok=False
                if not ok: fails[('value',name)]+=1; ex.setdefault(('value',name),(a.to_pairs(0),b.to_pairs(0),i,c,x,y,g,e))
            else:
                if name in ('eq','ne','lt','ge'):
                    pass
                elif not ismissing(g): fails[('notmissing',name)]+=1; ex.setdefault(('notmissing',name),(a.to_pairs(0),b.to_pairs(0),i,c,g))
for k,v in fails.most_common(40): print(v,k, str(ex.get(k))[:330])
