exec(open('/tmp/w/pre.py').read())
def t(label, fn):
    try: print(label, '->', repr(fn()).replace('\n',' | ')[:220])
    except Exception as e: print(label, 'RAISES', type(e).__name__, str(e)[:100])
def snap(f): return (tuple(f.columns), f.shape, f._blocks.shape, [tuple(map(repr,c.tolist())) for c in f._blocks.axis_values(0)])
# extend partial dup
f = sf.FrameGO.from_dict(dict(a=(1,2),b=(3,4)))
before = snap(f)
try: f.extend(sf.Frame.from_dict(dict(c=(5,6),a=(7,8))))
except Exception as e: print('extend raised', type(e).__name__, e)
print('before', before); 
try: print('after ', snap(f))
except Exception as e: print('after snap raises', type(e).__name__, e)
t('len(columns) vs data', lambda: (len(f.columns), f._blocks.shape))
t('usable?', lambda: f['c'])
t('repr', lambda: f.iloc[0].values)
# extend_items partial
f = sf.FrameGO.from_dict(dict(a=(1,2)))
try: f.extend_items([('b',(1,2)),('a',(3,4))])
except Exception as e: print('extend_items raised', type(e).__name__)
print(snap(f))
# setitem wrong length
f = sf.FrameGO.from_dict(dict(a=(1,2)))
for v in [(1,2,3), np.array([1,2,3]), sf.Series((1,2,3)), [[1,2],[3,4]], sf.Frame.from_dict(dict(z=(1,2)))]:
    try: f['b']=v; print('accepted', type(v).__name__, snap(f)); f=sf.FrameGO.from_dict(dict(a=(1,2)))
    except Exception as e: print('rejected', type(v).__name__, type(e).__name__, snap(f)==snap(sf.FrameGO.from_dict(dict(a=(1,2)))))
# sharing probes: derive then grow
import itertools
def derive_ops():
    return {
     'to_frame': lambda f: f.to_frame(), 'to_frame_go': lambda f: f.to_frame_go(), 'to_frame_he': lambda f: f.to_frame_he(),
     'iloc[:]': lambda f: f.iloc[:], 'iloc[:, :]': lambda f: f.iloc[:, :], 'loc[:]': lambda f: f.loc[:], 'getitem[:]': lambda f: f[:],
     'relabel_idx': lambda f: f.relabel(index=lambda x: x), 'rename': lambda f: f.rename('zz'),
     'sort_index': lambda f: f.sort_index(), 'sort_columns': lambda f: f.sort_columns(), 'sort_values': lambda f: f.sort_values('a'),
     'reindex_idx': lambda f: f.reindex(index=f.index), 'reindex_idx2': lambda f: f.reindex(index=(1,0)),
     'neg': lambda f: -f, 'add1': lambda f: f+1, 'addf': lambda f: f+f, 'T': lambda f: f.T.T if False else f.T,
     'set_index': lambda f: f.set_index('a'), 'set_index_drop': lambda f: f.set_index('a', drop=True),
     'isna': lambda f: f.isna(), 'fillna': lambda f: f.fillna(0), 'dropna': lambda f: f.dropna(), 'astype': lambda f: f.astype(float),
     'assign': lambda f: f.assign['a'](0), 'drop': lambda f: f.drop.iloc[0], 'mask': lambda f: f.mask['a'], 'roll': lambda f: f.roll(1), 'shift': lambda f: f.shift(1),
     'clip': lambda f: f.clip(lower=0), 'clipnone': lambda f: f.clip(), 'round': lambda f: round(f), 'isin': lambda f: f.isin((1,)), 'dup': lambda f: f.drop_duplicated(),
     'head': lambda f: f.head(5), 'sample': lambda f: f.sample(2, seed=1), 'cumsum': lambda f: f.cumsum(), 'cov': lambda f: f.cov(),
     'group': lambda f: next(iter(f.iter_group('a'))), 'group_labels': lambda f: next(iter(f.iter_group_labels(0))), 'window': lambda f: next(iter(f.iter_window(size=2))),
     'insert': lambda f: f.insert_after('a', sf.Series((9,9),name='q')), 'unset': lambda f: f.unset_index(), 'rehier': lambda f: f,
     'Frame(f)': lambda f: sf.Frame(f), 'FrameGO(f)': lambda f: sf.FrameGO(f), 'copy.copy': lambda f: __import__('copy').copy(f),
     'relabel_level_add': lambda f: f.relabel_level_add(columns='L'), 'relabel_flat_idx': lambda f: f,
     'columns': lambda f: f.columns, 'keys': lambda f: f.keys(), 'columns.copy': lambda f: f.columns.copy(), 'dtypes': lambda f: f.dtypes, 'count': lambda f: f.count(),
     'iter_series': lambda f: next(iter(f.iter_series(axis=1))), 'iloc0': lambda f: f.iloc[0], 'sum1': lambda f: f.sum(axis=0),
     'from_concat': lambda f: sf.FrameGO.from_concat((f,), axis=0), 'from_concat1': lambda f: sf.FrameGO.from_concat((f,), axis=1),
    }
def obs(x):
    if isinstance(x, sf.Frame): return ('F', tuple(x.columns), x._blocks.shape, tuple(x.index), x.values.tolist().__repr__())
    if isinstance(x, sf.Series): return ('S', tuple(x.index), repr(x.values.tolist()))
    if isinstance(x, sf.Index): return ('I', tuple(x), len(x))
    return repr(x)
leaks=[]
for name,op in derive_ops().items():
    f = sf.FrameGO.from_dict(dict(a=(1,2),b=(3,4)))
    try: d = op(f)
    except Exception as e: print('  derive err', name, type(e).__name__, str(e)[:60]); continue
    o1 = obs(d)
    f['new'] = (7,8)
    o2 = obs(d)
    if o1!=o2: leaks.append(('src->derived',name))
    # reverse: grow derived if GO
    f = sf.FrameGO.from_dict(dict(a=(1,2),b=(3,4)))
    d = op(f)
    if isinstance(d, sf.FrameGO) and d is not f:
        s1=obs(f)
        try: d['new2']=tuple(range(len(d)))
        except Exception as e: print('  grow derived err',name,type(e).__name__,str(e)[:50]); continue
        if obs(f)!=s1: leaks.append(('derived->src',name))
    if isinstance(d, sf.IndexGO) and d is not f.columns:
        s1=obs(f)
        d.append('new3')
        try:
            if obs(f)!=s1: leaks.append(('derivedidx->src',name))
        except Exception as e: leaks.append(('derivedidx->src BROKEN',name))
    elif d is f.columns:
        pass
print('LEAKS', leaks)
# static -> GO
g = sf.Frame.from_dict(dict(a=(1,2)))
h = g.to_frame_go(); h['z']=(1,2); print('static unchanged', tuple(g.columns), g.shape)
# f.columns returns the live IndexGO?
f = sf.FrameGO.from_dict(dict(a=(1,2)))
c = f.columns; print('columns is live object:', c is f._columns)
try:
    c.append('ghost'); print('after appending to f.columns:', tuple(f.columns), f.shape, f._blocks.shape)
    print(f)
except Exception as e: print('err', type(e).__name__, e)
