exec(open('/tmp/w/pre.py').read())
def t(label, fn):
    try: print(label, '->', repr(fn()).replace('\n',' | ')[:220])
    except Exception as e: print(label, 'RAISES', type(e).__name__, str(e)[:100])
a = sf.Frame.from_dict(dict(x=(1.0,np.nan), y=(1,2)))
b = sf.Frame.from_dict(dict(x=(1.0,5.0), y=(1,2)))
t('a.equals(b)', lambda: a.equals(b)); t('b.equals(a)', lambda: b.equals(a))
t('a.equals(b,skipna=False)', lambda: a.equals(b, skipna=False))
t('a.equals(a2) nan both', lambda: a.equals(sf.Frame.from_dict(dict(x=(1.0,np.nan), y=(1,2)))))
t('a.equals(a2) nan both skipna False', lambda: a.equals(sf.Frame.from_dict(dict(x=(1.0,np.nan), y=(1,2))), skipna=False))
t('HE eq', lambda: (a.to_frame_he()==b.to_frame_he(), b.to_frame_he()==a.to_frame_he()))
sa,sb = sf.Series((1.0,np.nan)), sf.Series((1.0,5.0))
t('series', lambda: (sa.equals(sb), sb.equals(sa)))
# None
t('None vs nan obj', lambda: (sf.Series((None,1),dtype=object).equals(sf.Series((np.nan,1),dtype=object)), sf.Series((np.nan,1),dtype=object).equals(sf.Series((None,1),dtype=object))))
t('NaT', lambda: (sf.Series(np.array(['NaT','2020-01-01'],dtype='datetime64[D]')).equals(sf.Series(np.array(['NaT','2020-01-01'],dtype='datetime64[D]'))),))
t('NaT frame', lambda: (sf.Frame.from_items([('a',np.array(['NaT','2020-01-01'],dtype='datetime64[D]'))]).equals(sf.Frame.from_items([('a',np.array(['NaT','2020-01-01'],dtype='datetime64[D]'))])),))
# str vs int frames
t('str vs int', lambda: (sf.Frame.from_dict(dict(a=('1','2'))).equals(sf.Frame.from_dict(dict(a=(1,2)))),))
t('str vs int series', lambda: (sf.Series(('1','2')).equals(sf.Series((1,2))),))
t('index str/int', lambda: (sf.Index(('1','2')).equals(sf.Index((1,2))),))
# HE hash with IH
ih = sf.IndexHierarchy.from_product(('a','b'),(1,2))
t('SeriesHE hash IH', lambda: hash(sf.SeriesHE(range(4), index=ih)))
t('FrameHE hash IH', lambda: hash(sf.FrameHE(np.arange(4).reshape(4,1), index=ih)))
t('FrameHE hash', lambda: hash(a.to_frame_he())==hash(sf.FrameHE(a)))
t('FrameHE in set', lambda: len({a.to_frame_he(), sf.FrameHE(a), b.to_frame_he()}))
t('FrameHE eq non-frame', lambda: (a.to_frame_he()==3, a.to_frame_he()!=3))
t('HE vs Frame', lambda: (a.to_frame_he()==a, ))
# block layout
f1 = sf.Frame(np.arange(6).reshape(2,3)); f2 = sf.Frame.from_items(zip(range(3), np.arange(6).reshape(2,3).T))
t('layout eq', lambda: (f1.equals(f2), f2.equals(f1), f1.equals(f2,compare_dtype=True)))
# zero size
t('empty', lambda: (sf.Frame(index=(1,2)).equals(sf.Frame(index=(1,2))), sf.Frame(columns=('a',)).equals(sf.Frame(columns=('a',)))))
# name, class
t('name', lambda: (a.equals(a.rename('q')), a.equals(a.rename('q'),compare_name=True)))
t('class', lambda: (a.equals(a.to_frame_go()), a.equals(a.to_frame_go(),compare_class=True)))
# IH equals
ih2 = sf.IndexHierarchy.from_labels([('a',1),('a',2),('b',1),('b',2)])
t('ih eq', lambda: (ih.equals(ih2), ih2.equals(ih)))
ih3 = sf.IndexHierarchy.from_labels([('a',1),('a',2),('b',1),('b',3)])
t('ih neq', lambda: (ih.equals(ih3), ih3.equals(ih)))
t('ih vs index', lambda: (ih.equals(sf.Index(list(ih))), sf.Index(list(ih)).equals(ih)))
# Bus
bus1 = sf.Bus.from_frames((a.rename('p'), b.rename('q'))); bus2 = sf.Bus.from_frames((b.rename('p'), b.rename('q')))
t('bus', lambda: (bus1.equals(bus2), bus2.equals(bus1)))
# object frames w/ mixed
t('obj frame nan', lambda: (sf.Frame.from_dict(dict(a=(np.nan,'x'))).equals(sf.Frame.from_dict(dict(a=(np.nan,'x')))),))
t('series int vs float big', lambda: (sf.Series(np.array([2**53+1])).equals(sf.Series(np.array([2.0**53]))),))
