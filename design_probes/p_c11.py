exec(open('/tmp/w/pre.py').read())
import time
def t(label, fn):
    try: print(label, '->', repr(fn()).replace('\n',' | ')[:300])
    except Exception as e: print(label, 'RAISES', type(e).__name__, str(e)[:140])
a=sf.Frame.from_dict(dict(x=(1,2),y=('p','q')),index=('i','j'),name='a')
b=sf.Frame.from_dict(dict(y=('rr',),z=(1.5,)),index=('k',),name='b')
t('concat0 union', lambda: sf.Frame.from_concat((a,b)).to_pairs(1))
t('concat0 inter', lambda: sf.Frame.from_concat((a,b),union=False).to_pairs(1))
t('concat0 fill', lambda: sf.Frame.from_concat((a,b),fill_value=None).dtypes.values.tolist())
t('concat0 dup', lambda: sf.Frame.from_concat((a,a)))
t('concat0 dup auto', lambda: sf.Frame.from_concat((a,a),index=sf.IndexAutoFactory).shape)
t('concat1', lambda: sf.Frame.from_concat((a,b.relabel(index=('j',))),axis=1).to_pairs(0))
t('concat1 dupcol', lambda: sf.Frame.from_concat((a,a),axis=1))
t('concat items', lambda: sf.Frame.from_concat_items((('A',a),('B',b))).index.values.tolist())
t('concat empty', lambda: sf.Frame.from_concat(()).shape)
t('concat gen', lambda: sf.Frame.from_concat(f for f in (a,b)).shape)
t('concat perm cols', lambda: sf.Frame.from_concat((a, a.relabel(index=('m','n'))[['y','x']])).to_pairs(0))
t('series concat', lambda: sf.Series.from_concat((sf.Series((1,2),index=('a','b')), sf.Series(('x',),index=('c',)))).to_pairs())
t('series concat_items', lambda: sf.Series.from_concat_items((('A',sf.Series((1,2),index=('a','b'))),('B',sf.Series((3,),index=('a',))))).to_pairs())
t('overlay', lambda: sf.Frame.from_overlay((sf.Frame.from_dict(dict(x=(1.,np.nan)),index=('i','j')), sf.Frame.from_dict(dict(x=(5.,6.),y=(7,8)),index=('j','k')))).to_pairs(0))
t('series overlay', lambda: sf.Series.from_overlay((sf.Series((1.,np.nan),index=('i','j')), sf.Series((5.,6.),index=('j','k')))).to_pairs())
# sort stability
f=sf.Frame.from_dict(dict(k=(2,1,2,1,np.nan if False else 1),j=('b','a','a','b','a'),v=(0,1,2,3,4)),index=tuple('pqrst'))
t('sort_values k', lambda: list(f.sort_values('k').index))
t('sort_values k desc', lambda: list(f.sort_values('k',ascending=False).index))
t('sort_values k,j', lambda: list(f.sort_values(['k','j']).index))
t('sort_values key', lambda: list(f.sort_values('k',key=lambda s:-s).index))
t('sort axis0', lambda: list(sf.Frame.from_records([[2,1,2,1]],columns=tuple('abcd'),index=('r',)).sort_values('r',axis=0).columns))
t('series sort nan', lambda: list(sf.Series((2.,np.nan,1.,np.nan),index=tuple('abcd')).sort_values().index))
t('ih sort', lambda: list(sf.Series(range(4),index=sf.IndexHierarchy.from_labels([('b',2),('b',1),('a',2),('a',1)])).sort_index().index))
# pool
s=sf.Series(range(6),index=tuple('abcdef'))
def slow(x):
    time.sleep(0.01*(5-x)); return x*2
t('apply_pool threads', lambda: s.iter_element().apply_pool(slow,max_workers=4,use_threads=True).equals(s.iter_element().apply(slow)))
t('apply_pool items threads', lambda: s.iter_element_items().apply_pool(lambda kv: kv[1]*2,max_workers=3,chunksize=2,use_threads=True).to_pairs())
def boom(x):
    if x==3: raise ValueError('x')
    return x
t('apply_pool fail', lambda: s.iter_element().apply_pool(boom,max_workers=2,use_threads=True))
