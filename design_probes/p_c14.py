exec(open('/tmp/w/pre.py').read())
import itertools, random
def t(label, fn):
    try: print(label, '->', repr(fn()).replace('\n',' | ')[:260])
    except Exception as e: print(label, 'RAISES', type(e).__name__, str(e)[:120])
# exhaustive directional fill check on small shapes vs reference, axis 1, several layouts
def ref_fill(row, forward, limit):
    out=list(row); n=len(row)
    rng = range(n) if forward else range(n-1,-1,-1)
    last=None; have=False; run=0
    for i in rng:
        v=row[i]
        if v!=v or v is None:
            if have and (limit==0 or run<limit): out[i]=last; run+=1
            else: run+=1
        else: last=v; have=True; run=0
    return out
bad=0; total=0; ex=None
for ncols in (2,3,4,5):
    for pattern in itertools.product([0,1], repeat=ncols*2):
        rows=[[np.nan if pattern[r*ncols+c] else float(10*r+c+1) for c in range(ncols)] for r in range(2)]
        arr=np.array(rows)
        for comp in ([1]*ncols, [ncols], [1,ncols-1], [ncols-1,1], [2,ncols-2] if ncols>3 else [ncols]):
            blocks=[]; pos=0
            for w in comp:
                b=arr[:,pos:pos+w]; blocks.append(b[:,0].copy() if w==1 else b.copy()); pos+=w
            f=sf.Frame(sf.TypeBlocks.from_blocks(blocks))
            for forward in (True,False):
                for limit in (0,1,2):
                    total+=1
                    g=(f.fillna_forward(limit,axis=1) if forward else f.fillna_backward(limit,axis=1)).values
                    exp=np.array([ref_fill(r,forward,limit) for r in rows])
                    if not np.array_equal(g,exp,equal_nan=True):
                        bad+=1
                        if ex is None: ex=(rows,comp,forward,limit,g.tolist(),exp.tolist())
print('axis1 directional: total',total,'bad',bad); print(ex)
# axis 0
bad=0;total=0;ex=None
for n in (1,2,3,4,5):
    for pattern in itertools.product([0,1], repeat=n):
        col=[np.nan if p else float(i+1) for i,p in enumerate(pattern)]
        s=sf.Series(col)
        for forward in (True,False):
            for limit in (0,1,2,3):
                total+=1
                g=(s.fillna_forward(limit) if forward else s.fillna_backward(limit)).values.tolist()
                exp=ref_fill(col,forward,limit)
                if not np.array_equal(g,exp,equal_nan=True):
                    bad+=1; ex=ex or (col,forward,limit,g,exp)
                f=sf.Frame.from_items([('a',col),('b',col)])
                g2=(f.fillna_forward(limit) if forward else f.fillna_backward(limit)).values[:,1].tolist()
                if not np.array_equal(g2,exp,equal_nan=True): bad+=1; ex=ex or ('frame',col,forward,limit,g2,exp)
print('axis0 directional: total',total,'bad',bad,ex)
# sided
def ref_sided(row, leading, value):
    out=list(row); n=len(row)
    rng = range(n) if leading else range(n-1,-1,-1)
    for i in rng:
        if row[i]!=row[i]: out[i]=value
        else: break
    return out
bad=0;total=0;ex=None
for ncols in (2,3,4):
    for pattern in itertools.product([0,1], repeat=ncols*2):
        rows=[[np.nan if pattern[r*ncols+c] else float(10*r+c+1) for c in range(ncols)] for r in range(2)]
        arr=np.array(rows)
        for comp in ([1]*ncols,[ncols],[1,ncols-1],[ncols-1,1]):
            blocks=[];pos=0
            for w in comp:
                b=arr[:,pos:pos+w]; blocks.append(b[:,0].copy() if w==1 else b.copy()); pos+=w
            f=sf.Frame(sf.TypeBlocks.from_blocks(blocks))
            for leading in (True,False):
                total+=1
                g=(f.fillna_leading(-1.,axis=1) if leading else f.fillna_trailing(-1.,axis=1)).values
                exp=np.array([ref_sided(r,leading,-1.) for r in rows])
                if not np.array_equal(g,exp,equal_nan=True): bad+=1; ex=ex or (rows,comp,leading,g.tolist(),exp.tolist())
print('axis1 sided total',total,'bad',bad,ex)
# fillna series label aligned
s=sf.Series((1.,np.nan,np.nan,4.),index=tuple('abcd'))
t('fillna series', lambda: s.fillna(sf.Series((10.,20.),index=('b','z'))).values)
t('fillna series int', lambda: s.fillna(sf.Series((10,20),index=('c','b'))).values)
t('PATCH=0? isin', lambda: sf.Index(('a','b')).isin(('a',)))
f=sf.Frame.from_dict(dict(a=(1.,np.nan),b=(np.nan,np.nan)),index=('x','y'))
t('frame fillna frame', lambda: f.fillna(sf.Frame.from_dict(dict(b=(7.,8.)),index=('y','q'))).values.tolist())
t('dropna all', lambda: (f.dropna().shape, f.dropna(condition=np.any).shape, f.dropna(axis=1).shape))
t('count', lambda: (f.count(axis=0).values, f.count(axis=1).values))
t('series dropna all nan', lambda: sf.Series((np.nan,np.nan),index=('a','b'),name='n').dropna())
