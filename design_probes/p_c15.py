exec(open('/tmp/w/pre.py').read())
import random, collections
rng=random.Random(7)
def rand_cols(m,n,kinds):
    cols=[]
    for j in range(m):
        k=rng.choice(kinds)
        if k=='i8': a=np.array([rng.randint(-100,100) for _ in range(n)],dtype=np.int8)
        elif k=='i': a=np.array([rng.randint(-5,5) for _ in range(n)],dtype=np.int64)
        elif k=='f': a=np.array([rng.choice([0.5,1.5,np.nan,-2.0,3.0]) for _ in range(n)])
        elif k=='b': a=np.array([rng.random()<.5 for _ in range(n)],dtype=bool)
        elif k=='u': a=np.array([rng.randint(0,5) for _ in range(n)],dtype=np.uint8)
        elif k=='f4': a=np.array([rng.choice([0.5,1.5,-2.0,3.0]) for _ in range(n)],dtype=np.float32)
        cols.append(a)
    return cols
def layouts(cols):
    yield [c for c in cols]
    out=[]; grp=[cols[0]]
    for c in cols[1:]:
        if c.dtype==grp[-1].dtype: grp.append(c)
        else: out.append(np.column_stack(grp) if len(grp)>1 else grp[0]); grp=[c]
    out.append(np.column_stack(grp) if len(grp)>1 else grp[0])
    yield out
funcs=['sum','prod','min','max','mean','median','std','var','all','any']
fails=collections.Counter(); ex={}
def close(a,b):
    if isinstance(a,(bool,np.bool_)) or isinstance(b,(bool,np.bool_)): return bool(a)==bool(b)
    try:
        if a!=a and b!=b: return True
        return abs(a-b) <= 1e-9*max(1,abs(a),abs(b))
    except Exception: return a==b
for trial in range(600):
    n=rng.randint(1,4); m=rng.randint(1,5)
    cols=rand_cols(m,n,['i8','i','f','b','u','f4'])
    for bl in layouts(cols):
        f=sf.Frame(sf.TypeBlocks.from_blocks(bl), index=tuple('pqrs')[:n], columns=tuple('abcde')[:m])
        for fn in funcs:
            for axis in (0,1):
                for skipna in (True,False):
                    try: got=getattr(f,fn)(axis=axis,skipna=skipna); gerr=None
                    except Exception as e: got=None; gerr=type(e).__name__
                    exp={}; eerr=None
                    try:
                        it = f.iter_series(axis=axis)
                        labs = f.columns if axis==0 else f.index
                        for lab,s in zip(labs,it):
                            exp[lab]=getattr(s,fn)(skipna=skipna)
                    except Exception as e: eerr=type(e).__name__
                    key=(fn,axis,skipna)
                    if gerr or eerr:
                        if gerr!=eerr: fails[key+('err',gerr,eerr)]+=1; ex.setdefault(key+('err',gerr,eerr),([str(c.dtype) for c in cols],[c.tolist() for c in cols],[b.shape for b in bl]))
                        continue
                    for lab in exp:
                        gv=got.values[list(exp).index(lab)]
                        if isinstance(gv,np.ndarray): fails[key+("arrayelem",)]+=1; ex.setdefault(key+("arrayelem",),([str(c.dtype) for c in cols],[c.tolist() for c in cols],[b.shape for b in bl],repr(got.values))); break
                        if not close(gv,exp[lab]):
                            fails[key]+=1; ex.setdefault(key,([str(c.dtype) for c in cols],[c.tolist() for c in cols],[b.shape for b in bl],lab,gv,exp[lab])); break
for k,v in sorted(fails.items(), key=lambda x:-x[1])[:30]: print(v,k,'\n    ',str(ex[k])[:400])
