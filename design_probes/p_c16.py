exec(open('/tmp/w/pre.py').read())
import io, random, collections
def rt(f, kind='csv', index_depth=None, columns_depth=None, **kw):
    buf=io.StringIO()
    getattr(f,'to_'+kind)(buf, **{k:v for k,v in kw.items() if k.startswith('include') or k=='store_filter'})
    buf.seek(0)
    return getattr(sf.Frame,'from_'+kind)(buf, index_depth=f.index.depth if index_depth is None else index_depth, columns_depth=f.columns.depth if columns_depth is None else columns_depth, **{k:v for k,v in kw.items() if k=='store_filter'}), buf.getvalue()
def same(a,b):
    if a.shape!=b.shape: return 'shape %s %s'%(a.shape,b.shape)
    if list(a.index)!=list(b.index) and [tuple(x) for x in a.index]!=[tuple(x) for x in b.index]: return 'index %r %r'%(list(a.index),list(b.index))
    if list(a.columns)!=list(b.columns): return 'columns %r %r'%(list(a.columns),list(b.columns))
    for (la,ca),(lb,cb) in zip(a.items(),b.items()):
        if ca.dtype.kind!=cb.dtype.kind and not (ca.dtype.kind in 'iu' and cb.dtype.kind in 'iu'): return 'kind %s %s %s'%(la,ca.dtype,cb.dtype)
        for x,y in zip(ca.values.tolist(), cb.values.tolist()):
            if not (x==y or (x!=x and y!=y)): return 'value %r %r %r'%(la,x,y)
    return None
cases = {
 'basic': sf.Frame.from_dict(dict(a=(1,2),b=(1.5,-2.5),c=('x','y z'),d=(True,False)), index=('p','q')),
 'comma': sf.Frame.from_dict(dict(a=('x,y','z'),b=(1,2)), index=('p','q')),
 'quote': sf.Frame.from_dict(dict(a=('x"y','z'),b=(1,2)), index=('p','q')),
 'tab': sf.Frame.from_dict(dict(a=('x\ty','z'),b=(1,2)), index=('p','q')),
 'space_edge': sf.Frame.from_dict(dict(a=(' x','y '),b=(1,2)), index=('p','q')),
 'empty_str': sf.Frame.from_dict(dict(a=('','z'),b=(1,2)), index=('p','q')),
 'nan': sf.Frame.from_dict(dict(a=(np.nan,1.5),b=(1,2)), index=('p','q')),
 'none': sf.Frame.from_dict(dict(a=(None,'x'),b=(1,2)), index=('p','q')),
 'big': sf.Frame.from_dict(dict(a=(2**62,-2**62),b=(1e300,-1e-300)), index=('p','q')),
 'bigger': sf.Frame.from_dict(dict(a=(2**63+5,1),b=(1,2)), index=('p','q')),
 'int_index': sf.Frame.from_dict(dict(a=(1,2)), index=(10,20)),
 'int_cols': sf.Frame.from_records([[1,2],[3,4]], columns=(10,20), index=('p','q')),
 'one_col': sf.Frame.from_dict(dict(a=(1,2,3)), index=('p','q','r')),
 'one_row': sf.Frame.from_dict(dict(a=(1,),b=('x',)), index=('p',)),
 'one_cell_str': sf.Frame.from_dict(dict(a=('x',)), index=('p',)),
 'ih2': sf.Frame.from_dict(dict(a=(1,2,3,4)), index=sf.IndexHierarchy.from_product(('p','q'),(1,2))),
 'ih3': sf.Frame.from_dict(dict(a=(1,2,3,4)), index=sf.IndexHierarchy.from_labels([('p',1,'x'),('p',1,'y'),('p',2,'x'),('q',1,'x')])),
 'cols2': sf.Frame(np.arange(8).reshape(2,4), index=('p','q'), columns=sf.IndexHierarchy.from_product(('A','B'),(1,2))),
 'cols2s': sf.Frame(np.arange(8).reshape(2,4), index=('p','q'), columns=sf.IndexHierarchy.from_product(('A','B'),('u','v'))),
 'bool_str': sf.Frame.from_dict(dict(a=('True','x')), index=('p','q')),
 'numlike_str': sf.Frame.from_dict(dict(a=('1','x')), index=('p','q')),
 'allnumlike_str': sf.Frame.from_dict(dict(a=('1','2')), index=('p','q')),
 'neg': sf.Frame.from_dict(dict(a=(-1,-2),b=(-0.0,5.)), index=('p','q')),
 'float_int_valued': sf.Frame.from_dict(dict(a=(1.0,2.0)), index=('p','q')),
 'hash': sf.Frame.from_dict(dict(a=('#x','y')), index=('p','q')),
 'unicode': sf.Frame.from_dict(dict(a=('é','日本')), index=('p','q')),
 'named_index': sf.Frame.from_dict(dict(a=(1,2)), index=sf.Index(('p','q'),name='idx')),
 'zero_rows': sf.Frame(columns=('a','b'), index=()),
}
for kind in ('csv','tsv'):
    for name,f in cases.items():
        try:
            g,txt=rt(f,kind)
            r=same(f,g)
            print(kind,name,'OK' if r is None else 'DIFF '+r[:120], '' if r is None else repr(txt)[:80])
        except Exception as e:
            print(kind,name,'RAISES',type(e).__name__,str(e)[:100])
