import sys; sys.path.insert(0,'/dev/shm/sfscratch')
import warnings; warnings.simplefilter('ignore')
import numpy as np, static_frame as sf, io, random, collections, re
rng=random.Random(4)
ALPHA='ab Z,"\t|;\'0 1-.e#_/\\'
def looks_ambiguous(s):
    t=s.strip()
    if s!=t: return 'edge_space'
    if t=='' : return 'empty'
    if t in ('nan','NaN','NAN','NULL','#N/A','None','inf','-inf','True','False','true','false','TRUE','FALSE'): return 'keyword'
    try: float(t); return 'numeric'
    except ValueError: pass
    try: complex(t); return 'complex'
    except ValueError: pass
    return None
def rstr():
    return ''.join(rng.choice(ALPHA) for _ in range(rng.randint(0,4)))
def same(a,b):
    if a.shape!=b.shape: return 'shape'
    ia=[tuple(x) if a.index.depth>1 else x for x in a.index]; ib=[tuple(x) if b.index.depth>1 else x for x in b.index]
    if ia!=ib: return 'index'
    if list(a.columns)!=list(b.columns): return 'columns'
    for ca,cb in zip(a._blocks.axis_values(0), b._blocks.axis_values(0)):
        ka,kb=ca.dtype.kind,cb.dtype.kind
        if ka!=kb and not (ka in 'iu' and kb in 'iu') and not (ka=='U' and kb=='O') : return 'kind %s->%s'%(ka,kb)
        for x,y in zip(ca.tolist(), cb.tolist()):
            if not (x==y or (x!=x and y!=y)): return 'value'
    return None
res=collections.Counter(); ex={}
for trial in range(6000):
    delim=rng.choice([',','\t','|',';'])
    n=rng.randint(1,3); 
    strs=[rstr() for _ in range(n)]
    amb=[looks_ambiguous(s) for s in strs]
    feats=set()
    for s in strs:
        if delim in s: feats.add('has_delim')
        if '"' in s: feats.add('has_quote')
        if '\t' in s and delim!='\t': feats.add('has_tab_nondelim')
        if "'" in s: feats.add('has_squote')
        if '#' in s: feats.add('has_hash')
        if ' ' in s.strip() : feats.add('inner_space')
        if '\\' in s: feats.add('backslash')
    feats |= {a for a in amb if a}
    f=sf.Frame.from_dict(dict(s=strs, i=list(range(n))), index=[f'r{k}' for k in range(n)])
    buf=io.StringIO()
    try:
        f.to_delimited(buf, delimiter=delim); buf.seek(0)
        g=sf.Frame.from_delimited(buf, delimiter=delim, index_depth=1)
        r=same(f,g)
    except Exception as e:
        r='EXC '+type(e).__name__
    key=(('tab' if delim=='\t' else 'other'), tuple(sorted(feats)))
    res[(key, r)]+=1; ex.setdefault((key,r),(delim,strs))
agg=collections.defaultdict(collections.Counter)
for (key,r),v in res.items(): agg[key][r]+=v
for key,c in sorted(agg.items(), key=lambda kv: str(kv[0])):
    tot=sum(c.values()); bad={k:v for k,v in c.items() if k}
    if bad: print(key, 'total',tot, 'bad',bad, 'ex', [ex[(key,k)] for k in list(bad)[:1]])
print('--- clean classes')
for key,c in sorted(agg.items(), key=lambda kv: str(kv[0])):
    if set(c)=={None}: print(key, sum(c.values()))
