exec(open('/tmp/w/pre.py').read())
import os, tempfile, time, itertools, random
def t(label, fn):
    try: print(label, '->', repr(fn()).replace('\n',' | ')[:240])
    except Exception as e: print(label, 'RAISES', type(e).__name__, str(e)[:120])
d=tempfile.mkdtemp(dir='/tmp/w')
frames=[sf.Frame.from_dict(dict(a=(i,i+1),b=(float(i),2.5)),index=('x','y'),name=f'f{i}') for i in range(5)]
b=sf.Bus.from_frames(frames)
for kind,ext in (('zip_pickle','.zip'),('zip_csv','.zip'),('zip_tsv','.zip'),('sqlite','.sqlite')):
    fp=os.path.join(d,kind+ext)
    cfg=sf.StoreConfig(index_depth=1)
    try:
        getattr(b,'to_'+kind)(fp, **({} if kind=='zip_pickle' else dict(config=cfg)))
        b2=getattr(sf.Bus,'from_'+kind)(fp, config=cfg, max_persist=2)
        print(kind,'labels',list(b2.index), 'loaded',int(b2._loaded.sum()))
        ok=all(b2[f'f{i}'].equals(frames[i]) and frames[i].equals(b2[f'f{i}']) for i in (3,0,4,0,1))
        print(kind,'frames equal',ok,'loaded',int(b2._loaded.sum()), list(b2._last_accessed))
        sub=b2[['f0','f1','f2']]
        print(kind,'multi-select loaded parent',int(b2._loaded.sum()),'derived loaded',int(sub._loaded.sum()), [type(v).__name__ for v in sub._series.values])
        print(kind,'items', [k for k,v in b2.items()], int(b2._loaded.sum()))
        print(kind,'get unloaded', type(sf.Bus.from_zip_pickle(fp).get('f1')) if kind=='zip_pickle' else '')
    except Exception as e:
        print(kind,'RAISES',type(e).__name__,str(e)[:200])
# stale file
fp=os.path.join(d,'zip_pickle.zip')
b3=sf.Bus.from_zip_pickle(fp)
_=b3['f0']
st=os.stat(fp); os.utime(fp, ns=(st.st_atime_ns, st.st_mtime_ns+10_000_000))
t('after touch read f1', lambda: b3['f1'].shape)
t('after touch read loaded f0', lambda: b3['f0'].shape)
b4=sf.Bus.from_zip_pickle(fp); os.remove(fp)
t('after delete', lambda: b4['f1'].shape)
# per-label config with max_persist=1 bulk path
fp=os.path.join(d,'cfg.zip')
fa=sf.Frame.from_dict(dict(a=(1,2)),index=('x','y'),name='A'); fb=sf.Frame.from_dict(dict(a=(1,2)),index=sf.IndexHierarchy.from_product(('p',),(1,2)),name='B')
cm={'A':sf.StoreConfig(index_depth=1),'B':sf.StoreConfig(index_depth=2)}
sf.Bus.from_frames((fa,fb)).to_zip_csv(fp, config=cm)
for mp in (None,1,2):
    bb=sf.Bus.from_zip_csv(fp, config=cm, max_persist=mp)
    t(f'cfg max_persist={mp} single', lambda: (bb['B'].index.depth, bb['A'].index.depth))
    bb=sf.Bus.from_zip_csv(fp, config=cm, max_persist=mp)
    t(f'cfg max_persist={mp} bulk', lambda: [f.index.depth for f in bb[['A','B']].values])
    bb=sf.Bus.from_zip_csv(fp, config=cm, max_persist=mp)
    t(f'cfg max_persist={mp} slice', lambda: [f.index.depth for _,f in bb.iloc[:].items()])
