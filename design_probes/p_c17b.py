exec(open('/tmp/w/pre.py').read())
import os, tempfile
d=tempfile.mkdtemp(dir='/tmp/w'); fp=os.path.join(d,'cfg.zip')
fa=sf.Frame.from_dict(dict(a=(1,2)),index=('x','y'),name='A'); fb=sf.Frame.from_dict(dict(a=(1,2)),index=sf.IndexHierarchy.from_product(('p',),(1,2)),name='B')
cm={'A':sf.StoreConfig(index_depth=1),'B':sf.StoreConfig(index_depth=2)}
sf.Bus.from_frames((fa,fb)).to_zip_csv(fp, config=cm)
bb=sf.Bus.from_zip_csv(fp, config=cm, max_persist=1)
sub=bb[['A','B']]
print([ (type(v).__name__, getattr(v,'shape',None), list(getattr(v,'columns',[]))) for v in sub._series.values])
print([ (type(v).__name__, getattr(v,'shape',None), list(getattr(v,'columns',[]))) for v in bb._series.values])
print(bb['B'].columns.values, bb['B'].index.depth)
import shutil; shutil.rmtree(d)
