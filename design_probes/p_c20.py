exec(open('/tmp/w/pre.py').read())
def t(label, fn):
    try: print(label, '->', repr(fn()).replace('\n',' | ')[:400])
    except Exception as e: print(label, 'RAISES', type(e).__name__, str(e)[:140])
L=sf.Frame.from_dict(dict(k=('a','b','c'),lv=(1,2,3)),index=(0,1,2))
R=sf.Frame.from_dict(dict(k=('c','z','a'),rv=(10,20,30)),index=(0,1,2))
for jt in ('inner','left','right','outer'):
    t(f'{jt} composite', lambda: getattr(L,'join_'+jt)(R,left_columns='k',right_columns='k',left_template='L{}',right_template='R{}').to_pairs(1))
    t(f'{jt} noncomposite', lambda: getattr(L,'join_'+jt)(R,left_columns='k',right_columns='k',left_template='L{}',right_template='R{}',composite_index=False).to_pairs(1))
# many-to-many
L2=sf.Frame.from_dict(dict(k=('a','a','b'),lv=(1,2,3)),index=('l0','l1','l2')); R2=sf.Frame.from_dict(dict(k=('a','a','c'),rv=(10,20,30)),index=('r0','r1','r2'))
t('m2m outer', lambda: L2.join_outer(R2,left_columns='k',right_columns='k',left_template='L{}',right_template='R{}').to_pairs(1))
# by index depth
t('index join', lambda: L2.join_inner(R2.relabel(index=('l1','l2','l9')),left_depth_level=0,right_depth_level=0,left_template='L{}',right_template='R{}',composite_index=False).to_pairs(1))
# pivot
P=sf.Frame.from_records([('a','x',1,1.5),('a','y',2,2.5),('b','x',3,3.5),('a','x',4,4.5)],columns=('i','c','v','w'))
t('pivot', lambda: P.pivot('i','c','v').to_pairs(1))
t('pivot 2 data', lambda: P.pivot('i','c',('v','w')).to_pairs(1))
t('pivot func', lambda: P.pivot('i','c','v',func=np.max, fill_value=-1).to_pairs(1))
t('pivot funcmap', lambda: P.pivot('i','c','v',func={'mx':np.max,'mn':np.min}).to_pairs(1))
t('pivot no cols', lambda: P.pivot('i',data_fields='v').to_pairs(1))
t('pivot 2 idx', lambda: P.pivot(('i','c'),data_fields='v').to_pairs(1))
# stack/unstack
S=sf.Frame(np.arange(8).reshape(2,4), index=('p','q'), columns=sf.IndexHierarchy.from_product(('A','B'),(1,2)))
t('stack', lambda: S.pivot_stack().to_pairs(1))
t('stack/unstack', lambda: S.pivot_stack().pivot_unstack().equals(S))
t('unstack/stack', lambda: sf.Frame(np.arange(8).reshape(4,2), index=sf.IndexHierarchy.from_product(('A','B'),(1,2)), columns=('p','q')).pivot_unstack().pivot_stack().to_pairs(1))
S2=sf.Frame(np.arange(4).reshape(2,2), index=('p','q'), columns=('a','b'))
t('stack flat', lambda: S2.pivot_stack().to_pairs(1))
t('stack flat rt', lambda: S2.pivot_stack().pivot_unstack().to_pairs(1))
# set_index etc
F=sf.Frame.from_dict(dict(a=(3,1,2),b=('x','y','z'),c=(1.5,2.5,3.5)),index=('p','q','r'),name='N')
t('set/unset', lambda: F.set_index('a',drop=True).unset_index().to_pairs(0))
t('set_index_hierarchy', lambda: F.set_index_hierarchy(('a','b'),drop=True).unset_index().to_pairs(0))
t('shift in/out', lambda: F.relabel_shift_in('b').relabel_shift_out(1).to_pairs(0))
t('shift in/out axis1', lambda: F.relabel_shift_in('q',axis=1).relabel_shift_out(1,axis=1).to_pairs(0))
