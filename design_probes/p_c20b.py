import sys; sys.path.insert(0,'/dev/shm/sfscratch')
import warnings; warnings.simplefilter('ignore')
import numpy as np, static_frame as sf
def t(label, fn):
    try: print(label, '->', repr(fn()).replace('\n',' | ')[:300])
    except Exception as e: print(label, 'RAISES', type(e).__name__, str(e)[:140])
P=sf.Frame.from_records([('a','x',10,1.5),('a','y',20,2.5),('b','x',30,3.5),('a','x',40,4.5)],columns=('i','c','v','w'))
t('pivot len', lambda: P.pivot('i','c','v',func=len).to_pairs(1))
t('pivot len nocols', lambda: P.pivot('i',data_fields='v',func=len).to_pairs(1))
t('pivot nansum nan single', lambda: sf.Frame.from_records([('a','x',np.nan),('b','x',1.0),('b','x',np.nan)],columns=('i','c','v')).pivot('i','c','v').to_pairs(1))
t('pivot std', lambda: P.pivot('i','c','v',func=np.std).to_pairs(1))
