# scratch preamble for probes: emulates the two candidate "fix:" commits
import warnings; warnings.simplefilter('ignore')
import numpy as np, static_frame as sf
from static_frame.core.type_blocks import TypeBlocks
def _dtypes(self):
    a = np.array(self._dtypes, dtype=object); a.flags.writeable = False; return a
import os
if os.environ.get('PATCH','1') == '1':
    TypeBlocks.dtypes = property(_dtypes)
    if not hasattr(np, 'in1d'):
        np.in1d = lambda a, b, assume_unique=False: np.isin(a, b, assume_unique=assume_unique)
