import sys; sys.path.insert(0,'/dev/shm/sfscratch')
import warnings; warnings.simplefilter('ignore')
import numpy as np, static_frame as sf, random, collections, traceback
rng=random.Random(int(sys.argv[1]) if len(sys.argv)>1 else 1)
def rcol(k,n):
    if k=='i': return np.array([rng.randint(-9,9) for _ in range(n)],dtype=np.int64)
    if k=='f': return np.array([rng.choice([.5,1.5,-2.,np.nan]) for _ in range(n)])
    if k=='b': return np.array([rng.random()<.5 for _ in range(n)])
    if k=='U': return np.array([rng.choice(['a','bb','']) for _ in range(n)])
    if k=='O': return np.array([rng.choice([None,1,'x',2.5]) for _ in range(n)],dtype=object)
def layout(cols):
    blocks=[];i=0
    while i<len(cols):
        j=i+1
        while j<len(cols) and cols[j].dtype==cols[i].dtype and rng.random()<.6: j+=1
        if j-i==1: blocks.append(cols[i] if rng.random()<.6 else cols[i].reshape(-1,1))
        else: blocks.append(np.column_stack(cols[i:j]))
        i=j
    return blocks
def rindex(n, kind):
    if kind=='auto': return None, list(range(n))
    if kind=='int': l=rng.sample(range(-5,20),n); return sf.Index(l), l
    if kind=='str': l=rng.sample(list('abcdefghij'),n); return sf.Index(l), l
    if kind=='intsorted': l=sorted(rng.sample(range(0,20),n)); return sf.Index(l), l
def rkey_pos(n):
    k=rng.choice(['int','slice','list','bool','arr'])
    if k=='int': return rng.randint(-n-1,n) , k
    if k=='slice':
        f=lambda: rng.choice([None]+list(range(-n-2,n+3)))
        return slice(f(),f(),rng.choice([None,1,2,3,-1,-2,-3])), k
    if k=='list': return rng.sample(range(-n,n), rng.randint(0,n)) if n else [], k
    if k=='arr': return np.array(rng.sample(range(n), rng.randint(0,n)),dtype=np.int64), k
    return np.array([rng.random()<.5 for _ in range(n)],dtype=bool), k
def model_positions(key,n):
    # returns (positions list, scalar?) or raises LookupError
    if isinstance(key,(int,np.integer)):
        if not -n<=key<n: raise IndexError
        return [key % n], True
    if isinstance(key,slice): return list(range(*key.indices(n))), False
    if isinstance(key,np.ndarray) and key.dtype==bool: return [i for i,v in enumerate(key) if v], False
    out=[]
    for k in list(key):
        if not -n<=k<n: raise IndexError
        out.append(int(k)%n)
    return out, False
fails=collections.Counter(); ex={}; stats=collections.Counter()
def rec(k,e): fails[k]+=1; ex.setdefault(k,e)
for trial in range(4000):
    n=rng.randint(0,5); m=rng.randint(1,5)
    cols=[rcol(rng.choice('ifbUO'),n) for _ in range(m)]
    ik=rng.choice(['auto','int','str','intsorted']); ck=rng.choice(['auto','str','int'])
    idx,il=rindex(n,ik); cidx,cl=rindex(m,ck)
    try: f=sf.Frame(sf.TypeBlocks.from_blocks(layout(cols)), index=idx, columns=cidx)
    except Exception as e: rec(('build',type(e).__name__),(n,m,str(e)[:80])); continue
    rk,rkk=rkey_pos(n); kk,ckk=rkey_pos(m)
    mode=rng.choice(['row','col','both'])
    key = (rk,) if mode=='row' else ((slice(None),kk) if mode=='col' else (rk,kk))
    # dedupe positions check (labels must be unique) -> expect error if duplicates
    try:
        rp,rs=model_positions(key[0],n); cp,cs=(model_positions(key[1],m) if len(key)>1 else (list(range(m)),False))
        exp_err=None
        if len(set(rp))!=len(rp) or len(set(cp))!=len(cp): exp_err='dup'
    except IndexError: exp_err='index'
    try: got=f.iloc[key[0]] if len(key)==1 else f.iloc[key]; gerr=None
    except Exception as e: got=None; gerr=type(e).__name__
    stats[(mode,rkk,ckk)]+=1
    tag=('iloc',mode,rkk if mode!='col' else '-',ckk if mode!='row' else '-')
    if exp_err:
        if gerr is None: rec(tag+('expected error',exp_err),(il,cl,key,repr(got)[:100]))
        continue
    if gerr: rec(tag+('unexpected',gerr),(n,m,[b.shape for b in f._blocks._blocks],key)); continue
    # compare
    try:
        if rs and cs:
            e=cols[cp[0]][rp[0]]; ok=(got==e) or (got!=got and e!=e) or (got is None and e is None)
            if not ok: rec(tag+('elem',),(key,got,e))
        elif rs:
            assert isinstance(got,sf.Series),'type'
            assert list(got.index)==[cl[j] for j in cp],'labels'
            assert got.name==il[rp[0]],'name'
            ev=[cols[j][rp[0]] for j in cp]
            assert all((a==b) or (a!=a and b!=b) or (a is None and b is None) for a,b in zip(got.values.tolist(),[x.item() if hasattr(x,'item') else x for x in ev])),'values'
        elif cs:
            assert isinstance(got,sf.Series),'type'
            assert list(got.index)==[il[i] for i in rp],'labels'
            assert got.name==cl[cp[0]],'name'
            assert got.dtype==cols[cp[0]].dtype,'dtype'
            ev=cols[cp[0]][rp] if len(rp) else cols[cp[0]][:0]
            assert all((a==b) or (a!=a and b!=b) or (a is None and b is None) for a,b in zip(got.values.tolist(),ev.tolist())),'values'
        else:
            assert isinstance(got,sf.Frame),'type'
            assert got.shape==(len(rp),len(cp)),'shape'
            assert list(got.index)==[il[i] for i in rp],'rlabels'
            assert list(got.columns)==[cl[j] for j in cp],'clabels'
            for jj,j in enumerate(cp):
                gc=got.iloc[:,jj] if got.shape[0] else None
                if gc is None: continue
                gv=gc.values.tolist() if isinstance(gc,sf.Series) else [gc]
                assert got._blocks._dtypes[jj]==cols[j].dtype,('dtype')
                ev=cols[j][rp].tolist()
                assert all((a==b) or (a!=a and b!=b) or (a is None and b is None) for a,b in zip(gv,ev)),'values'
    except AssertionError as e:
        rec(tag+('mismatch',str(e.args[0])),(n,m,[b.shape for b in f._blocks._blocks],il,cl,key))
    except Exception as e:
        rec(tag+('cmpEXC',type(e).__name__),(n,m,key,traceback.format_exc()[-300:]))
print('cases',sum(stats.values()))
for k,v in fails.most_common(40): print(v,k,str(ex[k])[:300])
