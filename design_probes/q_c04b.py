import sys; sys.path.insert(0,'/dev/shm/sfscratch')
import warnings; warnings.simplefilter('ignore')
import numpy as np, static_frame as sf, random, collections, traceback
rng=random.Random(int(sys.argv[1]) if len(sys.argv)>1 else 1)
fails=collections.Counter(); ex={}; stats=collections.Counter()
def rec(k,e): fails[k]+=1; ex.setdefault(k,e)
def eqv(a,b): return (a==b) or (a!=a and b!=b)
for trial in range(6000):
    n=rng.randint(1,6)
    ik=rng.choice(['auto','int','str','float','date'])
    if ik=='auto': labs=list(range(n)); idx=None
    elif ik=='int': labs=rng.sample(range(-5,15),n); idx=sf.Index(labs)
    elif ik=='str': labs=rng.sample(list('abcdefghij'),n); idx=sf.Index(labs)
    elif ik=='float': labs=rng.sample([0.5,1.5,2.0,-1.0,3.25,7.0,8.5],n); idx=sf.Index(labs)
    else:
        days=sorted(rng.sample(range(0,80),n)); labs=[np.datetime64('2020-01-01')+np.timedelta64(d,'D') for d in days]; idx=sf.IndexDate(labs)
    vals=[rng.randint(0,99) for _ in range(n)]
    s=sf.Series(vals,index=idx,name='nm')
    absent = {'auto':[n, n+3], 'int':[x for x in range(-8,20) if x not in labs][:2], 'str':['zz','q'], 'float':[9.75, -3.5], 'date':[np.datetime64('2021-06-01')]}[ik]
    kk=rng.choice(['label','list','slice','slice_step','boolS','boolS_partial','boolarr','absent','list_absent','ILoc','index_key','series_key'])
    exp=None; exp_err=False
    try:
        if kk=='label': i=rng.randrange(n); key=labs[i]; exp=('elem',vals[i])
        elif kk=='list': pos=rng.sample(range(n),rng.randint(0,n)); key=[labs[i] for i in pos]; exp=('series',pos)
        elif kk in('slice','slice_step'):
            i,j=sorted(rng.sample(range(n),2)) if n>1 else (0,0)
            step=None if kk=='slice' else rng.choice([1,2,3])
            a=rng.choice([labs[i],None]); b=rng.choice([labs[j],None])
            key=slice(a,b,step); lo=i if a is not None else 0; hi=j if b is not None else n-1
            exp=('series',list(range(lo,hi+1,step or 1)))
        elif kk=='boolS':
            mask=[rng.random()<.5 for _ in range(n)]; perm=rng.sample(range(n),n)
            key=sf.Series([mask[i] for i in perm],index=[labs[i] for i in perm] if ik!='date' else sf.IndexDate([labs[i] for i in perm])); exp=('series',[i for i in range(n) if mask[i]])
        elif kk=='boolS_partial':
            sub=rng.sample(range(n),rng.randint(1,n)); mask={i:rng.random()<.6 for i in sub}
            key=sf.Series([mask[i] for i in sub],index=[labs[i] for i in sub] if ik!='date' else sf.IndexDate([labs[i] for i in sub])); exp=('series',[i for i in range(n) if mask.get(i,False)])
        elif kk=='boolarr': mask=[rng.random()<.5 for _ in range(n)]; key=np.array(mask); exp=('series',[i for i in range(n) if mask[i]])
        elif kk=='absent': key=rng.choice(absent); exp_err=True
        elif kk=='list_absent': key=[labs[0], rng.choice(absent)]; exp_err=True
        elif kk=='ILoc': pos=rng.sample(range(n),rng.randint(1,n)); key=sf.ILoc[pos]; exp=('series',pos)
        elif kk=='index_key': pos=rng.sample(range(n),rng.randint(1,n)); key=sf.Index([labs[i] for i in pos]) if ik!='date' else sf.IndexDate([labs[i] for i in pos]); exp=('series',pos)
        elif kk=='series_key': pos=rng.sample(range(n),rng.randint(1,n)); key=sf.Series([labs[i] for i in pos]); exp=('series',pos)
    except Exception as e:
        rec(('gen',kk,ik,type(e).__name__),str(e)[:80]); continue
    stats[(ik,kk)]+=1
    for route in ('loc','getitem'):
        try: got=s.loc[key] if route=='loc' else s[key]; gerr=None
        except Exception as e: got=None; gerr=e
        tag=(route,ik,kk)
        if exp_err:
            if gerr is None: rec(tag+('absent returned',),(labs,key,repr(got)[:80]))
            elif not isinstance(gerr,(LookupError, sf.LocInvalid if hasattr(sf,'LocInvalid') else LookupError)): rec(tag+('absent wrong exc',type(gerr).__name__),(labs,key))
            continue
        if gerr is not None: rec(tag+('unexpected',type(gerr).__name__),(labs,repr(key)[:120],str(gerr)[:80])); continue
        if exp[0]=='elem':
            if not eqv(got,exp[1]): rec(tag+('elem',),(labs,key,got,exp[1]))
        else:
            pos=exp[1]
            if not isinstance(got,sf.Series): rec(tag+('type',),(labs,repr(key)[:80],repr(got)[:60])); continue
            if [x for x in got.index]!=[labs[i] for i in pos] or got.values.tolist()!=[vals[i] for i in pos] or got.name!='nm':
                rec(tag+('mismatch',),(labs,vals,repr(key)[:120],list(got.index),got.values.tolist()))
print('cases',sum(stats.values()))
for k,v in fails.most_common(40): print(v,k,str(ex[k])[:300])
