import sys; sys.path.insert(0,'/dev/shm/sfscratch')
import warnings; warnings.simplefilter('ignore')
import numpy as np, static_frame as sf, random, collections
rng=random.Random(int(sys.argv[1]) if len(sys.argv)>1 else 1)
fails=collections.Counter(); ex={}; stats=collections.Counter()
def rec(k,e): fails[k]+=1; ex.setdefault(k,e)
def tree_valid_after(model, t):
    # appending t keeps tree form iff for each prefix depth d, if prefix t[:d+1] seen before then it equals last label's prefix
    if t in model: return 'dup'
    if not model: return 'ok'
    last=model[-1]
    for d in range(len(t)-1):
        pref=t[:d+1]
        seen=any(m[:d+1]==pref for m in model)
        if seen and last[:d+1]!=pref: return 'nontree'
    return 'ok'
def check(ih, model, hist, tag):
    try:
        assert len(ih)==len(model),'len'
        assert [tuple(x) for x in ih]==model,'iter'
        assert [tuple(r) for r in ih.values.tolist()]==[tuple(m) for m in model],'values'
        for d in range(len(model[0]) if model else 0):
            assert ih.values_at_depth(d).tolist()==[m[d] for m in model],('vad',d)
        for i,m in enumerate(model):
            assert m in ih,'contains'; assert ih.loc_to_iloc(m)==i,'lookup'
        assert ih.shape==(len(model), ih.depth),'shape'
    except AssertionError as e:
        k=(tag,str(e.args[0])); rec(k,(hist[:],model))
    except Exception as e:
        rec((tag,'EXC',type(e).__name__),(hist[:],model,str(e)[:80]))
P0=['a','b','c']; P1=[1,2,3]; P2=['x','y']
for trial in range(1500):
    depth=rng.choice([2,3])
    # start labels
    model=[]
    outs=rng.sample(P0,rng.randint(1,2))
    for o in outs:
        for i in rng.sample(P1,rng.randint(1,2)):
            if depth==2: model.append((o,i))
            else:
                for z in rng.sample(P2,rng.randint(1,2)): model.append((o,i,z))
    ih=sf.IndexHierarchyGO.from_labels(model); hist=[list(model)]
    for step in range(rng.randint(1,8)):
        r=rng.random()
        if r<.65:
            t=(rng.choice(P0+['d']), rng.choice(P1+[4])) + ((rng.choice(P2+['z']),) if depth==3 else ())
            verdict=tree_valid_after(model,t)
            hist.append(('append',t,verdict)); stats[verdict]+=1
            before=list(model)
            try:
                ih.append(t)
                if verdict!='ok': rec(('accepted',verdict),(hist[:],))
                model.append(t) if verdict=='ok' else None
                if verdict!='ok':
                    # what did it store?
                    got=[tuple(x) for x in ih]
                    rec(('stored after bad accept', 'equals model+t' if got==before+[t] else 'other'),(hist[:],got))
                    break
            except Exception as e:
                if verdict=='ok': rec(('rejected ok',type(e).__name__),(hist[:],str(e)[:60])); break
                else:
                    stats['rejected '+verdict]+=1
        elif r<.8: hist.append('read'); _=ih.values; _=len(ih)
        elif r<.9:
            hist.append('static'); st=sf.IndexHierarchy(ih); check(st,list(model),hist,'static')
        else:
            hist.append('copy'); ih2=ih.copy(); check(ih2,list(model),hist,'copy')
        check(ih,list(model),hist,'go')
print(dict(stats))
for k,v in fails.most_common(20): print(v,k,str(ex[k])[:400])
