import sys; sys.path.insert(0,'/dev/shm/sfscratch')
import warnings; warnings.simplefilter('ignore')
import numpy as np, static_frame as sf, random, collections, datetime
rng=random.Random(1)
KINDS={
 'bool':(np.dtype(bool),[True,False]),
 'int8':(np.dtype('int8'),[-128,127,0]), 'int64':(np.dtype('int64'),[-2**63,2**63-1,2**53+1,0]),
 'uint8':(np.dtype('uint8'),[0,255]), 'uint64':(np.dtype('uint64'),[0,2**64-1,2**53+1]),
 'float16':(np.dtype('float16'),[0.5,-2.0,np.nan]), 'float32':(np.dtype('float32'),[0.5,1e30,np.nan]), 'float64':(np.dtype('float64'),[0.1,1e300,np.nan,-0.0]),
 'complex128':(np.dtype('complex128'),[1+2j,0j]),
 'U1':(np.dtype('<U1'),['a','','é']), 'U5':(np.dtype('<U5'),['abcde','x y,z','"q"']),
 'S1':(np.dtype('S1'),[b'a',b'']), 'S4':(np.dtype('S4'),[b'abcd',b'x']),
 'dtD':(np.dtype('datetime64[D]'),[np.datetime64('2020-01-01'),np.datetime64('NaT','D')]),
 'dtns':(np.dtype('datetime64[ns]'),[np.datetime64('2020-01-01T00:00:00.000000001'),np.datetime64('NaT','ns')]),
 'tdD':(np.dtype('timedelta64[D]'),[np.timedelta64(3,'D')]), 'tds':(np.dtype('timedelta64[s]'),[np.timedelta64(5,'s')]),
 'obj':(np.dtype(object),[None,'str',2**70,1.5,True]),
}
def tclass(x):
    if x is None: return 'none'
    if isinstance(x,(bool,np.bool_)): return 'bool'
    if isinstance(x,(np.datetime64,datetime.date)): return 'dt'
    if isinstance(x,(np.timedelta64,datetime.timedelta)): return 'td'
    if isinstance(x,(int,np.integer)): return 'int'
    if isinstance(x,(float,np.floating)): return 'float'
    if isinstance(x,(complex,np.complexfloating)): return 'complex'
    if isinstance(x,(str,np.str_)): return 'str'
    if isinstance(x,(bytes,np.bytes_)): return 'bytes'
    if isinstance(x,(np.datetime64,datetime.date)): return 'dt'
    if isinstance(x,(np.timedelta64,datetime.timedelta)): return 'td'
    return 'other'
def ok(stored, supplied):
    cs,cp=tclass(stored),tclass(supplied)
    try:
        if cp=='dt' or cp=='td':
            a=np.datetime64(stored) if cp=='dt' and not isinstance(stored,np.datetime64) else stored
            if isinstance(supplied,(np.datetime64,np.timedelta64)) and np.isnat(supplied): return ('natclass', isinstance(a,(np.datetime64,np.timedelta64)) and np.isnat(a)) 
            return ('eq', bool(a==supplied))
        if cp in('float','complex') and supplied!=supplied: return ('nan', stored!=stored)
        eq=bool(stored==supplied)
    except Exception as e: return ('cmpexc',False)
    if not eq: return ('neq',False)
    if cp=='str' and len(stored)!=len(supplied): return ('strlen',False)
    if cp=='int' and cs=='int' and int(stored)!=int(supplied): return ('intexact',False)
    if cp=='int' and cs in ('float','complex'):
        z=complex(stored); return ('int->float', z.imag==0 and z.real==supplied and int(z.real)==int(supplied))
    if cs!=cp and not (cp=='float' and cs=='complex') : return ('class %s->%s'%(cp,cs), False)
    return ('ok',True)
def arr(kind,vals):
    dt=KINDS[kind][0]
    if dt==object:
        a=np.empty(len(vals),dtype=object); a[:]=vals; return a
    return np.array(vals,dtype=dt)
OPS={}
def op_reindex(a,av,b,bv):  # series a reindexed with fill b[0]
    s=sf.Series(a,index=list(range(len(a)))); r=s.reindex(list(range(len(a)))+[99],fill_value=bv[0]); return r.values, av+[bv[0]]
def op_shift(a,av,b,bv):
    s=sf.Series(a); r=s.shift(1,fill_value=bv[0]); return r.values, [bv[0]]+av[:-1]
def op_concat(a,av,b,bv):
    r=sf.Series.from_concat((sf.Series(a),sf.Series(b,index=[100+i for i in range(len(b))]))); return r.values, av+bv
def op_assign(a,av,b,bv):
    s=sf.Series(a); r=s.assign.iloc[0](bv[0]); return r.values, [bv[0]]+av[1:]
def op_assign_arr(a,av,b,bv):
    s=sf.Series(a); k=min(len(a),len(b)); r=s.assign.iloc[:k](b[:k]); return r.values, bv[:k]+av[k:]
def op_fconcat(a,av,b,bv):
    r=sf.Frame.from_concat((sf.Frame.from_items([('c',a)]), sf.Frame.from_items([('c',b)],index=[100+i for i in range(len(b))]))); return r['c'].values, av+bv
def op_frame_assign(a,av,b,bv):
    f=sf.Frame.from_items([('c',a),('d',a)]); r=f.assign.iloc[0,0](bv[0]); 
    assert r['d'].dtype==a.dtype, 'untouched dtype changed'
    return r['c'].values, [bv[0]]+av[1:]
def op_row(a,av,b,bv):
    k=min(len(a),len(b)); f=sf.Frame.from_items([('c',a[:k]),('d',b[:k])]); r=f.iloc[0]; return r.values, [av[0],bv[0]]
def op_values(a,av,b,bv):
    k=min(len(a),len(b)); f=sf.Frame.from_items([('c',a[:k]),('d',b[:k])]); v=f.values; return v[:,0].tolist()+v[:,1].tolist(), av[:k]+bv[:k]
def op_insert(a,av,b,bv):
    s=sf.Series(a,index=list(range(len(a)))); r=s.insert_after(0, sf.Series(b,index=[100+i for i in range(len(b))])); return r.values, av[:1]+bv+av[1:]
def op_fillna(a,av,b,bv):
    s=sf.Series(a); r=s.fillna(bv[0]); exp=[bv[0] if (x is None or x!=x) else x for x in av]; return r.values, exp
def op_records(a,av,b,bv):
    k=min(len(a),len(b)); rows=[(av[i],) for i in range(k)]+[(bv[i],) for i in range(k)]
    f=sf.Frame.from_records(rows); return f.iloc[:,0].values, av[:k]+bv[:k]
for n,f in list(globals().items()):
    if n.startswith('op_'): OPS[n[3:]]=f
res=collections.defaultdict(collections.Counter); ex={}
for ka,(dta,pa) in KINDS.items():
    for kb,(dtb,pb) in KINDS.items():
        if {dta.kind,dtb.kind}=={'U','S'}: continue
        av=list(pa); bv=list(pb)
        a=arr(ka,av); b=arr(kb,bv)
        av=[x for x in a.tolist()] if dta!=object and dta.kind not in 'Mm' else list(a)
        bv=[x for x in b.tolist()] if dtb!=object and dtb.kind not in 'Mm' else list(b)
        if dta.kind in 'Mm': av=list(a)
        if dtb.kind in 'Mm': bv=list(b)
        for name,op in OPS.items():
            try: stored,supplied=op(a,av,b,bv)
            except AssertionError as e: res[name][('ASSERT',str(e))]+=1; ex.setdefault((name,'ASSERT'),(ka,kb)); continue
            except Exception as e:
                res[name][('raise',type(e).__name__)]+=1; ex.setdefault((name,'raise',type(e).__name__),(ka,kb,str(e)[:60])); continue
            stored=list(stored)
            for st,sp in zip(stored,supplied):
                tag,good=ok(st,sp)
                if not good:
                    res[name][(tag,)]+=1; ex.setdefault((name,tag),(ka,kb,repr(sp),repr(st))); 
            res[name][('checked',)]+=1
for name,c in res.items():
    print(name, dict(c))
print('--- examples')
for k,v in ex.items(): print(k,v)
