import sys; sys.path.insert(0,'/dev/shm/sfscratch')
import warnings; warnings.simplefilter('ignore')
import numpy as np, static_frame as sf, collections, copy, pickle
from hypothesis import settings, strategies as st, seed, HealthCheck
from hypothesis.stateful import RuleBasedStateMachine, rule, invariant, initialize, run_state_machine_as_test, Bundle
stats=collections.Counter(); findings=collections.Counter()
LABELS=st.sampled_from(list('abcdefgh')+[1,2,(1,'x')])
def snap(x):
    if isinstance(x,sf.Frame):
        return ('F',type(x).__name__,tuple(map(repr,x.columns)),tuple(map(repr,x.index)),x._blocks.shape,tuple((str(a.dtype),tuple(map(repr,a.tolist()))) for a in x._blocks.axis_values(0)))
    if isinstance(x,sf.Series): return ('S',tuple(map(repr,x.index)),tuple(map(repr,x.values.tolist())))
    if isinstance(x,sf.Index): return ('I',tuple(map(repr,x)))
    return ('O',repr(x))
DERIVE={
 'to_frame':lambda f:f.to_frame(),'to_frame_go':lambda f:f.to_frame_go(),'iloc[:]':lambda f:f.iloc[:],'iloc[:, :1]':lambda f:f.iloc[:,:1],
 'loc[:]':lambda f:f.loc[:],'relabel':lambda f:f.relabel(index=lambda x:x),'rename':lambda f:f.rename('zz'),'sort_index':lambda f:f.sort_index(),
 'sort_columns':lambda f:f.sort_columns(key=lambda i:i.values.astype(str)),'reindex':lambda f:f.reindex(index=f.index),'neg':lambda f:f.isna(),'T':lambda f:f.T,
 'FrameGO(f)':lambda f:sf.FrameGO(f),'Frame(f)':lambda f:sf.Frame(f),'deepcopy':lambda f:copy.deepcopy(f),'pickle':lambda f:pickle.loads(pickle.dumps(f)),
 'assign':lambda f:f.assign.iloc[0,0](99) if f.shape[1] else f.to_frame_go(),'drop':lambda f:f.drop.iloc[0],'astype':lambda f:f.astype(object),
 'group':lambda f:next(iter(f.iter_group_labels(0))) ,'from_concat':lambda f:sf.FrameGO.from_concat((f,),axis=1) if f.shape[1] else f.to_frame_go(),
 'columns.copy':lambda f:f.columns.copy(),'iter_series':lambda f:next(iter(f.iter_series(axis=1))),'shift':lambda f:f.shift(1),'roll':lambda f:f.roll(1),
}
class M(RuleBasedStateMachine):
    def __init__(self):
        super().__init__(); self.go=[]; self.others=[]  # go: list of [frame, model_cols(list of (label, values))]
    @initialize(n=st.integers(1,3))
    def setup(self,n):
        self.n=n; self.go=[[sf.FrameGO(index=list(range(n))), []]]
    def _check_all(self, changed_idx=None):
        for i,(f,model) in enumerate(self.go):
            cols=[l for l,_ in model]
            assert [c for c in f.columns]==cols or list(map(repr,f.columns))==list(map(repr,cols)), ('labels',i)
            assert f._blocks.shape==(len(f.index),len(cols)), ('lockstep',i,f._blocks.shape,len(cols))
            for l,v in model:
                got=f[l].values.tolist()
                assert got==v or all((a==b) or (a!=a and b!=b) for a,b in zip(got,v)), ('values',i,l)
        for obj,s0,name in self.others:
            assert snap(obj)==s0, ('shared: derived changed', name)
    @rule(which=st.integers(0,5), label=LABELS, kind=st.sampled_from(['list','scalar','array','series','series_unaligned','bad_len','bad_2d']), data=st.data())
    def setitem(self,which,label,kind,data):
        f,model=self.go[which%len(self.go)]
        n=len(f.index)
        vals=data.draw(st.lists(st.integers(-5,5),min_size=n,max_size=n))
        if kind=='list': v=vals; exp=vals
        elif kind=='scalar': v=vals[0]; exp=[vals[0]]*n
        elif kind=='array': v=np.array(vals); exp=vals
        elif kind=='series': v=sf.Series(vals,index=f.index); exp=vals
        elif kind=='series_unaligned': v=sf.Series(vals,index=[x+1 for x in f.index]); exp=[float('nan')]+[float(x) for x in vals[:-1]]
        elif kind=='bad_len': v=vals+[0]; exp=None
        else: v=np.array([vals,vals]); exp=None
        dup=any(repr(label)==repr(l) for l,_ in model)
        before=snap(f)
        try:
            f[label]=v
            ok=True
        except Exception as e:
            ok=False
        if dup or exp is None:
            if ok: findings[('accepted bad setitem',kind,dup)]+=1; model.append((label,f[label].values.tolist()))
            else:
                assert snap(f)==before, 'failed setitem mutated'
                stats['rejected setitem']+=1
        else:
            assert ok, ('valid setitem rejected',kind,label)
            model.append((label,exp)); stats['setitem']+=1
    @rule(which=st.integers(0,5), labels=st.lists(LABELS,min_size=1,max_size=3,unique_by=repr), data=st.data())
    def extend(self,which,labels,data):
        f,model=self.go[which%len(self.go)]
        n=len(f.index)
        cols=[data.draw(st.lists(st.integers(-5,5),min_size=n,max_size=n)) for _ in labels]
        other=sf.Frame.from_items(zip(labels,cols),index=f.index)
        dups=[any(repr(l)==repr(m) for m,_ in model) for l in labels]
        before=snap(f)
        try: f.extend(other); ok=True
        except Exception as e: ok=False; err=e
        if any(dups):
            if ok: findings[('extend accepted dup',)]+=1
            else:
                try:
                    same = snap(f)==before
                except Exception as e2: same=False
                if not same:
                    findings[('extend partial failure', 'all dup' if all(dups) else 'partial dup')]+=1
                    # repair model impossible -> drop this container from tracking
                    self.go.remove([f,model]) if [f,model] in self.go else None
                    if not self.go: self.go=[[sf.FrameGO(index=list(range(self.n))), []]]
                else: stats['extend rejected clean']+=1
        else:
            assert ok, ('valid extend rejected', labels)
            model.extend(zip(labels,cols)); stats['extend']+=1
    @rule(which=st.integers(0,5), name=st.sampled_from(sorted(DERIVE)))
    def derive(self,which,name):
        f,model=self.go[which%len(self.go)]
        if not model and name in ('assign','drop','group','iter_series','T'): return
        try: d=DERIVE[name](f)
        except Exception as e:
            stats[('derive err',name,type(e).__name__)]+=1; return
        if isinstance(d,sf.FrameGO) and d is not f:
            self.go.append([d,[(l,d[l].values.tolist()) for l in d.columns]])
        else:
            self.others.append((d,snap(d),name))
        stats['derive']+=1
    @rule(which=st.integers(0,5))
    def read(self,which):
        f,_=self.go[which%len(self.go)]; _=f.values; _=f.columns.values; _=len(f.columns); stats['read']+=1
    @invariant()
    def inv(self): self._check_all()
try:
    run_state_machine_as_test(seed(int(sys.argv[1]) if len(sys.argv)>1 else 1)(M), settings=settings(max_examples=300, stateful_step_count=25, database=None, deadline=None, suppress_health_check=list(HealthCheck)))
    print('PASS')
except Exception as e:
    import traceback; traceback.print_exc(limit=2)
print({k:v for k,v in stats.items() if not isinstance(k,tuple)}); print({k:v for k,v in stats.items() if isinstance(k,tuple)}); print('findings',dict(findings))
