import sys; sys.path.insert(0,'/dev/shm/sfscratch')
import warnings; warnings.simplefilter('ignore')
import numpy as np, static_frame as sf, random, collections, itertools
rng=random.Random(int(sys.argv[1]) if len(sys.argv)>1 else 1)
fails=collections.Counter(); ex={}; stats=collections.Counter()
def rec(k,e): fails[k]+=1; ex.setdefault(k,e)
MISS={'f':float('nan'),'O':None,'M':np.datetime64('NaT')}
def base():
    n=rng.randint(1,3); m=rng.randint(1,3)
    kinds=[rng.choice('ifUObM') for _ in range(m)]
    cols=[]
    for k in kinds:
        if k=='i': c=[rng.randint(0,3) for _ in range(n)]
        elif k=='f': c=[rng.choice([0.5,1.5,float('nan')]) for _ in range(n)]
        elif k=='U': c=[rng.choice(['a','bb']) for _ in range(n)]
        elif k=='O': c=[rng.choice([None,'x',1,float('nan')]) for _ in range(n)]
        elif k=='b': c=[rng.random()<.5 for _ in range(n)]
        else: c=[rng.choice([np.datetime64('2020-01-01'),np.datetime64('NaT')]) for _ in range(n)]
        cols.append(c)
    return dict(kinds=kinds,cols=cols,index=rng.sample(list('pqrs'),n),columns=rng.sample(list('abcd'),m),name=rng.choice([None,'nm']),cls='Frame',layout=rng.random()<.5)
def edit(spec):
    s={k:(list(v) if isinstance(v,list) else v) for k,v in spec.items()}; s['cols']=[list(c) for c in spec['cols']]
    site=rng.choice(['none','cell','label','collabel','name','cls','layout','miss','dtype'])
    j=rng.randrange(len(s['cols'])); i=rng.randrange(len(s['index']))
    k=s['kinds'][j]
    if site=='cell':
        s['cols'][j][i]={'i':99,'i32':99,'f':9.5,'U':'zz','O':'other','b':not s['cols'][j][i],'M':np.datetime64('1999-01-01')}[k]
    elif site=='miss' and k in MISS: s['cols'][j][i]=MISS[k]
    elif site=='label': s['index'][i]='Z'
    elif site=='collabel': s['columns'][j]='Z'
    elif site=='name': s['name']='other'
    elif site=='cls': s['cls']=rng.choice(['FrameGO','FrameHE'])
    elif site=='layout': s['layout']=not s['layout']
    elif site=='dtype' and k=='i': s['kinds'][j]='i32'
    return s,site
def build(s):
    arrs=[]
    for k,c in zip(s['kinds'],s['cols']):
        if k=='O': a=np.empty(len(c),dtype=object); a[:]=c
        elif k=='i32': a=np.array(c,dtype=np.int32)
        elif k=='M': a=np.array(c,dtype='datetime64[D]')
        else: a=np.array(c)
        arrs.append(a)
    if s['layout']:
        # consolidate adjacent same dtype
        blocks=[];i=0
        while i<len(arrs):
            j=i+1
            while j<len(arrs) and arrs[j].dtype==arrs[i].dtype: j+=1
            blocks.append(np.column_stack(arrs[i:j]) if j-i>1 else arrs[i]); i=j
    else: blocks=arrs
    f=sf.Frame(sf.TypeBlocks.from_blocks(blocks),index=s['index'],columns=s['columns'],name=s['name'])
    return {'Frame':lambda x:x,'FrameGO':lambda x:x.to_frame_go(),'FrameHE':lambda x:x.to_frame_he()}[s['cls']](f), arrs
def ismiss(x):
    if x is None: return 'none'
    try:
        if isinstance(x,(np.datetime64,)) and np.isnat(x): return 'nat'
        if x!=x: return 'nan'
    except Exception: pass
    return None
def pred(sa,aa,sb,ab,opts):
    if len(sa['index'])!=len(sb['index']) or len(sa['columns'])!=len(sb['columns']): return False
    if sa['index']!=sb['index'] or sa['columns']!=sb['columns']: return False
    for ca,cb in zip(aa,ab):
        for x,y in zip(ca.tolist() if ca.dtype.kind!='M' else list(ca), cb.tolist() if cb.dtype.kind!='M' else list(cb)):
            mx,my=ismiss(x),ismiss(y)
            if mx in('nan','nat') and my in ('nan','nat'):
                if not opts['skipna']: return False
                continue
            try: eq=bool(x==y)
            except Exception: eq=False
            if not eq: return False
    if opts['compare_name'] and sa['name']!=sb['name']: return False
    if opts['compare_dtype'] and [a.dtype for a in aa]!=[b.dtype for b in ab]: return False
    if opts['compare_class'] and sa['cls']!=sb['cls']: return False
    return True
for trial in range(4000):
    s0=base(); s1,site1=edit(s0); s2,site2=edit(s1)
    try: (a,aa),(b,ab),(c,ac)=build(s0),build(s1),build(s2)
    except Exception as e: rec(('build',type(e).__name__),str(e)[:80]); continue
    opts=dict(compare_name=rng.random()<.3,compare_dtype=rng.random()<.3,compare_class=rng.random()<.3,skipna=rng.random()<.7)
    stats[(site1,site2)]+=1
    try:
        ab_=a.equals(b,**opts); ba_=b.equals(a,**opts); bc_=b.equals(c,**opts); ac_=a.equals(c,**opts)
        a2,_=build(s0); refl=a.equals(a2,**opts)
    except Exception as e: rec(('EXC',site1,type(e).__name__),(s0,s1,str(e)[:80])); continue
    if ab_!=ba_: rec(('asym',site1),(s0['cols'],s1['cols'],opts))
    exp=pred(s0,aa,s1,ab,opts)
    if ab_!=exp: rec(('pred',site1,ab_,exp),(s0,s1,opts))
    if ab_ and bc_ and not ac_: rec(('trans',site1,site2),(s0,s1,s2,opts))
    if refl!=pred(s0,aa,s0,aa,opts): rec(('refl',refl),(s0,opts))
    # HE
    if isinstance(a,sf.FrameHE) and isinstance(b,sf.FrameHE):
        e1=(a==b); 
        if not isinstance(e1,bool): rec(('he not bool',),())
        if e1 and hash(a)!=hash(b): rec(('he hash',),(s0,s1))
        if (a!=b)==e1: rec(('he ne',),())
print('cases',sum(stats.values()))
for k,v in fails.most_common(25): print(v,k,str(ex[k])[:300])
