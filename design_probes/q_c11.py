import sys; sys.path.insert(0,'/dev/shm/sfscratch')
import warnings; warnings.simplefilter('ignore')
import numpy as np, static_frame as sf, random, collections, traceback
rng=random.Random(int(sys.argv[1]) if len(sys.argv)>1 else 1)
fails=collections.Counter(); ex={}; stats=collections.Counter()
def rec(k,e): fails[k]+=1; ex.setdefault(k,e)
def eqv(a,b):
    try: return bool((a==b) or (a!=a and b!=b))
    except Exception: return False
def rcol(k,n):
    if k=='i': return np.array([rng.randint(-9,9) for _ in range(n)],dtype=np.int64)
    if k=='f': return np.array([rng.choice([.5,1.5,-2.]) for _ in range(n)])
    if k=='b': return np.array([rng.random()<.5 for _ in range(n)])
    if k=='U': return np.array([rng.choice(['a','bb','ccc']) for _ in range(n)])
def layout(cols):
    blocks=[];i=0
    while i<len(cols):
        j=i+1
        while j<len(cols) and cols[j].dtype==cols[i].dtype and rng.random()<.6: j+=1
        if j-i==1: blocks.append(cols[i] if rng.random()<.6 else cols[i].reshape(-1,1))
        else: blocks.append(np.column_stack(cols[i:j]))
        i=j
    return blocks
ROWPOOL=list('pqrstuvwxyz'); COLPOOL=list('abcdef')
for trial in range(3000):
    k=rng.randint(1,4); axis=rng.choice([0,1]); union=rng.random()<.7
    same_other = rng.random()<.35; kinds_fixed=[rng.choice('ifbU') for _ in COLPOOL]
    frames=[]; models=[]
    base_other=None
    used=set()
    for t in range(k):
        n=rng.randint(1,3); m=rng.randint(1,4)
        if axis==0:
            avail=[r for r in ROWPOOL if r not in used] if rng.random()<.85 else ROWPOOL
            rl=rng.sample(avail,min(n,len(avail))); 
            if rng.random()<.85: used|=set(rl)
            cl=rng.sample(COLPOOL,m) if not (same_other and base_other) else (base_other if rng.random()<.5 else rng.sample(base_other,len(base_other)))
            base_other=base_other or cl
        else:
            avail=[c for c in COLPOOL if c not in used] if rng.random()<.85 else COLPOOL
            if not avail: break
            cl=rng.sample(avail,min(m,len(avail)))
            if rng.random()<.85: used|=set(cl)
            rl=rng.sample(ROWPOOL,n) if not (same_other and base_other) else (base_other if rng.random()<.5 else rng.sample(base_other,len(base_other)))
            base_other=base_other or rl
        cols=[rcol(kinds_fixed[COLPOOL.index(c)] if rng.random()<.7 else rng.choice('ifbU'),len(rl)) for c in cl]
        f=sf.Frame(sf.TypeBlocks.from_blocks(layout(cols)),index=rl,columns=cl,name=f'f{t}')
        frames.append(f); models.append({(r,c):cols[j][i] for j,c in enumerate(cl) for i,r in enumerate(rl)})
    if not frames: continue
    fill=rng.choice([np.nan,None,-1,'zz'])
    cat=[l for f in frames for l in (f.index if axis==0 else f.columns)]
    others=[set(f.columns if axis==0 else f.index) for f in frames]
    other_set=set.union(*others) if union else set.intersection(*others)
    dup=len(set(cat))!=len(cat)
    try: r=sf.Frame.from_concat(frames,axis=axis,union=union,fill_value=fill); err=None
    except Exception as e: r=None; err=e
    stats[(axis,union,dup,k)]+=1
    tag=(axis,'union' if union else 'inter')
    if dup:
        if err is None: rec(tag+('dup accepted',),(cat,))
        elif not isinstance(err,(sf.ErrorInitFrame,sf.ErrorInitIndex)): rec(tag+('dup wrong exc',type(err).__name__),(cat,str(err)[:80]))
        continue
    if err is not None: rec(tag+('unexpected',type(err).__name__),([ (list(f.index),list(f.columns),[str(d) for d in f._blocks._dtypes]) for f in frames],str(err)[:100])); continue
    got_cat=list(r.index if axis==0 else r.columns); got_other=list(r.columns if axis==0 else r.index)
    if got_cat!=cat: rec(tag+('cat labels',),(cat,got_cat)); continue
    if set(got_other)!=other_set or len(got_other)!=len(other_set): rec(tag+('other labels',),(others,got_other)); continue
    firsts=[list(f.columns if axis==0 else f.index) for f in frames]
    if all(x==firsts[0] for x in firsts) and got_other!=firsts[0]: rec(tag+('other order',),(firsts[0],got_other))
    bad=False
    for ri in r.index:
        for ci in r.columns:
            g=r.loc[ri,ci]
            srcs=[mdl[(ri,ci)] for mdl in models if (ri,ci) in mdl]
            if len(srcs)>1: rec(tag+('model multi',),()); bad=True; break
            if srcs:
                e=srcs[0]
                if not eqv(g,e) or (isinstance(e,(str,np.str_)) and len(g)!=len(e)) or (isinstance(e,(bool,np.bool_))!=isinstance(g,(bool,np.bool_))):
                    rec(tag+('cell',type(e).__name__,type(g).__name__),(ri,ci,e,g,[(list(f.index),list(f.columns),[str(d) for d in f._blocks._dtypes]) for f in frames])); bad=True; break
            else:
                if not (eqv(g,fill) or (g is None and fill is None)): rec(tag+('fill',),(ri,ci,g,fill)); bad=True; break
        if bad: break
print('cases',sum(stats.values()), 'dup cases', sum(v for k,v in stats.items() if k[2]))
for k,v in fails.most_common(30): print(v,k,str(ex[k])[:400])
