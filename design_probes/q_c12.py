import sys; sys.path.insert(0,'/dev/shm/sfscratch')
import warnings; warnings.simplefilter('ignore')
import numpy as np, static_frame as sf, random, collections, math
rng=random.Random(int(sys.argv[1]) if len(sys.argv)>1 else 1)
fails=collections.Counter(); ex={}; stats=collections.Counter()
def rec(k,e): fails[k]+=1; ex.setdefault(k,e)
def keycol(k,n):
    if k=='i': return [rng.randint(0,2) for _ in range(n)]
    if k=='f': return [rng.choice([0.5,1.5,float('nan'),-1.0]) for _ in range(n)]
    if k=='U': return [rng.choice(['a','b','ab']) for _ in range(n)]
    if k=='b': return [rng.random()<.5 for _ in range(n)]
def sk(v):  # sort key emulating numpy: nan last
    if isinstance(v,float) and v!=v: return (1,0)
    return (0,v)
for trial in range(4000):
    n=rng.choice([rng.randint(1,8), rng.randint(17,40)])
    nk=rng.randint(1,3)
    kinds=[rng.choice('ifUb') for _ in range(nk)]
    keys=[keycol(k,n) for k in kinds]
    payload=list(range(n))
    labels=rng.sample(range(1000),n)
    asc=rng.random()<.6
    what=rng.choice(['frame_values','series_values','sort_index','sort_index_ih','frame_axis0'])
    stats[(what,nk,asc,n>16)]+=1
    try:
        if what=='frame_values':
            f=sf.Frame.from_items([(f'k{i}',keys[i]) for i in range(nk)]+[('p',payload)],index=labels,name='nm')
            lab=[f'k{i}' for i in range(nk)] if nk>1 else 'k0'
            r=f.sort_values(lab,ascending=asc)
            order=sorted(range(n),key=lambda i: tuple(sk(keys[j][i]) for j in range(nk)))
            if not asc: order=order[::-1]
            got=list(r['p'].values); 
            if got!=[payload[i] for i in order] or list(r.index)!=[labels[i] for i in order]: rec((what,nk,asc,tuple(kinds)),(keys,got,[payload[i] for i in order]))
            if list(r.columns)!=list(f.columns) or r.name!='nm' or [str(d) for d in r._blocks._dtypes]!=[str(d) for d in f._blocks._dtypes]: rec((what,'meta'),())
        elif what=='series_values':
            s=sf.Series(keys[0],index=labels,name='nm'); r=s.sort_values(ascending=asc)
            order=sorted(range(n),key=lambda i: sk(keys[0][i]))
            if not asc: order=order[::-1]
            if list(r.index)!=[labels[i] for i in order]: rec((what,asc,kinds[0]),(keys[0],labels,list(r.index)))
        elif what=='sort_index':
            # duplicate-free labels; stability irrelevant; check order + pairing
            s=sf.Series(payload,index=labels); r=s.sort_index(ascending=asc)
            order=sorted(range(n),key=lambda i: labels[i]); 
            if not asc: order=order[::-1]
            if list(r.values)!=[payload[i] for i in order]: rec((what,asc),(labels,))
        elif what=='sort_index_ih':
            d0=[rng.choice('abc') for _ in range(n)]; 
            # need tree-valid unique tuples: build from sorted unique then shuffle groups by outer
            tuples=sorted(set(zip(d0,[rng.randint(0,5) for _ in range(n)])))
            groups=collections.OrderedDict()
            for t in tuples: groups.setdefault(t[0],[]).append(t)
            outer=list(groups); rng.shuffle(outer)
            lab=[t for o in outer for t in rng.sample(groups[o],len(groups[o]))]
            s=sf.Series(range(len(lab)),index=sf.IndexHierarchy.from_labels(lab)); r=s.sort_index(ascending=asc)
            order=sorted(range(len(lab)),key=lambda i: lab[i]); 
            if not asc: order=order[::-1]
            if list(r.values)!=order or [tuple(x) for x in r.index]!=[lab[i] for i in order]: rec((what,asc),(lab,list(r.values)))
        else:
            m=n
            f=sf.Frame.from_records([keys[i] for i in range(nk)]+[payload],index=[f'k{i}' for i in range(nk)]+['p'],columns=labels)
            lab=[f'k{i}' for i in range(nk)] if nk>1 else 'k0'
            r=f.sort_values(lab,axis=0,ascending=asc)
            order=sorted(range(n),key=lambda i: tuple(sk(keys[j][i]) for j in range(nk)))
            if not asc: order=order[::-1]
            if list(r.columns)!=[labels[i] for i in order]: rec((what,nk,asc,tuple(kinds)),(keys,list(r.columns),[labels[i] for i in order]))
    except Exception as e:
        rec((what,'EXC',type(e).__name__,tuple(kinds[:nk])),str(e)[:100])
print('cases',sum(stats.values()), 'big',sum(v for k,v in stats.items() if k[3]))
for k,v in fails.most_common(30): print(v,k,str(ex[k])[:300])
