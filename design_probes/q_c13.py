import sys; sys.path.insert(0,'/dev/shm/sfscratch')
import warnings; warnings.simplefilter('ignore')
import numpy as np, static_frame as sf, random, collections
rng=random.Random(int(sys.argv[1]) if len(sys.argv)>1 else 1)
fails=collections.Counter(); ex={}; stats=collections.Counter()
def rec(k,e): fails[k]+=1; ex.setdefault(k,e)
def keycol(k,n):
    if k=='i': return [rng.randint(0,2) for _ in range(n)]
    if k=='f': return [rng.choice([0.5,1.5,-1.0]) for _ in range(n)]
    if k=='U': return [rng.choice(['a','b','ab']) for _ in range(n)]
    if k=='b': return [rng.random()<.5 for _ in range(n)]
    if k=='O': return [rng.choice(['a',1,2.5,None]) for _ in range(n)]
    if k=='M': return [np.datetime64(rng.choice(['2020-01-01','2020-01-02'])) for _ in range(n)]
def layout(cols):
    blocks=[];i=0
    while i<len(cols):
        j=i+1
        while j<len(cols) and cols[j].dtype==cols[i].dtype and rng.random()<.6: j+=1
        if j-i==1: blocks.append(cols[i] if rng.random()<.6 else cols[i].reshape(-1,1))
        else: blocks.append(np.column_stack(cols[i:j]))
        i=j
    return blocks
for trial in range(3000):
    n=rng.randint(1,9); nk=rng.randint(1,2); nv=rng.randint(1,3)
    kinds=[rng.choice('ifUbOM') for _ in range(nk)]
    keys=[keycol(k,n) for k in kinds]
    vals=[[rng.randint(0,99) for _ in range(n)] for _ in range(nv)]
    labels=rng.sample(range(100),n)
    cols=[]
    for k,kc in zip(kinds,keys):
        if k=='O':
            a=np.empty(n,dtype=object); a[:]=kc; cols.append(a)
        else: cols.append(np.array(kc))
    cols+= [np.array(v) for v in vals]
    names=[f'k{i}' for i in range(nk)]+[f'v{i}' for i in range(nv)]
    order=list(range(len(cols))); 
    if rng.random()<.5: rng.shuffle(order)
    f=sf.Frame(sf.TypeBlocks.from_blocks(layout([cols[i] for i in order])),index=labels,columns=[names[i] for i in order],name='nm')
    axis=rng.choice([0,0,1])
    stats[(tuple(kinds),axis)]+=1
    if axis==1: f=f.T if all(k!='O' for k in kinds) or True else f
    kk=names[:nk] if nk>1 else names[0]
    try:
        groups=list(f.iter_group_items(kk, axis=axis))
    except Exception as e:
        rec(('EXC',axis,tuple(kinds),type(e).__name__),str(e)[:100]); continue
    # partition
    seen=[]; gkeys=[]
    bad=None
    for g,sub in groups:
        gkeys.append(g if not isinstance(g,np.ndarray) else tuple(g))
        members = list(sub.index) if axis==0 else list(sub.columns)
        for lab in members:
            i=labels.index(lab)
            krow=tuple(keys[j][i] for j in range(nk)) if nk>1 else keys[0][i]
            gcmp=tuple(g) if nk>1 else g
            try: same = (krow==gcmp) if nk==1 else all(a==b for a,b in zip(krow,gcmp))
            except Exception: same=False
            if not same: bad=('member key',krow,gcmp)
            # row content
            row = sub.loc[lab] if axis==0 else sub[lab]
            exp = {names[c]: cols[c][i] for c in range(len(cols))}
            for nm in exp:
                gv=row[nm]
                if not (gv==exp[nm] or (gv!=gv and exp[nm]!=exp[nm])): bad=('cell',lab,nm)
        seen+=members
        pos=[labels.index(l) for l in members]
        if pos!=sorted(pos): bad=('order within group',members)
    if sorted(seen)!=sorted(labels): bad=bad or ('partition',seen,labels)
    try:
        if len(set(gkeys))!=len(gkeys): bad=bad or ('dup group keys',gkeys)
    except TypeError: bad=bad or ('unhashable key',)
    if bad: rec(('bad',axis,tuple(kinds),bad[0]),(keys,bad,[ (g,list(s.index if axis==0 else s.columns)) for g,s in groups]))
    # apply
    try:
        r=f.iter_group(kk,axis=axis).apply(lambda x: x.shape[axis])
        if len(r)!=len(groups): rec(('apply len',),())
    except Exception as e:
        rec(('applyEXC',axis,tuple(kinds),type(e).__name__),str(e)[:80])
print('cases',sum(stats.values()))
for k,v in fails.most_common(30): print(v,k,str(ex[k])[:350])
