import sys; sys.path.insert(0,'/dev/shm/sfscratch')
import warnings; warnings.simplefilter('ignore')
import numpy as np, static_frame as sf
exec(open('q_c13.py').read().split("for trial in range(3000):")[0])
import traceback
found=0
for trial in range(3000):
    n=rng.randint(1,9); nk=rng.randint(1,2); nv=rng.randint(1,3)
    kinds=[rng.choice('ifUbOM') for _ in range(nk)]
    keys=[keycol(k,n) for k in kinds]
    vals=[[rng.randint(0,99) for _ in range(n)] for _ in range(nv)]
    labels=rng.sample(range(100),n)
    cols=[]
    for k,kc in zip(kinds,keys):
        if k=='O':
            a=np.empty(n,dtype=object); a[:]=kc; cols.append(a)
        else: cols.append(np.array(kc))
    cols+= [np.array(v) for v in vals]
    names=[f'k{i}' for i in range(nk)]+[f'v{i}' for i in range(nv)]
    order=list(range(len(cols)))
    if rng.random()<.5: rng.shuffle(order)
    f=sf.Frame(sf.TypeBlocks.from_blocks(layout([cols[i] for i in order])),index=labels,columns=[names[i] for i in order],name='nm')
    axis=rng.choice([0,0,1])
    if axis==1: f=f.T
    kk=names[:nk] if nk>1 else names[0]
    try:
        for g,sub in f.iter_group_items(kk,axis=axis):
            if sub._blocks.shape!=(len(sub.index),len(sub.columns)) or sub._blocks.shape[1]!=len(sub._blocks._index):
                found+=1
                if found<3:
                    print('INCOHERENT', axis, kinds, 'frame shape',f.shape,'blocks',[b.shape for b in f._blocks._blocks],'sub blocks shape',sub._blocks.shape,'index',len(sub.index),'cols',len(sub.columns), [b.shape for b in sub._blocks._blocks], 'key',kk, 'g',g)
                    print(f)
            _ = [sub.loc[l] for l in sub.index]
    except Exception as e:
        if found<3 and 'incorrect size' in str(e):
            found+=1; print('EXC', axis, kinds, f.shape,[b.shape for b in f._blocks._blocks], kk); print(f); traceback.print_exc(limit=-3)
print('found',found)
