import sys; sys.path.insert(0,'/dev/shm/sfscratch')
import warnings; warnings.simplefilter('ignore')
import numpy as np, static_frame as sf, random, collections
rng=random.Random(int(sys.argv[1]) if len(sys.argv)>1 else 1)
def rcol(k,n):
    if k=='i1': return np.array([rng.randint(-100,100) for _ in range(n)],dtype=np.int8)
    if k=='i8': return np.array([rng.randint(-5,5) for _ in range(n)],dtype=np.int64)
    if k=='f8': return np.array([rng.choice([0.5,1.5,np.nan,-2.0,3.0]) for _ in range(n)])
    if k=='f4': return np.array([rng.choice([0.5,1.5,np.nan,-2.0,3.0]) for _ in range(n)],dtype=np.float32)
    if k=='b': return np.array([rng.random()<.5 for _ in range(n)],dtype=bool)
    if k=='u1': return np.array([rng.randint(0,5) for _ in range(n)],dtype=np.uint8)
def layout(cols):
    blocks=[];i=0
    while i<len(cols):
        j=i+1
        while j<len(cols) and cols[j].dtype==cols[i].dtype and rng.random()<.6: j+=1
        if j-i==1: blocks.append(cols[i] if rng.random()<.6 else cols[i].reshape(-1,1))
        else: blocks.append(np.column_stack(cols[i:j]))
        i=j
    return blocks
NP={'sum':(np.sum,np.nansum),'prod':(np.prod,np.nanprod),'min':(np.min,np.nanmin),'max':(np.max,np.nanmax),'mean':(np.mean,np.nanmean),'median':(np.median,np.nanmedian),'std':(np.std,np.nanstd),'var':(np.var,np.nanvar)}
def close(a,b,tol):
    if isinstance(a,(bool,np.bool_)) and isinstance(b,(bool,np.bool_)): return bool(a)==bool(b)
    try:
        a=float(a); b=float(b)
        if a!=a and b!=b: return True
        if a==b: return True
        return abs(a-b)<=tol*max(1.,abs(a),abs(b))
    except Exception: return a==b
fails=collections.Counter(); ex={}; stats=collections.Counter(); disc=collections.Counter()
def rec(k,e): fails[k]+=1; ex.setdefault(k,e)
for trial in range(1500):
    n=rng.randint(1,4); m=rng.randint(1,5)
    mode=rng.choice(['homog','numeric_mix','with_bool','small'])
    pool={'homog':[rng.choice(['i8','f8'])], 'numeric_mix':['i8','f8'], 'with_bool':['i8','f8','b'], 'small':['i1','u1','f4','i8','f8']}[mode]
    cols=[rcol(rng.choice(pool),n) for _ in range(m)]
    f=sf.Frame(sf.TypeBlocks.from_blocks(layout(cols)),index=list('pqrs')[:n],columns=list('abcde')[:m])
    rowdt=f._blocks._row_dtype
    for fn in NP:
        for axis in (0,1):
            for skipna in (True,False):
                # oracle: per column/row numpy on own dtype / row dtype
                exp=[]; defined=True
                try:
                    if axis==0: arrs=cols
                    else: arrs=[np.array([c[i] for c in cols],dtype=rowdt) for i in range(n)]
                    for a in arrs:
                        with np.errstate(all='ignore'):
                            v=NP[fn][1 if skipna else 0](a)
                        # series agreement
                        sv=getattr(sf.Series(a),fn)(skipna=skipna)
                        if not close(v,sv,1e-6): defined=False
                        exp.append(v)
                except Exception as e:
                    defined=False
                if not defined: disc[(mode,fn,axis)]+=1; continue
                stats[(mode,fn,axis,skipna)]+=1
                try: got=getattr(f,fn)(axis=axis,skipna=skipna)
                except Exception as e:
                    rec((mode,fn,axis,skipna,'raises',type(e).__name__,str(rowdt),'1row' if n==1 else ''),([str(c.dtype) for c in cols],[c.tolist() for c in cols],[b.shape for b in f._blocks._blocks])); continue
                gv=got.values
                tol=1e-6 if any(c.dtype.itemsize<8 and c.dtype.kind=='f' for c in cols) or 'f4' in pool else 1e-12
                for g,e in zip(gv,exp):
                    if isinstance(g,np.ndarray): rec((mode,fn,axis,skipna,'arrayelem',str(rowdt)),([str(c.dtype) for c in cols],[c.tolist() for c in cols])); break
                    if not close(g,e,tol): rec((mode,fn,axis,skipna,'value',str(rowdt)),([str(c.dtype) for c in cols],[c.tolist() for c in cols],[b.shape for b in f._blocks._blocks],g,e)); break
print('checked',sum(stats.values()),'discarded',sum(disc.values()))
agg=collections.Counter()
for k,v in fails.items(): agg[(k[0],k[1],k[2],k[4],k[5] if len(k)>5 else '')]+=v
for k,v in sorted(agg.items(), key=lambda x:-x[1])[:40]: print(v,k)
print('--- examples')
seen=set()
for k,v in fails.most_common(60):
    kk=(k[0],k[1],k[2],k[4])
    if kk in seen: continue
    seen.add(kk); print(v,k,str(ex[k])[:260])
