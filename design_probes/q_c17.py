import sys; sys.path.insert(0,'/dev/shm/sfscratch')
import warnings; warnings.simplefilter('ignore')
import numpy as np, static_frame as sf, os, tempfile, shutil, collections
import hypothesis
from hypothesis import settings, strategies as st, seed, HealthCheck
from hypothesis.stateful import RuleBasedStateMachine, rule, invariant, initialize, precondition, run_state_machine_as_test
ROOT=tempfile.mkdtemp(dir='/dev/shm')
stats=collections.Counter()
class BusMachine(RuleBasedStateMachine):
    def __init__(self):
        super().__init__(); self.dir=tempfile.mkdtemp(dir=ROOT); self.bus=None
    @initialize(n=st.integers(1,5), mp=st.one_of(st.none(), st.integers(1,5)), kind=st.sampled_from(['zip_pickle','zip_csv','sqlite']))
    def setup(self,n,mp,kind):
        self.labels=[f'f{i}' for i in range(n)]
        self.frames={l: sf.Frame.from_dict(dict(a=(i,i+1),b=(float(i),2.5)),index=('x','y'),name=l) for i,l in enumerate(self.labels)}
        ext='.sqlite' if kind=='sqlite' else '.zip'
        self.fp=os.path.join(self.dir,'s'+ext)
        cfg=sf.StoreConfig(index_depth=1)
        b=sf.Bus.from_frames(self.frames.values())
        getattr(b,'to_'+kind)(self.fp, **({} if kind=='zip_pickle' else {'config':cfg}))
        self.mp=min(mp,n) if mp else None
        self.bus=getattr(sf.Bus,'from_'+kind)(self.fp, config=cfg, max_persist=self.mp)
        self.lru=[]   # model: least recent first
        self.loaded=set()
        self.stale=False
    def _touch_model(self, labels):
        for l in labels:
            if l in self.lru: self.lru.remove(l)
            self.lru.append(l)
            self.loaded.add(l)
            if self.mp is not None:
                while len(self.loaded)>self.mp:
                    ev=next(x for x in self.lru if x in self.loaded)
                    self.loaded.discard(ev); self.lru.remove(ev)
    def _expect_fault(self, labels):
        return self.stale and any(l not in self.loaded for l in labels)
    def _do(self, labels, fn):
        fault=self._expect_fault(labels)
        try: r=fn()
        except sf.core.exception.StoreFileMutation:
            assert fault, 'unexpected StoreFileMutation'
            stats['fault raised']+=1; return None
        assert not fault, f'stale store served without error: {labels} loaded={self.loaded}'
        self._touch_model(labels)
        return r
    @rule(i=st.integers(0,4))
    def get_one(self,i):
        l=self.labels[i%len(self.labels)]
        r=self._do([l], lambda: self.bus[l])
        if r is not None: assert r.equals(self.frames[l]) and self.frames[l].equals(r); stats['single']+=1
    @rule(idx=st.lists(st.integers(0,4),min_size=1,max_size=4,unique=True))
    def get_list(self,idx):
        ls=list(dict.fromkeys(self.labels[i%len(self.labels)] for i in idx))
        r=self._do(ls, lambda: self.bus[ls])
        if r is not None:
            assert list(r.index)==ls; stats['list']+=1
    @rule(a=st.integers(0,4),b=st.integers(0,5))
    def get_slice(self,a,b):
        ls=self.labels[a:b]
        if not ls: return
        r=self._do(ls, lambda: self.bus.iloc[a:b])
        if r is not None: assert list(r.index)==ls; stats['slice']+=1
    @rule()
    def items(self):
        # sequential single accesses when max_persist set; bulk otherwise
        if self.stale and any(l not in self.loaded for l in self.labels):
            return
        got=list(self.bus.items())
        for l in self.labels: self._touch_model([l])
        assert [k for k,_ in got]==self.labels
        for k,v in got: assert v.equals(self.frames[k])
        stats['items']+=1
    @rule()
    def status(self):
        before=self.bus._loaded.copy()
        _=self.bus.status; _=self.bus.shapes; _=self.bus.nbytes
        assert (self.bus._loaded==before).all(); stats['status']+=1
    @rule(how=st.sampled_from(['touch','delete']))
    def fault(self,how):
        if self.stale: return
        if how=='touch':
            stt=os.stat(self.fp); os.utime(self.fp, ns=(stt.st_atime_ns, stt.st_mtime_ns+50_000_000))
        else: os.remove(self.fp)
        self.stale=True; stats['fault '+how]+=1
    @invariant()
    def inv(self):
        if self.bus is None: return
        actual={l for l,v in zip(self.bus.index, self.bus._series.values) if v is not sf.core.bus.FrameDeferred}
        assert actual==self.loaded, f'loaded set differs: actual={sorted(actual)} model={sorted(self.loaded)} lru={self.lru}'
        if self.mp is not None: assert len(actual)<=self.mp
    def teardown(self):
        shutil.rmtree(self.dir, ignore_errors=True)
try:
    run_state_machine_as_test(seed(int(sys.argv[1]) if len(sys.argv)>1 else 1)(BusMachine), settings=settings(max_examples=150, stateful_step_count=20, database=None, deadline=None, suppress_health_check=list(HealthCheck)))
    print('PASS')
except Exception as e:
    import traceback; traceback.print_exc(limit=3)
finally:
    shutil.rmtree(ROOT, ignore_errors=True)
print(dict(stats))
