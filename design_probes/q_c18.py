import sys; sys.path.insert(0,'/dev/shm/sfscratch'); sys.path.insert(0,'/tmp/w')
import warnings; warnings.simplefilter('ignore')
import numpy as np, static_frame as sf, random, collections, time, itertools
import c18funcs
rng=random.Random(1)
stats=collections.Counter(); fails=collections.Counter(); orders=set()
def run(use_threads, n, perm, workers, chunk):
    s=sf.Series(range(n), index=[f'l{i}' for i in range(n)])
    c18funcs.DELAYS.clear(); c18funcs.DELAYS.update({i: 0.004*perm[i] for i in range(n)})
    f=c18funcs.make(perm)
    seq=s.iter_element().apply(c18funcs.plain)
    t0=time.time()
    par=s.iter_element().apply_pool(f, max_workers=workers, chunksize=chunk, use_threads=use_threads)
    # par values are (result, finish_ns); compare results, measure order
    res=sf.Series([v[0] for v in par.values], index=par.index)
    fin=[v[1] for v in par.values]
    achieved=tuple(np.argsort(fin).tolist())
    orders.add((use_threads,achieved))
    stats[('nonidentity', achieved!=tuple(range(n)))]+=1
    if not res.equals(seq) or list(res.index)!=list(seq.index): fails[('mismatch',use_threads)]+=1
t=time.time()
for trial in range(40):
    n=rng.randint(2,6); perm=rng.sample(range(n),n)
    run(True,n,perm,rng.randint(1,6),rng.randint(1,n+1))
print('threads', dict(stats), dict(fails), 'distinct orders', len(orders), 'sec', round(time.time()-t,1))
t=time.time(); stats.clear()
for trial in range(6):
    n=rng.randint(2,5); perm=rng.sample(range(n),n)
    run(False,n,perm,rng.randint(2,4),1)
print('procs', dict(stats), dict(fails), 'distinct orders', len(orders), 'sec', round(time.time()-t,1))
# items form + failing task
s=sf.Series(range(5),index=list('abcde'))
print(s.iter_element_items().apply_pool(c18funcs.items_fn, max_workers=3, use_threads=True).to_pairs())
try: s.iter_element().apply_pool(c18funcs.boom, max_workers=3, use_threads=True); print('NO RAISE')
except ValueError as e: print('raised ValueError ok')
