import sys; sys.path.insert(0,'/dev/shm/sfscratch')
import warnings; warnings.simplefilter('ignore')
import numpy as np, static_frame as sf, random, collections
rng=random.Random(int(sys.argv[1]) if len(sys.argv)>1 else 1)
fails=collections.Counter(); ex={}; stats=collections.Counter()
def rec(k,e): fails[k]+=1; ex.setdefault(k,e)
def obs(x):
    if isinstance(x,sf.Frame): return ('F',[tuple(i) if x.index.depth>1 else i for i in x.index],[tuple(c) if x.columns.depth>1 else c for c in x.columns],[[repr(v) for v in col.tolist()] for col in x._blocks.axis_values(0)], None)
    if isinstance(x,sf.Series): return ('S',[tuple(i) if x.index.depth>1 else i for i in x.index],[repr(v) for v in x.values.tolist()], x.name if not isinstance(x.name,np.ndarray) else tuple(x.name))
    return ('E',repr(x))
def rkey(n):
    k=rng.choice(['int','slice','slist','bool'])
    if k=='int': return rng.randrange(n), k
    if k=='slice': a,b=sorted(rng.sample(range(n+1),2)); return slice(a,b), k
    if k=='negslice': a,b=sorted(rng.sample(range(n),2)) if n>1 else (0,0); return slice(b,a,-rng.choice([1,2])) , k
    if k=='slist': return sorted(rng.sample(range(n),rng.randint(1,n))), k
    return np.array([rng.random()<.5 for _ in range(n)]), k
POOL=list('abcdefghijklmnopqrstuvwxyz')
for trial in range(1500):
    k=rng.randint(1,4); axis=rng.choice([0,1]); retain=rng.random()<.5
    m=rng.randint(1,3); other=rng.sample(list('WXYZ'),m)
    pool=rng.sample(POOL,len(POOL)); frames=[]
    kinds=[rng.choice('if') for _ in range(m)]
    for t in range(k):
        n=rng.randint(1,3); labs=[pool.pop() for _ in range(n)] if not retain or rng.random()<.5 else rng.sample(list('abc'),n)
        if not retain: pass
        data=[[rng.randint(0,9) if kd=='i' else rng.choice([.5,1.5]) for _ in range(n)] for kd in kinds]
        if axis==0: f=sf.Frame.from_items(zip(other,data),index=labs,name=f'F{t}')
        else: f=sf.Frame.from_items(zip(other,data),index=labs,name=f'F{t}').T.rename(f'F{t}')
        frames.append(f)
    try:
        q=sf.Quilt.from_frames(frames,axis=axis,retain_labels=retain)
        ref=(sf.Frame.from_concat_items(((f.name,f) for f in frames),axis=axis) if retain else sf.Frame.from_concat(frames,axis=axis))
        shape=q.shape
    except Exception as e:
        rec(('build',axis,retain,type(e).__name__),str(e)[:100]); continue
    N=ref.shape[axis]; M=ref.shape[1-axis]
    for _ in range(4):
        sk,skk=rkey(N); ok,okk=rkey(M) if rng.random()<.5 else (slice(None),'all')
        key=(sk,ok) if axis==0 else (ok,sk)
        stats[(axis,retain,skk,okk)]+=1
        try: e=ref.iloc[key]; eerr=None
        except Exception as ee: e=None; eerr=type(ee).__name__
        try: g=q.iloc[key]; gerr=None
        except Exception as ge: g=None; gerr=type(ge).__name__
        tag=('iloc',axis,retain,skk,okk)
        if eerr or gerr:
            if eerr!=gerr: rec(tag+('err',eerr,gerr),([f.shape for f in frames],key))
            continue
        if obs(g)!=obs(e): rec(tag+('mismatch',),([ (list(f.index),list(f.columns)) for f in frames],repr(key)[:100],obs(g),obs(e)))
    # values / to_frame / iter_array
    try:
        if obs(q.to_frame())!=obs(ref): rec(('to_frame',axis,retain),())
        a=1 if axis==0 else 0
        if [x.tolist() for x in q.iter_array(axis=a)]!=[x.tolist() for x in ref.iter_array(axis=a)]: rec(('iter_array',axis,retain),())
        if [(l,obs(s)) for l,s in q.iter_series_items(axis=a)]!=[(l,obs(s)) for l,s in ref.iter_series_items(axis=a)]: rec(('iter_series_items',axis,retain),())
    except Exception as e: rec(('iterEXC',axis,retain,type(e).__name__),str(e)[:100])
print('cases',sum(stats.values()))
for k,v in fails.most_common(30): print(v,k,str(ex[k])[:420])
