import sys; sys.path.insert(0,'/dev/shm/sfscratch')
import warnings; warnings.simplefilter('ignore')
import numpy as np, static_frame as sf, random, collections, itertools
rng=random.Random(int(sys.argv[1]) if len(sys.argv)>1 else 1)
fails=collections.Counter(); ex={}; stats=collections.Counter()
def rec(k,e): fails[k]+=1; ex.setdefault(k,e)
def isn(x): 
    try: return x is None or x!=x
    except Exception: return False
def rowkey(vals): return tuple('NA' if isn(v) else (v.item() if hasattr(v,'item') else v) for v in vals)
for trial in range(2500):
    nl=rng.randint(1,4); nr=rng.randint(1,4)
    keypool=rng.choice([['a','b','c'],[1,2,3],['a','b'],[1]])
    lk=[rng.choice(keypool) for _ in range(nl)]; rk=[rng.choice(keypool+['zz'] if isinstance(keypool[0],str) else keypool+[9]) for _ in range(nr)]
    lv=[rng.randint(0,99) for _ in range(nl)]; rv=[rng.randint(100,199) for _ in range(nr)]
    disjoint=rng.random()<.5
    li=[f'l{i}' for i in range(nl)] if disjoint else list(range(nl)); ri=[f'r{i}' for i in range(nr)] if disjoint else list(range(nr))
    L=sf.Frame.from_dict(dict(k=lk,lv=lv),index=li); R=sf.Frame.from_dict(dict(k=rk,rv=rv),index=ri)
    jt=rng.choice(['inner','left','right','outer']); comp=rng.random()<.6
    matches=[(i,j) for i in range(nl) for j in range(nr) if lk[i]==rk[j]]
    many = comp or any(sum(1 for a,b in matches if a==i)>1 for i in range(nl)) or any(sum(1 for a,b in matches if b==j)>1 for j in range(nr))
    exp=[(lk[i],lv[i],rk[j],rv[j]) for i,j in matches]
    ml={i for i,_ in matches}; mr={j for _,j in matches}
    if jt in('left','outer'): exp+=[(lk[i],lv[i],'NA','NA') for i in range(nl) if i not in ml]
    if jt in('right','outer'): exp+=[('NA','NA',rk[j],rv[j]) for j in range(nr) if j not in mr]
    stats[(jt,comp,disjoint,many)]+=1
    try:
        g=getattr(L,'join_'+jt)(R,left_columns='k',right_columns='k',left_template='L{}',right_template='R{}',composite_index=comp)
        gerr=None
    except Exception as e: g=None; gerr=e
    tag=(jt,'comp' if comp else 'nocomp','disjoint' if disjoint else 'overlap','many' if many else 'one')
    if gerr is not None:
        if (not comp) and many and isinstance(gerr,RuntimeError): stats['required composite']+=1; continue
        rec(tag+('raise',type(gerr).__name__),(lk,rk,str(gerr)[:80])); continue
    try:
        got=[rowkey(r) for r in g[['Lk','Llv','Rk','Rrv']].iter_array(axis=1)]
    except Exception as e: rec(tag+('cols',type(e).__name__),(list(g.columns),)); continue
    if collections.Counter(got)!=collections.Counter(rowkey(e) for e in exp):
        rec(tag+('rows',),(lk,lv,rk,rv,li,ri,sorted(map(str,got)),sorted(map(str,[rowkey(e) for e in exp]))))
print('cases',sum(v for k,v in stats.items() if isinstance(k,tuple)), stats['required composite'])
for k,v in fails.most_common(25): print(v,k,str(ex[k])[:420])
# pivot
fails.clear(); ex.clear()
for trial in range(1500):
    n=rng.randint(1,7)
    I=[rng.choice('ab') for _ in range(n)]; C=[rng.choice('xyz') for _ in range(n)]; V=[rng.randint(1,9) for _ in range(n)]; W=[rng.choice([.5,1.5,2.5]) for _ in range(n)]
    F=sf.Frame.from_dict(dict(i=I,c=C,v=V,w=W))
    fn_name=rng.choice(['sum','max','min']); fn={'sum':np.nansum,'max':np.max,'min':np.min}[fn_name]
    two=rng.random()<.3; nocols=rng.random()<.25
    data=['v','w'] if two else ['v']
    try:
        P=F.pivot('i', () if nocols else 'c', data if two else 'v', func=fn, fill_value=-1)
    except Exception as e: rec(('pivot raise',nocols,two,type(e).__name__),(I,C,V,str(e)[:80])); continue
    groups=collections.defaultdict(list)
    for a,b,v,w in zip(I,C,V,W): groups[(a,None if nocols else b)].append((v,w))
    rows=sorted(set(I)); colsv=sorted(set(C)) if not nocols else [None]
    if list(P.index)!=rows: rec(('pivot index',),(I,list(P.index))); continue
    bad=False
    for a in rows:
        for b in colsv:
            for di,d in enumerate(data):
                if nocols: col=d
                elif two: col=(b,d)
                else: col=b
                try: g=P.loc[a,col]
                except Exception as e: rec(('pivot col lookup',nocols,two,type(e).__name__),(list(P.columns),col)); bad=True; break
                vals=[x[di] for x in groups.get((a,b),[])]
                e=fn(np.array(vals)) if vals else -1
                if not (g==e): rec(('pivot cell',fn_name,nocols,two),(I,C,V,W,a,col,g,e)); bad=True; break
            if bad: break
        if bad: break
print('pivot'); 
for k,v in fails.most_common(10): print(v,k,str(ex[k])[:300])
