exec(open('/tmp/w/pre.py').read())
import time, os, hypothesis
from hypothesis import given, settings, strategies as st, seed, HealthCheck, Phase
from hypothesis.stateful import RuleBasedStateMachine, rule, invariant, run_state_machine_as_test
print(hypothesis.__version__)
col = st.one_of(
    st.lists(st.integers(-5,5), min_size=3,max_size=3).map(lambda v: np.array(v,dtype=np.int64)),
    st.lists(st.sampled_from([0.5,np.nan,-1.5]), min_size=3,max_size=3).map(lambda v: np.array(v)),
    st.lists(st.sampled_from(['a','bb','']), min_size=3,max_size=3).map(lambda v: np.array(v)),
)
n=[0]
@seed(int(os.environ.get('VERIF_SEED','1')))
@settings(max_examples=2000, database=None, deadline=None, suppress_health_check=list(HealthCheck))
@given(st.lists(col,min_size=1,max_size=5), st.data())
def test(cols, data):
    n[0]+=1
    f = sf.Frame(sf.TypeBlocks.from_blocks(cols))
    k = data.draw(st.integers(0,len(cols)-1))
    assert f.iloc[:,k].values.tolist()==cols[k].tolist() or True
t=time.time(); test(); print('examples',n[0],'sec',round(time.time()-t,2))
class M(RuleBasedStateMachine):
    def __init__(self): super().__init__(); self.i=sf.IndexGO(()); self.m=[]
    @rule(v=st.integers(0,20))
    def app(self,v):
        try: self.i.append(v); self.m.append(v)
        except KeyError: assert v in self.m
    @invariant()
    def inv(self): assert list(self.i)==self.m
t=time.time()
run_state_machine_as_test(seed(3)(M), settings=settings(max_examples=200, stateful_step_count=30, database=None, deadline=None))
print('stateful sec', round(time.time()-t,2))
