#!/venv/bin/python
"""Automatic sensitivity measurement: AST-level one-site mutants of the functions a property is anchored in.

  tools/automutate.py C05 C14 --per 30 --seed 1 --jobs 3 [--tests]

For each property: the anchored line ranges (properties.jsonl, given for the pinned commit) are mapped to the
functions that contain them, the same functions are located in the *current* tree, and one-site mutants are
generated there (comparison / Boolean operator swaps, negated conditions, constant +-1, True/False, +/-,
continue/break, all/any, deleted state-changing statements).  A sample of them is applied, one at a time, to a
scratch copy of static_frame under /dev/shm; the property's quick check runs against the copy (VERIF_REPO).
exit 1 = killed, exit 0 = survived, anything else = error (e.g. the mutant breaks the harness's own builders).
With --tests the survivors are also run against the repository's unit tests that import the mutated module's
area (static_frame/test/unit) to tell "survived the checks AND the tests" (a gap worth reading) from "the
tests would have caught it" (not a realistic seeded change).  Nothing is written into /repo or /verif except the
report sensitivity/auto_<PID>.json.
"""
import ast
import json
import os
import random
import re
import shutil
import subprocess
import sys
import tempfile
import time
from concurrent.futures import ThreadPoolExecutor

VERIF = os.path.dirname(os.path.dirname(os.path.abspath(__file__)))
REPO = '/repo'
CORE = 'static_frame/core/'
BASE_COMMIT = '9b03c97'


def anchored_ranges(pid):
    for line in open(os.path.join(VERIF, 'properties.jsonl')):
        d = json.loads(line)
        if d['id'] != pid:
            continue
        out = {}
        for m in d['anchors']['mechanism']:
            cur = None
            for part in re.split(r'[;,]', m['where']):
                part = part.strip()
                mm = re.match(r'(?:([\w_]+\.py):)?(\d+)(?:-(\d+))?$', part)
                if not mm:
                    continue
                if mm.group(1):
                    cur = mm.group(1)
                if cur is None:
                    continue
                a = int(mm.group(2))
                b = int(mm.group(3) or a)
                out.setdefault(cur, []).append((a, b))
        return out
    raise SystemExit('unknown property ' + pid)


def functions_of(src):
    """qualified name -> (lineno, end_lineno, node)"""
    tree = ast.parse(src)
    out = {}

    def walk(node, prefix):
        for ch in ast.iter_child_nodes(node):
            if isinstance(ch, (ast.FunctionDef, ast.AsyncFunctionDef)):
                q = prefix + ch.name
                out[q] = (ch.lineno, ch.end_lineno, ch)
                walk(ch, q + '.')
            elif isinstance(ch, ast.ClassDef):
                walk(ch, prefix + ch.name + '.')
            else:
                walk(ch, prefix)
    walk(tree, '')
    return out


def anchored_functions(pid):
    """{file: set(qualified function names)} from the base commit's line numbers."""
    res = {}
    for fn, ranges in anchored_ranges(pid).items():
        try:
            src = subprocess.run(['git', '-C', REPO, 'show', '%s:%s%s' % (BASE_COMMIT, CORE, fn)], stdout=subprocess.PIPE, check=True, text=True).stdout
        except subprocess.CalledProcessError:
            continue
        funcs = functions_of(src)
        names = set()
        for q, (a, b, _) in funcs.items():
            if any(not (b < lo or a > hi) for lo, hi in ranges):
                names.add(q)
        # keep innermost-or-outermost alike: nested helper functions are part of their parent anyway
        res[fn] = names
    return res


CMP_SWAP = {ast.Eq: '!=', ast.NotEq: '==', ast.Lt: '<=', ast.LtE: '<', ast.Gt: '>=', ast.GtE: '>', ast.Is: 'is not', ast.IsNot: 'is', ast.In: 'not in', ast.NotIn: 'in'}
CMP_TXT = {ast.Eq: '==', ast.NotEq: '!=', ast.Lt: '<', ast.LtE: '<=', ast.Gt: '>', ast.GtE: '>=', ast.Is: 'is', ast.IsNot: 'is not', ast.In: 'in', ast.NotIn: 'not in'}


class Src:
    def __init__(self, text):
        self.text = text
        self.lines = text.splitlines(keepends=True)
        self.starts = [0]
        for l in self.lines:
            self.starts.append(self.starts[-1] + len(l.encode('utf8')))
        self.bytes = text.encode('utf8')

    def off(self, lineno, col):
        return self.starts[lineno - 1] + col

    def seg(self, node):
        return self.bytes[self.off(node.lineno, node.col_offset):self.off(node.end_lineno, node.end_col_offset)].decode('utf8')


def mutants_in(src_text, func_nodes):
    """Yield (start_byte, end_byte, replacement, description, lineno)."""
    S = Src(src_text)
    out = []

    def between(a_end, b_start, old, new, desc, lineno):
        seg = S.bytes[a_end:b_start].decode('utf8')
        m = re.search(r'(?<![=!<>])' + re.escape(old) + r'(?![=])', seg) if old in ('<', '>', '==', '!=', '<=', '>=') else re.search(r'\b' + re.escape(old).replace(r'\ ', r'\s+') + r'\b', seg)
        if not m:
            return
        out.append((a_end + len(seg[:m.start()].encode('utf8')), a_end + len(seg[:m.end()].encode('utf8')), new, desc, lineno))

    for fnode in func_nodes:
        for node in ast.walk(fnode):
            ln = getattr(node, 'lineno', None)
            if isinstance(node, ast.Compare) and len(node.ops) == 1:
                op = type(node.ops[0])
                if op in CMP_SWAP:
                    a_end = S.off(node.left.end_lineno, node.left.end_col_offset)
                    b_start = S.off(node.comparators[0].lineno, node.comparators[0].col_offset)
                    between(a_end, b_start, CMP_TXT[op], CMP_SWAP[op], 'compare %s -> %s' % (CMP_TXT[op], CMP_SWAP[op]), ln)
            elif isinstance(node, ast.BoolOp) and len(node.values) >= 2:
                old, new = ('and', 'or') if isinstance(node.op, ast.And) else ('or', 'and')
                a_end = S.off(node.values[0].end_lineno, node.values[0].end_col_offset)
                b_start = S.off(node.values[1].lineno, node.values[1].col_offset)
                between(a_end, b_start, old, new, 'bool %s -> %s' % (old, new), ln)
            elif isinstance(node, ast.UnaryOp) and isinstance(node.op, ast.Not):
                out.append((S.off(node.lineno, node.col_offset), S.off(node.end_lineno, node.end_col_offset), '(' + S.seg(node.operand) + ')', 'drop not', ln))
            elif isinstance(node, ast.Constant) and isinstance(node.value, bool):
                out.append((S.off(node.lineno, node.col_offset), S.off(node.end_lineno, node.end_col_offset), str(not node.value), 'const %s -> %s' % (node.value, not node.value), ln))
            elif isinstance(node, ast.Constant) and type(node.value) is int and -2 <= node.value <= 3:
                new = {0: 1, 1: 0, 2: 1, 3: 2, -1: 0, -2: -1}[node.value]
                out.append((S.off(node.lineno, node.col_offset), S.off(node.end_lineno, node.end_col_offset), str(new), 'const %d -> %d' % (node.value, new), ln))
            elif isinstance(node, ast.BinOp) and isinstance(node.op, (ast.Add, ast.Sub)) and not isinstance(node.left, ast.Constant) or \
                    (isinstance(node, ast.BinOp) and isinstance(node.op, (ast.Add, ast.Sub)) and type(getattr(node.left, 'value', 0)) is int):
                old, new = ('+', '-') if isinstance(node.op, ast.Add) else ('-', '+')
                a_end = S.off(node.left.end_lineno, node.left.end_col_offset)
                b_start = S.off(node.right.lineno, node.right.col_offset)
                seg = S.bytes[a_end:b_start].decode('utf8')
                k = seg.find(old)
                if k >= 0 and seg.count(old) == 1:
                    out.append((a_end + k, a_end + k + 1, new, 'arith %s -> %s' % (old, new), ln))
            elif isinstance(node, ast.Continue):
                out.append((S.off(node.lineno, node.col_offset), S.off(node.end_lineno, node.end_col_offset), 'break', 'continue -> break', ln))
            elif isinstance(node, ast.Break):
                out.append((S.off(node.lineno, node.col_offset), S.off(node.end_lineno, node.end_col_offset), 'continue', 'break -> continue', ln))
            elif isinstance(node, ast.Call) and isinstance(node.func, ast.Attribute) and node.func.attr in ('all', 'any') and not node.args:
                new = 'any' if node.func.attr == 'all' else 'all'
                e = S.off(node.func.end_lineno, node.func.end_col_offset)
                out.append((e - len(node.func.attr), e, new, '.%s() -> .%s()' % (node.func.attr, new), ln))
            elif isinstance(node, (ast.If, ast.While)) and not isinstance(node.test, ast.Constant):
                t = node.test
                out.append((S.off(t.lineno, t.col_offset), S.off(t.end_lineno, t.end_col_offset), 'not (' + S.seg(t) + ')', 'negate condition', ln))
            elif isinstance(node, ast.Assign) and len(node.targets) == 1 and isinstance(node.targets[0], (ast.Attribute, ast.Subscript)) and node.lineno == node.end_lineno:
                out.append((S.off(node.lineno, node.col_offset), S.off(node.end_lineno, node.end_col_offset), 'pass', 'delete: ' + S.seg(node)[:60], ln))
            elif isinstance(node, ast.AugAssign) and node.lineno == node.end_lineno:
                out.append((S.off(node.lineno, node.col_offset), S.off(node.end_lineno, node.end_col_offset), 'pass', 'delete: ' + S.seg(node)[:60], ln))
            elif isinstance(node, ast.Expr) and isinstance(node.value, ast.Call) and node.lineno == node.end_lineno and not isinstance(node.value.func, ast.Name):
                out.append((S.off(node.lineno, node.col_offset), S.off(node.end_lineno, node.end_col_offset), 'pass', 'delete: ' + S.seg(node)[:60], ln))
    # dedupe by span
    seen = set()
    res = []
    for m in out:
        if (m[0], m[1], m[2]) in seen or m[1] <= m[0]:
            continue
        seen.add((m[0], m[1], m[2]))
        res.append(m)
    return res


def candidates(pid):
    cands = []
    for fn, names in anchored_functions(pid).items():
        path = os.path.join(REPO, CORE, fn)
        if not os.path.exists(path) or not names:
            continue
        text = open(path).read()
        funcs = functions_of(text)
        nodes = [funcs[q][2] for q in sorted(names) if q in funcs and not any(q.startswith(o + '.') and o in names for o in names)]
        for (a, b, new, desc, ln) in mutants_in(text, nodes):
            cands.append({'file': CORE + fn, 'start': a, 'end': b, 'new': new, 'desc': desc, 'line': ln})
    return cands


def run_mutant(pid, m, tier, seed, with_tests):
    tmp = tempfile.mkdtemp(prefix='vf_auto_', dir='/dev/shm')
    t0 = time.time()
    try:
        shutil.copytree(os.path.join(REPO, 'static_frame'), os.path.join(tmp, 'static_frame'), ignore=shutil.ignore_patterns('__pycache__', 'test'))
        p = os.path.join(tmp, m['file'])
        b = open(p, 'rb').read()
        old = b[m['start']:m['end']].decode('utf8')
        open(p, 'wb').write(b[:m['start']] + m['new'].encode('utf8') + b[m['end']:])
        env = dict(os.environ, PYTHONPATH=tmp, PYTHONDONTWRITEBYTECODE='1')
        r = subprocess.run(['/venv/bin/python', '-c', 'import static_frame'], cwd=tmp, env=env, stdout=subprocess.PIPE, stderr=subprocess.STDOUT, text=True)
        if r.returncode != 0:
            return dict(m, old=old, result='import-error', secs=round(time.time() - t0, 1))
        env = dict(os.environ, VERIF_REPO=tmp, VERIF_OUT=os.path.join(tmp, 'out'), VERIF_SEED=str(seed))
        r = subprocess.run(['/venv/bin/python', '-m', 'vf.run', pid, '--tier', tier], cwd=VERIF, env=env, stdout=subprocess.PIPE, stderr=subprocess.STDOUT, text=True, timeout=3600)
        res = {1: 'killed', 0: 'survived'}.get(r.returncode, 'error')
        first = ''
        for l in r.stdout.splitlines():
            if l.startswith(('failure bucket', 'HARNESS')):
                first = l[:260]
                break
        out = dict(m, old=old, result=res, secs=round(time.time() - t0, 1), first=first)
        if res == 'survived' and with_tests:
            # would the repository's own unit tests have caught it?
            shutil.copytree(os.path.join(REPO, 'static_frame', 'test'), os.path.join(tmp, 'static_frame', 'test'), ignore=shutil.ignore_patterns('__pycache__'))
            base_fail = TESTS_BASE()
            tr = subprocess.run(['/venv/bin/python', '-m', 'pytest', '-q', '-x', '-p', 'no:cacheprovider', 'static_frame/test/unit', '-n', '4', '--deselect-from-file', base_fail] if False else
                                ['/venv/bin/python', '-m', 'pytest', '-q', '-p', 'no:cacheprovider', 'static_frame/test/unit', '-n', '4'],
                                cwd=tmp, env=dict(os.environ, PYTHONPATH=tmp, HYPOTHESIS_STORAGE_DIRECTORY=os.path.join(tmp, 'hyp')), stdout=subprocess.PIPE, stderr=subprocess.STDOUT, text=True)
            failed = sorted(set(re.sub(r' - .*', '', l) for l in tr.stdout.splitlines() if l.startswith(('FAILED', 'ERROR'))))
            new = [f for f in failed if f not in open(base_fail).read().split('\n')]
            out['tests_new_failures'] = len(new)
            out['tests_sample'] = new[:3]
            out['result'] = 'survived+tests-pass' if not new else 'survived(tests-kill)'
        return out
    except subprocess.TimeoutExpired:
        return dict(m, result='timeout', secs=round(time.time() - t0, 1))
    finally:
        shutil.rmtree(tmp, ignore_errors=True)


_TB = []


def TESTS_BASE():
    """FAILED lines of the unit tests on the unchanged tree (computed once, cached under /dev/shm)."""
    path = '/dev/shm/vf_auto_base_fail.txt'
    if _TB or os.path.exists(path):
        return path
    tr = subprocess.run(['/venv/bin/python', '-m', 'pytest', '-q', '-p', 'no:cacheprovider', 'static_frame/test/unit', '-n', '8'], cwd=REPO,
                        env=dict(os.environ, HYPOTHESIS_STORAGE_DIRECTORY='/dev/shm/vf_auto_hyp'), stdout=subprocess.PIPE, stderr=subprocess.STDOUT, text=True)
    failed = sorted(set(re.sub(r' - .*', '', l) for l in tr.stdout.splitlines() if l.startswith(('FAILED', 'ERROR'))))
    open(path, 'w').write('\n'.join(failed))
    shutil.rmtree(os.path.join(REPO, '.hypothesis'), ignore_errors=True)
    shutil.rmtree('/dev/shm/vf_auto_hyp', ignore_errors=True)
    _TB.append(1)
    return path


def main():
    args = sys.argv[1:]
    pids = [a for a in args if re.match(r'C\d\d$', a)]
    def opt(name, default):
        return type(default)(args[args.index(name) + 1]) if name in args else default
    per, seed, jobs = opt('--per', 30), opt('--seed', 1), opt('--jobs', 3)
    tier = opt('--tier', 'quick')
    with_tests = '--tests' in args
    if with_tests:
        TESTS_BASE()
    os.makedirs(os.path.join(VERIF, 'sensitivity'), exist_ok=True)
    for pid in pids:
        cands = candidates(pid)
        rnd = random.Random(seed * 1000 + int(pid[1:]))
        rnd.shuffle(cands)
        sample = cands[:per]
        print('%s: %d candidate mutants in anchored functions, running %d' % (pid, len(cands), len(sample)), flush=True)
        with ThreadPoolExecutor(jobs) as ex:
            results = list(ex.map(lambda m: run_mutant(pid, m, tier, seed, with_tests), sample))
        tally = {}
        for r in results:
            tally[r['result']] = tally.get(r['result'], 0) + 1
        print('%s: %s' % (pid, tally), flush=True)
        for r in results:
            if r['result'].startswith('survived') or r['result'] in ('error', 'timeout'):
                print('   %-22s %s:%s  %s   [%s] -> [%s]' % (r['result'], r['file'].split('/')[-1], r['line'], r['desc'][:70], r.get('old', '')[:40].replace('\n', ' '), r['new'][:40].replace('\n', ' ')), flush=True)
        json.dump({'property': pid, 'seed': seed, 'tier': tier, 'candidates': len(cands), 'tally': tally, 'results': results},
                  open(os.path.join(VERIF, 'sensitivity', 'auto_%s.json' % pid), 'w'), indent=1)
    return 0


if __name__ == '__main__':
    sys.exit(main())
