#!/venv/bin/python
"""Run the repository's pinned baseline suite (guard OFF: there is no hook code) and compare
with /root/.vp/BASELINE.json: every stable-pass test that ran must pass.

Exit 0 when no stable test failed (a tolerance for upstream-flaky Hypothesis tests is applied
exactly as BASELINE.json records it), 1 otherwise.  Usage: tools/baseline.py [-n WORKERS]
"""
import json
import os
import subprocess
import sys
import tempfile
import xml.etree.ElementTree as ET

REPO = os.environ.get('VERIF_REPO', '/repo')
BASE = '/root/.vp/BASELINE.json'


def main() -> int:
    workers = None
    if '-n' in sys.argv:
        workers = sys.argv[sys.argv.index('-n') + 1]
    tmpdir = tempfile.mkdtemp(prefix='vf_baseline_', dir='/dev/shm' if os.path.isdir('/dev/shm') else None)
    junit = os.path.join(tmpdir, 'junit.xml')
    cmd = ['/venv/bin/python', '-m', 'pytest', '-q', '-p', 'no:cacheprovider', '--timeout=900',
           '--continue-on-collection-errors', '--junitxml=' + junit]
    if workers:
        cmd += ['-n', workers]
    env = dict(os.environ)
    env.pop('STATIC_FRAME_VERIF', None)
    env['HYPOTHESIS_STORAGE_DIRECTORY'] = os.path.join(tmpdir, 'hyp')
    p = subprocess.run(cmd, cwd=REPO, env=env, stdout=subprocess.PIPE, stderr=subprocess.STDOUT, text=True)
    tail = p.stdout.strip().splitlines()[-3:]
    print('\n'.join(tail))
    status = {}
    for case in ET.parse(junit).getroot().iter('testcase'):
        tid = '%s::%s' % (case.get('classname'), case.get('name'))
        bad = any(child.tag in ('failure', 'error') for child in case)
        skipped = any(child.tag == 'skipped' for child in case)
        status[tid] = 'fail' if bad else ('skip' if skipped else 'pass')
    import shutil
    shutil.rmtree(tmpdir, ignore_errors=True)
    shutil.rmtree(os.path.join(REPO, '.hypothesis'), ignore_errors=True)
    if not os.path.exists(BASE):
        print('no BASELINE.json; passed=%d' % sum(v == 'pass' for v in status.values()))
        return 0
    base = json.load(open(BASE))
    stable = base['stable_pass']
    failed = [t for t in stable if status.get(t) == 'fail']
    missing = [t for t in stable if t not in status]
    print('stable=%d passed=%d failed=%d missing=%d total_pass=%d total_fail=%d' % (
        len(stable), sum(status.get(t) == 'pass' for t in stable), len(failed), len(missing),
        sum(v == 'pass' for v in status.values()), sum(v == 'fail' for v in status.values())))
    for t in failed[:40]:
        print('STABLE-FAILED', t)
    for t in missing[:10]:
        print('STABLE-MISSING', t)
    return 1 if failed else 0


if __name__ == '__main__':
    sys.exit(main())
