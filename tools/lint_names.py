#!/venv/bin/python
"""Coarse undefined-name check for the checks' own code: failure branches never run on the unchanged tree, so a name that
is used but bound nowhere in its module (a forgotten import in a message) would only show up as a harness error against
a changed tree.  Flags every loaded name that is neither a builtin nor bound anywhere in the module."""
import ast
import builtins
import glob
import os
import sys

root = os.path.dirname(os.path.dirname(os.path.abspath(__file__)))
bad = 0
for path in sorted(glob.glob(os.path.join(root, 'vf', '**', '*.py'), recursive=True)):
    tree = ast.parse(open(path).read(), path)
    bound = set(dir(builtins)) | {'__file__', '__name__', '__doc__'}
    for node in ast.walk(tree):
        if isinstance(node, (ast.FunctionDef, ast.AsyncFunctionDef, ast.ClassDef)):
            bound.add(node.name)
        if isinstance(node, (ast.FunctionDef, ast.AsyncFunctionDef, ast.Lambda)):
            a = node.args
            for arg in a.posonlyargs + a.args + a.kwonlyargs + ([a.vararg] if a.vararg else []) + ([a.kwarg] if a.kwarg else []):
                bound.add(arg.arg)
        elif isinstance(node, ast.Name) and isinstance(node.ctx, (ast.Store, ast.Del)):
            bound.add(node.id)
        elif isinstance(node, (ast.Import, ast.ImportFrom)):
            for al in node.names:
                bound.add((al.asname or al.name).split('.')[0])
        elif isinstance(node, ast.ExceptHandler) and node.name:
            bound.add(node.name)
        elif isinstance(node, (ast.Global, ast.Nonlocal)):
            bound.update(node.names)
    for node in ast.walk(tree):
        if isinstance(node, ast.Name) and isinstance(node.ctx, ast.Load) and node.id not in bound:
            print('%s:%d: undefined name %r' % (os.path.relpath(path, root), node.lineno, node.id))
            bad += 1
sys.exit(1 if bad else 0)
