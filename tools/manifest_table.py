# id -> technique, level text, trusted base, DESIGN ref.  exec()'d by mkmanifest.py
reg('C10', 'property-based testing (Hypothesis): generated (a,b,c) triples by single-site edits vs a reference equality predicate; symmetry/transitivity/reflexivity relations; HE hash/set contract',
    'No counterexample among the generated triples (2.5k quick / 48k thorough) of Series/Frame/Index/IndexHierarchy/Bus differing by single-site edits under random compare options; cannot establish absence outside the generated sizes (<=5x4 cells).',
    'Trusts NumPy == as the meaning of "pairwise equal", the recipe->container builders, and the reference predicate (vf/props/c10.py).', 'DESIGN.md section 3, C10')
reg('C04', 'property-based testing (Hypothesis): generated containers x keys x routes vs a Python list/range reference model of selection',
    'No counterexample among generated selections (iloc/loc/getitem/bloc; all layouts; flat/auto/date/hierarchical indices; absent labels) apart from the listed known findings; bounded sizes (<=6x6 frames, <=8 series).',
    'Trusts the list model of positions/labels (vf/props/c04.py), NumPy scalar equality, and that constructor-built containers hold the recipe values.', 'DESIGN.md section 3, C04')
reg('C03', 'property-based testing (Hypothesis): differential over block layouts of the same columns x generated public operations; model-based coherence of every read route',
    'No unlisted layout-dependence among generated (frame, 3 layouts, operation) cases over a 72-entry operation table with value-bearing arguments, and every read route agrees with the model cells; bounded to <=6x6 frames.',
    'Trusts the observation function (labels, per-column dtype, NaN-aware values, error class), the recipe builders, and float tolerance 1e-9; str/bytes width not compared.', 'DESIGN.md section 3, C03')
reg('C02', 'property-based testing (Hypothesis): generated label lists x construction routes x derivation chains vs a Python list model; negative space (duplicates, non-tree orders) must raise',
    'No counterexample to the label<->position bijection (len/iter/reversed/values/iloc/positions/loc_to_iloc/membership) among generated indices (flat, auto, date, hierarchical, GO with append/extend) after up to 3 derivations; duplicates and non-tree orders always rejected with ErrorInitIndex.',
    'Trusts the list model of each derivation (vf/props/c02.py); NaN labels excluded; bounded to <=8 labels (quick) and depth <=3.', 'DESIGN.md section 3, C02')
