#!/usr/bin/env python3
"""Regenerate /verif/MANIFEST.json from the table below (keeps it schema-valid at all times)."""
import json
import os

HERE = os.path.dirname(os.path.dirname(os.path.abspath(__file__)))

# id -> (technique, level text, level note, design ref)
CHECKS = {}


def reg(pid, technique, text, note, ref):
    CHECKS[pid] = (technique, text, note, ref)


exec(open(os.path.join(HERE, 'tools', 'manifest_table.py')).read())

def sub_checks(pid):
    """The sub-checks a property module registers (read from its source: name, case counts, rule)."""
    import ast
    tree = ast.parse(open(os.path.join(HERE, 'vf', 'props', pid.lower() + '.py')).read())
    out = []
    for node in tree.body:
        if isinstance(node, ast.Assign) and any(isinstance(t, ast.Name) and t.id == 'SUBS' for t in node.targets):
            for call in node.value.elts:
                name = call.args[0].value
                kw = {k.arg: k.value for k in call.keywords}
                def const(n):
                    try:
                        return ast.literal_eval(n)
                    except Exception:
                        return None
                q, t, rule = const(kw.get('quick')), const(kw.get('thorough')), const(kw.get('rule'))
                size = 'enumerated' if 'enum' in kw else 'quick %s / thorough %s cases' % (q, t)
                out.append('%s [%s]: %s' % (name, size, rule))
    return out


props = [json.loads(l) for l in open(os.path.join(HERE, 'properties.jsonl'))]
checks = []
not_applicable = []
for p in props:
    pid = p['id']
    if pid in CHECKS and os.path.exists(os.path.join(HERE, 'vf', 'props', pid.lower() + '.py')):
        technique, text, note, ref = CHECKS[pid]
        checks.append({
            'property_id': pid,
            'quick_cmd': '/venv/bin/python -m vf.run %s --tier quick' % pid,
            'thorough_cmd': '/venv/bin/python -m vf.run %s --tier thorough' % pid,
            'evidence_file': 'evidence/%s.json' % pid,
            'replay_cmd_template': '/venv/bin/python -m vf.run %s --replay {path}' % pid,
            'engine': 'vf',
            'level_claimed': {'category': 'exploration', 'text': text, 'design_ref': ref},
            'level_note': note + ' Sub-checks as registered in the code: ' + '; '.join(sub_checks(pid)) + '.',
            'technique': technique,
        })
    else:
        not_applicable.append({'property_id': pid, 'reason': 'check not built yet in this session (no technique limit; see DESIGN.md section 3)'})

manifest = {
    'version': 1,
    'setup_cmd': '/venv/bin/python -c "import hypothesis" 2>/dev/null || /venv/bin/pip install --no-index --find-links /opt/veriftools/wheels hypothesis',
    'hooks': {
        'guard': 'STATIC_FRAME_VERIF',
        'enable': 'no hooks: every observation point is public API; checks import /repo working tree directly (editable install + sys.path)',
        'baseline_off_cmd': '/venv/bin/python tools/baseline.py',
        'source_commits': [],
        'add_only': True,
    },
    'engines': [{
        'name': 'vf',
        'path': 'vf/',
        'serves_properties': [c['property_id'] for c in checks],
        'kind_free_text': 'Hypothesis-driven generated-input search against explicit oracles (reference models, round trips, differentials, metamorphic relations, history invariants); collect-then-shrink with known-finding classifiers',
    }],
    'checks': checks,
    'notes': 'All checks: exit 0 held / exit 1 with VIOLATION line / exit 2 harness error. VERIF_SEED is honoured (seed(N), database=None). Known findings in known_findings.json; fix: commits in /repo listed there as fixed: entries.',
    'not_applicable': not_applicable,
}
with open(os.path.join(HERE, 'MANIFEST.json'), 'w') as fh:
    json.dump(manifest, fh, indent=1)
print('checks:', [c['property_id'] for c in checks])
print('not_applicable:', [c['property_id'] for c in not_applicable])
