#!/venv/bin/python
"""tools/mkreplay.py PID SUB NAME 'case-expression'  -> replays/PID/NAME.json (runs the case first)."""
import importlib, os, sys
sys.path.insert(0, os.path.dirname(os.path.dirname(os.path.abspath(__file__))))
import numpy as np  # noqa
from vf import harness
pid, subname, name, expr = sys.argv[1:5]
mod = importlib.import_module('vf.props.' + pid.lower())
sub = next(s for s in mod.SUBS if s.name == subname)
case = eval(expr)
status, sig, f = harness.run_case(sub, case)
print(status, sig, f)
if status == 'fail':
    p = harness.write_replay(pid, sub, sig, case, f.kind, f.detail, f.where)
    dst = os.path.join(os.path.dirname(p), name + '.json')
    os.replace(p, dst)
    print(dst)
