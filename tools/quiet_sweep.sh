#!/bin/bash
# quietness sweep: every quick check at several seeds on the unchanged tree; prints only non-zero exits
cd "$(dirname "$0")/.."
for seed in ${SEEDS:-0 1 2 3 7 42 12345}; do
  for p in C01 C02 C03 C04 C05 C06 C07 C08 C09 C10 C11 C12 C13 C14 C15 C16 C17 C18 C19 C20; do
    out=$(VERIF_SEED=$seed /venv/bin/python -m vf.run $p --tier ${TIER:-quick} 2>&1); rc=$?
    if [ $rc -ne 0 ]; then echo "== $p seed=$seed rc=$rc"; echo "$out" | grep -v "^  \|^    \|KNOWN-FINDING" | cut -c1-600 | tail -8; fi
  done
  echo "seed $seed done"
done
