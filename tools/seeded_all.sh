#!/bin/bash
# re-evaluate every kept seeded change against the quick check of its property (scratch copies; 6 at a time)
cd "$(dirname "$0")/.."
ls -d seeded/C*/ | xargs -P ${JOBS:-6} -I{} bash -c 'd={}; pid=$(basename $d | cut -c1-3); out=$(/venv/bin/python tools/seeded_eval.py $d $pid ${SEEDS:-seed=1} 2>&1 | grep -E "DETECTED|MISSED|ERROR" | tr "\n" " "); echo "$(basename $d): $out"' | sort
