#!/venv/bin/python
"""Evaluate a seeded change: tools/seeded_eval.py <dir-with-patch.diff-and-demo.py> <PID> [quick|thorough] [more PIDs...]

Works on a scratch copy of /repo (never on /repo itself): applies the patch, runs demo.py against the
copy (expects failure) and against /repo (expects success), then runs the property's check with
VERIF_REPO=<copy> and VERIF_OUT=<copy>/out and reports whether it was detected (exit 1).
"""
import os
import shutil
import subprocess
import sys
import tempfile

VERIF = os.path.dirname(os.path.dirname(os.path.abspath(__file__)))


def main():
    d = os.path.abspath(sys.argv[1])
    pids = [a for a in sys.argv[2:] if a.startswith('C')]
    tier = 'thorough' if 'thorough' in sys.argv else 'quick'
    seeds = [a.split('=')[1] for a in sys.argv if a.startswith('seed=')] or ['1']
    tmp = tempfile.mkdtemp(prefix='vf_seed_', dir='/dev/shm')
    try:
        subprocess.run(['git', '-C', '/repo', 'worktree', 'prune'], check=False)
        shutil.copytree('/repo/static_frame', os.path.join(tmp, 'static_frame'), ignore=shutil.ignore_patterns('__pycache__'))
        p = subprocess.run(['patch', '-p1', '--no-backup-if-mismatch', '-i', os.path.join(d, 'patch.diff')], cwd=tmp, stdout=subprocess.PIPE, stderr=subprocess.STDOUT, text=True)
        print('patch:', p.returncode, p.stdout.strip().splitlines()[-1] if p.stdout.strip() else '')
        if p.returncode != 0:
            print(p.stdout)
            return 2
        demo = os.path.join(d, 'demo.py')
        if os.path.exists(demo):
            demo_dir = os.path.join(tmp, 'demo_dir')  # the script's own directory is first on sys.path: keep it free of static_frame
            os.makedirs(demo_dir, exist_ok=True)
            shutil.copy(demo, os.path.join(demo_dir, '_demo.py'))
            for label, root in (('with change', tmp), ('without change', '/repo')):
                r = subprocess.run(['/venv/bin/python', os.path.join(demo_dir, '_demo.py')], cwd=root, env=dict(os.environ, PYTHONPATH=root), stdout=subprocess.PIPE, stderr=subprocess.STDOUT, text=True)
                print('demo %s: exit %d: %s' % (label, r.returncode, (r.stdout.strip().splitlines() or [''])[-1][:200]))
        for pid in pids:
            for sd in seeds:
                env = dict(os.environ, VERIF_REPO=tmp, VERIF_OUT=os.path.join(tmp, 'out'), VERIF_SEED=sd)
                r = subprocess.run(['/venv/bin/python', '-m', 'vf.run', pid, '--tier', tier], cwd=VERIF, env=env, stdout=subprocess.PIPE, stderr=subprocess.STDOUT, text=True)
                lines = [l for l in r.stdout.splitlines() if l.startswith(('failure bucket', 'VIOLATION', 'HARNESS', pid + ' '))]
                print('%s %s seed=%s -> exit %d %s' % (pid, tier, sd, r.returncode, {1: 'DETECTED', 0: 'MISSED'}.get(r.returncode, 'ERROR')))
                for l in lines[:6]:
                    print('   ', l[:300])
    finally:
        shutil.rmtree(tmp, ignore_errors=True)
    return 0


if __name__ == '__main__':
    sys.exit(main())
