#!/venv/bin/python
"""Sensitivity harness: apply a named one-site mutation to a scratch copy of static_frame, run the
quick check(s) that should notice with VERIF_REPO pointing at the copy, expect exit 1, delete the copy.

  tools/sensitivity.py                 run every mutation (16 at a time)
  tools/sensitivity.py M03 M07         run the named ones
Results are printed as a table: mutation, property, exit code (1 = killed), seconds.
"""
import os
import shutil
import subprocess
import sys
import tempfile
import time
from concurrent.futures import ThreadPoolExecutor

VERIF = os.path.dirname(os.path.dirname(os.path.abspath(__file__)))
REPO = '/repo'
C = 'static_frame/core/'

# (id, [properties expected to kill it], file, old, new, note)
MUTATIONS = [
    ('M01', ['C01'], C + 'type_blocks.py', "                    b = np.delete(b, row_key, axis=0)\n                    b.flags.writeable = False\n                yield b",
     "                    b = np.delete(b, row_key, axis=0)\n                yield b", 'drop: row-deleted block left writeable'),
    ('M02', ['C01'], C + 'util.py', "    if src_array.flags.writeable:\n        dst_array = src_array.copy()\n        dst_array.flags.writeable = False\n        return dst_array",
     "    if src_array.flags.writeable:\n        dst_array = src_array\n        dst_array.flags.writeable = False\n        return dst_array", 'immutable_filter freezes the caller array in place instead of copying (shares memory with views)'),
    ('M03', ['C02', 'C09'], C + 'index.py', "        if self.__contains__(value): #type: ignore\n            raise KeyError(f'duplicate key append attempted: {value}')",
     "        if False and self.__contains__(value): #type: ignore\n            raise KeyError(f'duplicate key append attempted: {value}')", 'IndexGO.append accepts duplicates'),
    ('M04', ['C03', 'C04'], C + 'type_blocks.py', "            if last[0] == block_idx and abs(col - last[1]) == 1:", "            if last[0] == block_idx and abs(col - last[1]) <= 2:", 'non-contiguous columns bundled into a slice'),
    ('M05', ['C04'], C + 'index.py', "                if field == SLICE_STOP_ATTR:\n                    # loc selections are inclusive, so iloc gets one more\n                    pos += 1 #type: ignore",
     "                if field == SLICE_STOP_ATTR:\n                    # loc selections are inclusive, so iloc gets one more\n                    pos += 0 #type: ignore", 'label slice excludes its stop label'),
    ('M06', ['C04'], C + 'container_util.py', "                key = key.reindex(index,\n                        fill_value=False,\n                        check_equals=False,\n                        ).values",
     "                key = key.values", 'Boolean Series keys applied by position, not by label'),
    ('M07', ['C05', 'C09'], C + 'index_level.py', "                    level_previous.offset = node.__len__() #type: ignore [unreachable]", "                    level_previous.offset = node.__len__() - 1 #type: ignore [unreachable]", 'wrong offset for an appended subtree'),
    ('M08', ['C06'], C + 'series.py', "                values = self.reindex(index, own_index=True, check_equals=False).values\n                other = other.reindex(index, own_index=True, check_equals=False).values",
     "                values = self.reindex(index, own_index=True, check_equals=False).values\n                other = other.reindex(index, own_index=True, check_equals=False).values[::-1]", 'Series operator pairs the other operand in reverse'),
    ('M09', ['C07', 'C11'], C + 'util.py', "        if dt_resolve != DTYPE_OBJECT:\n            dt_resolve = resolve_dtype(array.dtype, dt_resolve)\n        shape[axis] += array.shape[axis]",
     "        shape[axis] += array.shape[axis]", 'concat_resolved keeps the first dtype (truncation / lossy casts)'),
    ('M10', ['C07'], C + 'util.py', "    if dtype is not None:\n        dtype_final = resolve_dtype(dtype, dtype_element)\n    else:", "    if dtype is not None:\n        dtype_final = dtype\n    else:", 'full_for_fill forces the block dtype on the fill value'),
    ('M11', ['C08'], C + 'container_util.py', "        if key.dtype == DTYPE_BOOL: #type: ignore\n            # a Boolean mask is positional: sorting it would move the selection to the last positions\n            return key\n", "", 'revert: Boolean mask sorted in assign'),
    ('M12', ['C09'], C + 'frame.py', "                own_columns=False, # all cases need new columns", "                own_columns=True, # all cases need new columns", 'to_frame shares the grow-only columns object'),
    ('M13', ['C09'], C + 'frame.py', "        self._columns.append(key)\n        self._blocks.append(block)\n\n\n    def extend_items", "        self._blocks.append(block)\n        self._columns.append(key)\n\n\n    def extend_items", 'setitem appends data before the label (out of step on a duplicate-free path is fine; on failure not)'),
    ('M14', ['C10'], C + 'type_blocks.py', "            isna_both = isna_self & isna_other", "            isna_both = isna_self & isna_self", 'revert: equals asymmetric with one-sided NaN'),
    ('M15', ['C10'], C + 'frame.py', "        if compare_name and self._name != other._name:\n            return False\n\n        # dtype check will happen in TypeBlocks", "        # dtype check will happen in TypeBlocks", 'Frame.equals ignores compare_name'),
    ('M16', ['C11'], C + 'frame.py', "fill_value=fill_value", "fill_value=fill_value if fill_value is not None else 0", 'None fill replaced by 0 everywhere (first occurrence only)'),
    ('M17', ['C12'], C + 'util.py', "DEFAULT_SORT_KIND = 'mergesort'", "DEFAULT_SORT_KIND = 'quicksort'", 'unstable default sort'),
    ('M18', ['C13'], C + 'util.py', "    np.not_equal(array[:-1], array[1:], out=transitions[1:])", "    np.not_equal(array[:-1], array[1:], out=transitions[1:])\n    transitions[1:2] = False", 'first group boundary dropped'),
    ('M19', ['C13'], C + 'container_util.py', "            idx_label = idx_right + label_shift", "            idx_label = idx_left + label_shift", 'window labelled from its left edge'),
    ('M20', ['C14'], C + 'util.py', "    if count == length: # if all are true\n        return 0", "    if count == length: # if all are true\n        return 1", 'helper off by one (may be unrelated to fills)'),
    ('M21', ['C15'], C + 'container.py', "                ufunc=np.mean,\n                ufunc_skipna=np.nanmean,\n                composable=False,", "                ufunc=np.mean,\n                ufunc_skipna=np.nanmean,\n                composable=True,", 'mean treated as block-composable on axis 1'),
    ('M22', ['C16'], C + 'frame.py', "                    doublequote=quote_double,", "                    doublequote=not quote_double,", 'quote doubling switched off on export (csv then needs an escape char)'),
    ('M23', ['C17'], C + 'bus.py', "                label_remove = next(iter(self._last_accessed))", "                label_remove = next(reversed(self._last_accessed))", 'evicts most-recently-used'),
    ('M24', ['C17'], C + 'store.py', "            if os.path.getmtime(self._fp) != self._last_modified:\n                raise StoreFileMutation", "            if False and os.path.getmtime(self._fp) != self._last_modified:\n                raise StoreFileMutation", 'mtime check skipped'),
    ('M25', ['C18'], C + 'node_iter.py', "            yield from zip(func_keys,\n                    executor.map(func, arg_gen(), chunksize=chunksize)\n                    )",
     "            results = list(executor.map(func, arg_gen(), chunksize=chunksize))\n            yield from zip(reversed(func_keys), results)", 'apply_pool pairs results with reversed labels'),
    ('M26', ['C19'], C + 'quilt.py', "                component = self._bus.loc[key].iloc[sel_component, opposite_key]\n                if key_count == 0:",
     "                component = self._bus.loc[key].iloc[np.roll(sel_component, 1), opposite_key]\n                if key_count == 0:", 'Quilt member mask rolled by one'),
    ('M27', ['C20'], C + 'pivot.py', "        else: # can be sure we only have func_single\n            yield label, func_single(values)", "        else: # can be sure we only have func_single\n            yield label, func_single(values[1:])", 'pivot aggregates all but the first source row'),
    ('M31', ['C13'], C + 'frame.py', "        transitions = np.flatnonzero(group_values != np.roll(group_values, 1))[1:]", "        transitions = np.flatnonzero(group_values != np.roll(group_values, 1))[2:]", 'first group boundary dropped in the sort-and-slice path'),
    ('M32', ['C13'], C + 'util.py', "        groups, locations = np.unique(\n                array,\n                return_inverse=True,\n                axis=unique_axis)", "        groups, locations = np.unique(\n                array,\n                return_inverse=True,\n                axis=unique_axis)\n        locations = np.roll(locations, 1)", 'group locations shifted by one'),
    ('M33', ['C14'], C + 'util.py', "                shift = len(range(*target_slice.indices(length))) - limit\n", "                shift = len(range(*target_slice.indices(length))) - limit - 1\n", 'directional fill limit off by one'),
    ('M34', ['C14'], C + 'type_blocks.py', "        condition_axis = 0 if axis else 1\n        to_drop = condition(column_2d_filter(unified), axis=condition_axis)", "        condition_axis = 0 if axis else 1\n        to_drop = np.any(column_2d_filter(unified), axis=condition_axis)", 'dropna ignores the all/any condition'),
    ('M35', ['C20'], C + 'frame.py', "join_type is Join.LEFT", "join_type is Join.RIGHT", 'left join treated as right (first occurrence)'),
    ('M36', ['C19'], C + 'batch.py', None, None, 'placeholder'),
    ('M37', ['C02', 'C05'], C + 'index_hierarchy.py', "                            t.offset += target.offset", "                            t.offset += 0", 'revert: level_drop offsets'),
    ('M38', ['C16'], C + 'frame.py', "include_index: bool = True,\n            include_index_name: bool = True,\n            include_columns: bool = True,\n            include_columns_name: bool = False,\n            encoding: tp.Optional[str] = None,\n            line_terminator: str = '\\n',\n            quote_char: str = '\"',", None, 'placeholder'),
    ('M28', ['C05', 'C04'], C + 'index.py', "                if bounded and field == SLICE_START_ATTR:\n                    yield offset", "                if bounded and field == SLICE_START_ATTR:\n                    yield None", 'revert half of the HLoc open-slice fix'),
    ('M29', ['C03', 'C06'], C + 'type_blocks.py', "            if self.block_compatible(other, axis=None):", "            if True or self.block_compatible(other, axis=None):", 'binary operator assumes block compatibility'),
    ('M30', ['C15', 'C03'], C + 'type_blocks.py', "                        out[pos] = func(array=b, axis=axis)", "                        out[pos] = func(array=b[:-1], axis=axis)", 'axis-0 reduction of 1-D blocks skips the last row'),
]


def run_one(m):
    mid, props, rel, old, new, note = m
    if old is None:
        return [(mid, '-', 'skipped', 0.0, note)]
    src = open(os.path.join(REPO, rel)).read()
    if src.count(old) < 1:
        return [(mid, '-', 'STALE (site not found)', 0.0, note)]
    tmp = tempfile.mkdtemp(prefix='vf_mut_%s_' % mid, dir='/dev/shm' if os.path.isdir('/dev/shm') else None)
    out = []
    try:
        shutil.copytree(os.path.join(REPO, 'static_frame'), os.path.join(tmp, 'static_frame'), ignore=shutil.ignore_patterns('__pycache__', 'test'))
        with open(os.path.join(tmp, rel), 'w') as fh:
            fh.write(src.replace(old, new, 1))
        for pid in props:
            env = dict(os.environ, VERIF_REPO=tmp, VERIF_OUT=os.path.join(tmp, 'out'), VERIF_SEED=os.environ.get('VERIF_SEED', '1'), VERIF_QUICK_PARALLEL='0')
            t0 = time.time()
            p = subprocess.run(['/venv/bin/python', '-m', 'vf.run', pid, '--tier', 'quick'], cwd=VERIF, env=env, stdout=subprocess.PIPE, stderr=subprocess.STDOUT, text=True)
            first = next((l for l in p.stdout.splitlines() if l.startswith('failure bucket') or l.startswith('HARNESS-ERROR')), '')
            out.append((mid, pid, {1: 'KILLED', 0: 'SURVIVED', 2: 'HARNESS-ERROR'}.get(p.returncode, 'rc=%d' % p.returncode), time.time() - t0, note + ' | ' + first[:160]))
    finally:
        shutil.rmtree(tmp, ignore_errors=True)
    return out


def main():
    names = set(sys.argv[1:])
    todo = [m for m in MUTATIONS if not names or m[0] in names]
    with ThreadPoolExecutor(8) as ex:
        for rows in ex.map(run_one, todo):
            for r in rows:
                print('%-4s %-4s %-22s %6.1fs  %s' % r)
                sys.stdout.flush()


if __name__ == '__main__':
    main()
