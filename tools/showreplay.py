import json,sys
for f in sys.argv[1:]:
    d=json.load(open(f)); print(f); print(d['signature']); print(d['detail'][:1200]); print(json.dumps(d['case'])[:2500]); print()
