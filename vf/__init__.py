"""vf: property-based verification framework for static-frame (see /verif/DESIGN.md)."""
