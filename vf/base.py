"""Shared foundations: repo import, failure type, library-call wrapper, value normalisation
and NaN-aware equality.  Nothing here depends on Hypothesis."""
import datetime
import math
import os
import sys
import traceback

VERIF_DIR = os.path.dirname(os.path.dirname(os.path.abspath(__file__)))
REPO = os.path.realpath(os.environ.get('VERIF_REPO', '/repo'))
if REPO not in sys.path:
    sys.path.insert(0, REPO)

import numpy as np  # noqa: E402
import static_frame as sf  # noqa: E402

_sf_file = os.path.realpath(sf.__file__)
if not _sf_file.startswith(REPO + os.sep):
    sys.stderr.write('HARNESS-ERROR static_frame imported from %s, expected under %s\n' % (_sf_file, REPO))
    sys.exit(2)


class Failure(Exception):
    """A property violation observed by a check.

    kind:   short mismatch class, e.g. 'value', 'labels', 'raised:TypeError', 'no-raise'
    detail: human-readable explanation (expected / observed)
    where:  innermost static_frame frame (file:function) for exceptions, else ''
    """

    def __init__(self, kind, detail='', where=''):
        super().__init__('%s: %s' % (kind, detail))
        self.kind = kind
        self.detail = detail
        self.where = where


class Discard(Exception):
    """The generated case is outside the property's claim (counted, never a failure)."""

    def __init__(self, reason='discard'):
        super().__init__(reason)
        self.reason = reason


class Raised:
    """Result of a library call that raised."""

    __slots__ = ('exc', 'where')

    def __init__(self, exc, where):
        self.exc = exc
        self.where = where

    @property
    def cls(self):
        return type(self.exc).__name__

    def __repr__(self):
        return 'Raised(%s: %s @%s)' % (self.cls, str(self.exc)[:120], self.where)


def _where(exc):
    """Innermost traceback frame that lives in static_frame/core."""
    tb = traceback.extract_tb(exc.__traceback__)
    for fr in reversed(tb):
        if 'static_frame' + os.sep + 'core' in fr.filename:
            return '%s:%s' % (os.path.basename(fr.filename), fr.name)
    return ''


def lib(fn, *args, **kwargs):
    """Call into the library; exceptions become a Raised value (never propagate)."""
    try:
        return fn(*args, **kwargs)
    except Exception as e:  # noqa: BLE001 - deliberately total; classified by caller
        return Raised(e, _where(e))


def must(fn, *args, what='call', **kwargs):
    """Call into the library where the oracle says the call is defined: raising is a failure."""
    r = lib(fn, *args, **kwargs)
    if isinstance(r, Raised):
        raise Failure('raised:%s' % r.cls, '%s raised %r' % (what, r.exc), r.where)
    return r


# ---------------------------------------------------------------------------------------------
# value normalisation


class _Tok:
    def __init__(self, name):
        self.name = name

    def __repr__(self):
        return self.name

    def __reduce__(self):
        return (_tok, (self.name,))


_TOKS = {}


def _tok(name):
    if name not in _TOKS:
        _TOKS[name] = _Tok(name)
    return _TOKS[name]


NAN = _tok('<NaN>')
NAT = _tok('<NaT>')


def is_missing(x):
    """NaN, None or NaT (the library's notion of a missing value)."""
    if x is None or x is NAN or x is NAT:
        return True
    if isinstance(x, (float, np.floating)):
        return math.isnan(x)
    if isinstance(x, (complex, np.complexfloating)):
        return x != x
    if isinstance(x, (np.datetime64, np.timedelta64)):
        return bool(np.isnat(x))
    return False


def canon(x):
    """Canonical hashable, comparable form of an element or label: NumPy scalars become Python
    scalars (never via repr), NaN/NaT become tokens, tuples recurse, datetime64 stays typed."""
    if isinstance(x, tuple):
        return tuple(canon(y) for y in x)
    if isinstance(x, list):
        return tuple(canon(y) for y in x)
    if isinstance(x, np.ndarray):
        if x.ndim == 0:
            return canon(x[()])
        return tuple(canon(y) for y in x)
    if isinstance(x, (np.datetime64, np.timedelta64)):
        if np.isnat(x):
            return NAT
        return x
    if isinstance(x, np.generic):
        x = x.item()
    if isinstance(x, float) and math.isnan(x):
        return NAN
    if isinstance(x, complex) and x != x:
        return NAN
    return x


def eq(a, b):
    """Element equality as the properties mean it: ``==``, or both missing of the same kind."""
    if isinstance(a, (tuple, list)) or isinstance(b, (tuple, list)):
        if not (isinstance(a, (tuple, list)) and isinstance(b, (tuple, list))):
            return False
        return len(a) == len(b) and all(eq(x, y) for x, y in zip(a, b))
    if isinstance(a, np.ndarray) or isinstance(b, np.ndarray):
        if not (isinstance(a, np.ndarray) and isinstance(b, np.ndarray)):
            return False
        return a.shape == b.shape and all(eq(x, y) for x, y in zip(a.ravel().tolist() if a.dtype.kind not in 'mM' else list(a.ravel()), b.ravel().tolist() if b.dtype.kind not in 'mM' else list(b.ravel())))
    a, b = canon(a), canon(b)
    if a is NAN or b is NAN:
        return a is b
    if a is NAT or b is NAT:
        return a is b
    if a is None or b is None:
        return a is b
    try:
        r = a == b
        if isinstance(r, np.ndarray):
            return bool(r.all())
        return bool(r)
    except Exception:  # noqa: BLE001 - incomparable values are unequal
        return False


def typeclass(x):
    """Coarse value class used where a property asks that types are not cast into one another."""
    if x is None:
        return 'none'
    if isinstance(x, (bool, np.bool_)):
        return 'bool'
    if isinstance(x, np.timedelta64):  # NB: a subclass of np.signedinteger
        return 'timedelta'
    if isinstance(x, np.datetime64):
        return 'datetime'
    if isinstance(x, (int, np.integer)):
        return 'integer'
    if isinstance(x, (float, np.floating, complex, np.complexfloating)):
        return 'inexact'
    if isinstance(x, (str, np.str_)):
        return 'str'
    if isinstance(x, (bytes, np.bytes_)):
        return 'bytes'
    if isinstance(x, (np.datetime64, datetime.date, datetime.datetime)):
        return 'datetime'
    if isinstance(x, (np.timedelta64, datetime.timedelta)):
        return 'timedelta'
    if isinstance(x, tuple):
        return 'tuple'
    return 'other'


def dtype_kind_class(dt):
    k = np.dtype(dt).kind
    return {'b': 'bool', 'i': 'integer', 'u': 'integer', 'f': 'inexact', 'c': 'inexact', 'U': 'str',
            'S': 'bytes', 'M': 'datetime', 'm': 'timedelta', 'O': 'object'}.get(k, 'other')


def arr_list(a):
    """Elements of a 1-D array as a list of NumPy/Python scalars (datetime64 kept typed)."""
    if a.dtype.kind in 'mM':
        return list(a)
    return a.tolist()


def short(x, n=300):
    s = repr(x)
    return s if len(s) <= n else s[:n] + '…'
