"""Hypothesis strategies producing *recipes* (plain data) and builders turning recipes into
containers.  Layouts are generated composition-first (block widths, then one dtype per block)
so that wide 2-D blocks are common; model columns are read back from the built blocks."""
import datetime

import numpy as np
from hypothesis import strategies as st

from vf.base import sf

# ---------------------------------------------------------------------------------------------
# element pools

_INT_BOUNDS = {
    'int8': (-2 ** 7, 2 ** 7 - 1), 'int16': (-2 ** 15, 2 ** 15 - 1), 'int32': (-2 ** 31, 2 ** 31 - 1),
    'int64': (-2 ** 63, 2 ** 63 - 1), 'uint8': (0, 2 ** 8 - 1), 'uint16': (0, 2 ** 16 - 1),
    'uint32': (0, 2 ** 32 - 1), 'uint64': (0, 2 ** 64 - 1),
}

ALPHA = 'abcxyz'
ALPHA_WIDE = 'ab cé,"\t1n'

KINDS_BASIC = ('bool', 'int64', 'float64', '<U3', 'object')
KINDS_NUMERIC = ('int64', 'float64', 'int32', 'float32', 'int8', 'uint8', 'int16', 'uint16', 'uint32', 'uint64', 'float16')
KINDS_NUM_SAFE = ('int64', 'float64', 'int32', 'float32')
KINDS_WIDE = ('bool', 'int8', 'int16', 'int32', 'int64', 'uint8', 'uint16', 'uint32', 'uint64', 'float16', 'float32',
              'float64', 'complex64', 'complex128', '<U1', '<U3', '<U8', 'S1', 'S4', 'M8[Y]', 'M8[M]', 'M8[D]', 'M8[h]',
              'M8[s]', 'M8[ns]', 'm8[D]', 'm8[s]', 'object')
KINDS_MID = ('bool', 'int64', 'int32', 'uint8', 'float64', 'float32', '<U1', '<U4', 'M8[D]', 'M8[s]', 'm8[D]', 'object')


def small_ints():
    return st.integers(-9, 30)


def elements(kind, missing=True, boundary=False, small=True):
    """Strategy for one element storable *exactly* in an array of dtype ``kind``."""
    if kind == 'bool':
        return st.booleans()
    if kind in _INT_BOUNDS:
        lo, hi = _INT_BOUNDS[kind]
        base = st.integers(max(lo, -9), min(hi, 30))
        if boundary:
            return st.one_of(base, st.sampled_from([lo, hi, 0, min(hi, 1), max(lo, -1)]),
                             st.integers(lo, hi))
        return base
    if kind in ('float16', 'float32', 'float64'):
        vals = [0.0, 1.0, -1.0, 0.5, 2.0, -2.5, 3.0, 10.0, 1.5, 4.0]
        opts = [st.sampled_from(vals), st.integers(-20, 20).map(float)]
        if boundary:
            extra = [float('inf'), float('-inf'), -0.0]
            if kind == 'float64':
                extra += [2.0 ** 53, 2.0 ** 53 + 2, 1e-300, 0.1, 1 / 3]
            opts.append(st.sampled_from(extra))
        if missing:
            opts.append(st.just(float('nan')))
        return st.one_of(*opts)
    if kind in ('complex64', 'complex128'):
        opts = [st.sampled_from([0j, 1 + 1j, -2.5j, 3 + 0j, 1.5 - 0.5j])]
        if missing:
            opts.append(st.just(complex('nan')))
        return st.one_of(*opts)
    if kind.startswith('<U'):
        w = int(kind[2:])
        return st.text(alphabet=ALPHA_WIDE if boundary else ALPHA, min_size=0 if boundary else 1, max_size=w)
    if kind.startswith('S'):
        w = int(kind[1:])
        return st.text(alphabet='abcXYZ09', min_size=1, max_size=w).map(lambda s: s.encode('ascii'))
    if kind.startswith('M8['):
        unit = kind[3:-1]
        base = st.integers(-3, 40).map(lambda i: np.datetime64(i, unit))
        if unit == 'D':
            base = st.integers(18000, 18060).map(lambda i: np.datetime64(i, 'D'))
        if missing:
            return st.one_of(base, base, base, st.just(np.datetime64('NaT', unit)))
        return base
    if kind.startswith('m8['):
        unit = kind[3:-1]
        base = st.integers(-5, 40).map(lambda i: np.timedelta64(i, unit))
        if missing:
            return st.one_of(base, base, base, st.just(np.timedelta64('NaT', unit)))
        return base
    if kind == 'object:int':   # an object column whose elements are all ints (its dtype is not implied by its elements)
        return st.integers(-5, 20)
    if kind == 'object:str':
        return st.sampled_from(['a', 'b', 'xyz', 'abcde'])
    if kind == 'object':
        opts = [st.integers(-5, 20), st.sampled_from(['a', 'b', 'xyz', '']), st.booleans(),
                st.sampled_from([0.5, 2.0, -1.5])]
        if boundary:
            opts.append(st.sampled_from([2 ** 53 + 1, -(2 ** 63) - 5, 2 ** 70]))
        if missing:
            opts.append(st.sampled_from([None, float('nan')]))
        return st.one_of(*opts)
    raise ValueError(kind)


def np_dtype(kind):
    if kind == 'object' or kind.startswith('object:'):
        return np.dtype(object)
    return np.dtype(kind)


def to_array(kind, values, shape=None):
    """Build an array of exactly dtype ``kind`` from Python elements (object arrays element-wise)."""
    dt = np_dtype(kind)
    if dt == object:
        a = np.empty(len(values), dtype=object)
        for i, v in enumerate(values):
            a[i] = v
    else:
        a = np.array(values, dtype=dt) if len(values) else np.empty(0, dtype=dt)
    if shape is not None:
        a = a.reshape(shape)
    return a


@st.composite
def column(draw, kind, n, **kw):
    vals = draw(st.lists(elements(kind, **kw), min_size=n, max_size=n))
    return to_array(kind, vals)


@st.composite
def compositions(draw, m, max_width=None):
    """A composition of m into positive block widths; biased towards some wide blocks."""
    if m == 0:
        return []
    widths = []
    left = m
    while left > 0:
        w = draw(st.integers(1, min(left, max_width or left)))
        widths.append(w)
        left -= w
    return widths


@st.composite
def blocks(draw, n, m, kinds=KINDS_BASIC, missing=True, boundary=False, max_width=None):
    """List of arrays (1-D, or 2-D of width >= 1) with n rows and m columns in total."""
    widths = draw(compositions(m, max_width))
    out = []
    for w in widths:
        kind = draw(st.sampled_from(kinds))
        vals = draw(st.lists(elements(kind, missing=missing, boundary=boundary), min_size=n * w, max_size=n * w))
        if w == 1 and draw(st.booleans()):
            out.append(to_array(kind, vals))
        else:
            out.append(to_array(kind, vals, (n, w)))
    return out


def block_columns(blks):
    """Per-column 1-D arrays (each with its block's dtype) read back from blocks."""
    cols = []
    for b in blks:
        if b.ndim == 1:
            cols.append(b)
        else:
            for j in range(b.shape[1]):
                cols.append(b[:, j])
    return cols


def block_bounds(blks):
    """Column positions at which a new block starts (excluding 0)."""
    out = []
    pos = 0
    for b in blks:
        if pos:
            out.append(pos)
        pos += 1 if b.ndim == 1 else b.shape[1]
    return out


@st.composite
def relayout(draw, cols):
    """Another block layout for the same columns: re-cut runs of equal dtype."""
    out = []
    i = 0
    m = len(cols)
    while i < m:
        j = i + 1
        while j < m and cols[j].dtype == cols[i].dtype and draw(st.booleans()):
            j += 1
        if j - i == 1:
            if draw(st.booleans()):
                out.append(np.array(cols[i]))
            else:
                out.append(np.array(cols[i]).reshape(len(cols[i]), 1))
        else:
            out.append(np.column_stack([cols[k] for k in range(i, j)]) if len(cols[i]) else
                       np.empty((0, j - i), dtype=cols[i].dtype))
        i = j
    return out


def layout_consolidated(cols):
    out = []
    i = 0
    m = len(cols)
    while i < m:
        j = i + 1
        while j < m and cols[j].dtype == cols[i].dtype:
            j += 1
        if j - i == 1:
            out.append(np.array(cols[i]))
        else:
            b = np.empty((len(cols[i]), j - i), dtype=cols[i].dtype)
            for k in range(i, j):
                b[:, k - i] = cols[k]
            out.append(b)
        i = j
    return out


def layout_split(cols):
    return [np.array(c) for c in cols]


# ---------------------------------------------------------------------------------------------
# labels / index recipes

LABEL_KINDS = ('int', 'str', 'float', 'tuple', 'date', 'mixed')


def label_pool(kind):
    if kind == 'int':
        return st.integers(-6, 40)
    if kind == 'str':
        return st.text(alphabet='abcde', min_size=1, max_size=3)
    if kind == 'float':
        return st.integers(-10, 40).map(lambda i: i / 2)
    if kind == 'bool':
        return st.booleans()
    if kind == 'tuple':
        return st.tuples(st.integers(0, 4), st.sampled_from('abc'))
    if kind == 'date':
        return st.integers(18000, 18090).map(lambda i: np.datetime64(i, 'D'))
    if kind == 'mixed':
        return st.one_of(st.integers(-3, 12), st.text(alphabet='abc', min_size=1, max_size=2),
                         st.sampled_from([0.5, 2.5, None]), st.tuples(st.integers(0, 2), st.sampled_from('xy')))
    raise ValueError(kind)


def _ukey(x):
    # Python equality semantics (1 == 1.0 == True) define duplicate labels
    if isinstance(x, np.datetime64):
        return ('dt', int(x.astype('M8[D]').astype(np.int64)))
    return x


@st.composite
def flat_labels(draw, n, kind):
    if kind == 'bool' and n > 2:
        kind = 'int'
    return draw(st.lists(label_pool(kind), min_size=n, max_size=n, unique_by=_ukey))


@st.composite
def tree_labels(draw, n=None, depth=None, max_leaves=12, level_kinds=None):
    """Tree-ordered list of label tuples (depth 2-3), ragged fan-out, repeated inner labels."""
    depth = depth or draw(st.sampled_from([2, 2, 3]))
    if level_kinds is None:
        level_kinds = [draw(st.sampled_from(['str', 'int', 'date', 'int', 'str'])) for _ in range(depth)]
    pools = []
    for k in level_kinds:
        if k == 'str':
            pools.append(['a', 'b', 'c', 'd', 'e'])
        elif k == 'int':
            pools.append([1, 2, 3, 4, 10])
        elif k == 'date':
            pools.append([np.datetime64(18000 + i, 'D') for i in range(5)])
        else:
            pools.append([0.5, 1.5, 2.5, 3.5])

    def subtree(d, budget):
        # returns list of tuples of length depth-d
        pool = pools[d]
        k = draw(st.integers(1, min(len(pool), max(1, budget))))
        labs = draw(st.permutations(pool))[:k]
        out = []
        for lab in labs:
            if d == depth - 1:
                out.append((lab,))
            else:
                for t in subtree(d + 1, max(1, budget // k)):
                    out.append((lab,) + t)
        return out

    labels = subtree(0, n if n is not None else max_leaves)
    if n is not None:
        # adjust to exactly n leaves by trimming or failing over to a product-free extension
        if len(labels) >= n:
            labels = labels[:n]
        else:
            return None
    return labels


@st.composite
def tree_labels_n(draw, n, depth=None):
    """Exactly n tree-ordered tuples (n >= 1)."""
    depth = depth or draw(st.sampled_from([2, 2, 3]))
    kinds = [draw(st.sampled_from(['str', 'int', 'date'])) for _ in range(depth)]
    pools = {'str': ['a', 'b', 'c', 'd', 'e', 'f'], 'int': [1, 2, 3, 4, 10, 20],
             'date': [np.datetime64(18000 + i, 'D') for i in range(6)]}
    # draw outer-to-inner group sizes
    labels = [()]
    for d in range(depth):
        pool = pools[kinds[d]]
        new = []
        if d == depth - 1:
            # distribute n leaves over len(labels) parents, each >= 1
            p = len(labels)
            sizes = [1] * p
            for _ in range(n - p):
                sizes[draw(st.integers(0, p - 1))] += 1
            for parent, k in zip(labels, sizes):
                k = min(k, len(pool))
                for lab in draw(st.permutations(pool))[:k]:
                    new.append(parent + (lab,))
        else:
            maxp = max(1, min(n, 4))
            for parent in labels:
                k = draw(st.integers(1, min(len(pool), maxp)))
                for lab in draw(st.permutations(pool))[:k]:
                    new.append(parent + (lab,))
            if len(new) > n:
                new = new[:n]
        labels = new
    # pool exhaustion can leave fewer than n leaves: pad under fresh outer labels
    i = 0
    while len(labels) < n:
        base = labels[-1]
        outer = ('zz%d' % i) if kinds[0] == 'str' else (1000 + i if kinds[0] == 'int' else np.datetime64(19000 + i, 'D'))
        labels.append((outer,) + base[1:])
        i += 1
    return labels[:n]


@st.composite
def index_recipe(draw, n, kinds=('auto', 'int', 'str', 'float', 'date', 'mixed', 'ih', 'tuple'), name=True):
    kind = draw(st.sampled_from(kinds))
    rec = {'kind': kind}
    if kind == 'auto':
        rec['labels'] = list(range(n))
    elif kind == 'ih':
        if n == 0:
            rec['kind'] = 'str'
            rec['labels'] = []
        else:
            rec['labels'] = draw(tree_labels_n(n))
    else:
        rec['labels'] = draw(flat_labels(n, kind))
    if name and kind != 'auto' and draw(st.booleans()):
        rec['name'] = draw(st.sampled_from(['nm', 'idx', ('t', 1), 0]))
    else:
        rec['name'] = None
    return rec


def build_index(rec, go=False, for_frame=False):
    """Index object for a recipe; for 'auto' returns None when for_frame (let the container
    build its IndexAutoFactory index)."""
    kind = rec['kind']
    labels = rec['labels']
    name = rec.get('name')
    if kind == 'auto':
        if for_frame:
            return None
        cls = sf.IndexGO if go else sf.Index
        return cls(sf.core.index_auto.PositionsAllocator.get(len(labels)), loc_is_iloc=True, name=name)
    if kind == 'ih':
        cls = sf.IndexHierarchyGO if go else sf.IndexHierarchy
        if not labels:
            return cls.from_labels(labels, name=name, depth_reference=rec.get('depth', 2))
        # datetime64 levels use the documented datetime-typed index class for that level
        ctors = [sf.IndexDate if all(isinstance(t[d], np.datetime64) for t in labels) else sf.Index
                 for d in range(len(labels[0]))]
        if any(c is sf.IndexDate for c in ctors):
            return cls.from_labels(labels, name=name, index_constructors=ctors)
        return cls.from_labels(labels, name=name)
    if kind == 'date':
        cls = sf.IndexDateGO if go else sf.IndexDate
        return cls(labels, name=name)
    cls = sf.IndexGO if go else sf.Index
    if kind in ('tuple', 'mixed'):
        a = np.empty(len(labels), dtype=object)
        for i, v in enumerate(labels):
            a[i] = v
        return cls(a, name=name)
    return cls(labels, name=name)


def freeze(a):
    a = np.array(a)
    a.flags.writeable = False
    return a


def build_frame(rec, cls=None):
    cls = cls or sf.Frame
    blks = [freeze(b) for b in rec['blocks']]
    n = len(rec['index']['labels'])
    m = len(rec['columns']['labels'])
    tb = sf.TypeBlocks.from_blocks(blks, shape_reference=(n, m))
    go = cls is sf.FrameGO
    index = build_index(rec['index'], for_frame=True)
    columns = build_index(rec['columns'], go=go, for_frame=True)
    return cls(tb, index=index, columns=columns, name=rec.get('name'), own_data=True,
               own_index=index is not None, own_columns=columns is not None)


def build_series(rec, cls=None):
    cls = cls or sf.Series
    index = build_index(rec['index'], for_frame=True)
    return cls(freeze(rec['values']), index=index, name=rec.get('name'), own_index=index is not None)


@st.composite
def frame_recipe(draw, min_rows=0, max_rows=6, min_cols=0, max_cols=6, kinds=KINDS_BASIC,
                 index_kinds=('auto', 'int', 'str', 'date', 'ih'), column_kinds=('auto', 'int', 'str', 'ih'),
                 missing=True, boundary=False, max_width=None):
    n = draw(st.integers(min_rows, max_rows))
    m = draw(st.integers(min_cols, max_cols))
    blks = draw(blocks(n, m, kinds, missing=missing, boundary=boundary, max_width=max_width))
    return {'blocks': blks,
            'index': draw(index_recipe(n, index_kinds)),
            'columns': draw(index_recipe(m, column_kinds)),
            'name': draw(st.sampled_from([None, None, 'fname', 7]))}


@st.composite
def series_recipe(draw, min_size=0, max_size=8, kinds=KINDS_BASIC,
                  index_kinds=('auto', 'int', 'str', 'float', 'date', 'mixed', 'ih'), missing=True, boundary=False):
    n = draw(st.integers(min_size, max_size))
    kind = draw(st.sampled_from(kinds))
    return {'values': draw(column(kind, n, missing=missing, boundary=boundary)),
            'index': draw(index_recipe(n, index_kinds)),
            'name': draw(st.sampled_from([None, None, 'sname', 3]))}


# ---------------------------------------------------------------------------------------------
# keys


@st.composite
def slices(draw, n, steps=(None, 1, 2, 3, -1, -2, -3)):
    lo, hi = -n - 2, n + 2
    start = draw(st.one_of(st.none(), st.integers(lo, hi)))
    stop = draw(st.one_of(st.none(), st.integers(lo, hi)))
    step = draw(st.sampled_from(steps))
    return slice(start, stop, step)


@st.composite
def iloc_key(draw, n, allow_scalar=True, allow_oob=False):
    """Positional key valid for an axis of length n (NumPy semantics)."""
    # (Hypothesis pins late draws to their minimal choice for a share of its examples: the minimal key of every
    # kind is a non-empty selection; empty selections stay reachable through ordinary draws)
    opts = ['list', 'slice', 'bool', 'null']
    if n > 0 and allow_scalar:
        opts.append('int')
        opts.append('int')
    if n >= 3:
        opts.append('range_perm')
    kind = draw(st.sampled_from(opts))
    if kind == 'range_perm':
        # a list covering one contiguous range of positions, nearly sorted or fully permuted (fast paths for
        # contiguous keys must not mistake these for slices)
        a = draw(st.integers(0, n - 3))
        b = draw(st.integers(a + 3, n))
        k = list(range(a, b))
        if draw(st.booleans()):
            i = draw(st.integers(0, len(k) - 2))
            k[i], k[i + 1] = k[i + 1], k[i]
        else:
            k = list(draw(st.permutations(k)))
        return k if draw(st.booleans()) else np.array(k, dtype=np.int64)
    if kind == 'int':
        return draw(st.integers(-n, n - 1))
    if kind == 'slice':
        return draw(slices(n))
    if kind == 'null':
        return slice(None)
    if kind == 'list':
        if n == 0:
            return []
        k = draw(st.lists(st.integers(-n, n - 1), min_size=0 if draw(st.integers(0, 7)) == 7 else 1, max_size=n, unique_by=lambda i: i % n))
        if draw(st.booleans()):
            return np.array(k, dtype=np.int64)
        return k
    mask = [not b for b in draw(st.lists(st.booleans(), min_size=n, max_size=n))]
    return np.array(mask, dtype=bool)


def positions_of(key, n):
    """Reference (Python/range semantics) positions selected by a positional key; returns
    (positions, scalar?)."""
    if isinstance(key, (int, np.integer)) and not isinstance(key, (bool, np.bool_)):
        k = int(key)
        if k < -n or k >= n:
            raise IndexError(k)
        return [k % n], True
    if isinstance(key, slice):
        return list(range(*key.indices(n))), False
    if isinstance(key, np.ndarray) and key.dtype == bool:
        if len(key) != n:
            raise IndexError('mask length')
        return [i for i, b in enumerate(key.tolist()) if b], False
    if isinstance(key, list) and len(key) and all(isinstance(b, (bool, np.bool_)) for b in key):
        if len(key) != n:
            raise IndexError('mask length')
        return [i for i, b in enumerate(key) if b], False
    out = []
    for k in (key.tolist() if isinstance(key, np.ndarray) else key):
        k = int(k)
        if k < -n or k >= n:
            raise IndexError(k)
        out.append(k % n)
    return out, False


def is_tree_order(labels):
    """True when a list of label tuples can be held by an IndexHierarchy in this order:
    at every depth the tuples sharing a prefix are contiguous."""
    if not labels:
        return True
    depth = len(labels[0])
    from vf.base import canon
    lab = [canon(t) for t in labels]
    if len(set(lab)) != len(lab):
        return False
    for d in range(1, depth):
        seen = set()
        prev = None
        for t in lab:
            pre = t[:d]
            if pre != prev:
                if pre in seen:
                    return False
                seen.add(pre)
                prev = pre
    return True
