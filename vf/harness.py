"""Collect-then-shrink runner shared by all property modules.

A property module exposes ``PID`` and ``SUBS`` (a list of ``Sub``).  Each sub-check has a
Hypothesis strategy producing a *case* (plain picklable data: dicts, lists, ndarrays, slices —
never live static-frame containers) and ``check(case)`` which returns an info dict
``{'nt': bool, 'cls': [class names]}`` or raises ``Failure`` / ``Discard``.

Phase 1 (collect): every generated case is executed; failures are bucketed by
``tag(case, failure)`` (a named known-finding class) or by a generic signature
(sub-check, mismatch kind, innermost static_frame frame).  The search continues past failures.
Phase 2 (shrink): for each bucket that is not listed in known_findings.json Hypothesis is re-run
raising only for that bucket, so its shrinker minimises the case; the minimal case is written
as the replay file and a VIOLATION line is printed.
"""
import base64
import hashlib
import json
import multiprocessing
import os
import pickle
import sys
import time
import traceback

from hypothesis import HealthCheck, Phase, given, seed, settings

from vf.base import VERIF_DIR, Discard, Failure, short

KNOWN_PATH = os.path.join(VERIF_DIR, 'known_findings.json')
OUT_DIR = os.environ.get('VERIF_OUT') or VERIF_DIR  # where evidence and new replays are written (sensitivity runs redirect it)
NSHARDS = int(os.environ.get('VERIF_SHARDS', '16'))
SHRINK_BUDGET_S = float(os.environ.get('VERIF_SHRINK_S', '45'))


class Sub:
    def __init__(self, name, strategy, check, quick, thorough, tag=None, rule='', thorough_strategy=None, enum=None):
        self.name = name
        self.strategy = strategy
        self.check = check
        self.quick = quick
        self.thorough = thorough
        self.tag = tag or (lambda case, failure: None)
        self.rule = rule
        self.thorough_strategy = thorough_strategy
        self.enum = enum  # callable(tier) -> iterable of cases: complete enumeration instead of random generation


class _Abort(BaseException):
    pass


def _library_raised(exc):
    """True when the innermost traceback frame is library (static_frame / numpy) code reached from a check,
    i.e. the library raised while the check was observing a result (not a bug in the harness itself)."""
    tb = traceback.extract_tb(exc.__traceback__)
    if not tb:
        return None
    inner = tb[-1].filename
    if os.sep + 'vf' + os.sep in inner or 'hypothesis' in inner:
        return None
    for fr in reversed(tb):
        if 'static_frame' + os.sep + 'core' in fr.filename:
            return '%s:%s' % (os.path.basename(fr.filename), fr.name)
    return None


def _as_failure(exc):
    where = _library_raised(exc)
    if where is None:
        return None
    return Failure('raised-in-observation:%s' % type(exc).__name__, 'the library raised %r while a result was being read' % (exc,), where)


def case_key(case):
    try:
        return hashlib.sha1(pickle.dumps(case, protocol=4)).hexdigest()
    except Exception:  # noqa: BLE001
        return hashlib.sha1(repr(case).encode()).hexdigest()


def jsonable(x, depth=0):
    """Readable JSON rendering of a case for evidence samples / replay files."""
    import numpy as np
    if depth > 8:
        return short(x, 80)
    if isinstance(x, dict):
        return {str(k): jsonable(v, depth + 1) for k, v in x.items()}
    if isinstance(x, (list, tuple)):
        return [jsonable(v, depth + 1) for v in x]
    if isinstance(x, np.ndarray):
        return {'ndarray': str(x.dtype), 'shape': list(x.shape), 'data': jsonable(x.tolist() if x.dtype.kind not in 'mM' else x.astype(str).tolist(), depth + 1)}
    if isinstance(x, (bool, int, str)) or x is None:
        return x
    if isinstance(x, float):
        return x if x == x and abs(x) != float('inf') else repr(x)
    if isinstance(x, slice):
        return 'slice(%r,%r,%r)' % (x.start, x.stop, x.step)
    return short(x, 120)


class Stats:
    def __init__(self):
        self.evals = 0
        self.discards = {}
        self.classes = {}
        self.nt_keys = set()
        self.samples = []
        self.buckets = {}  # sig -> dict(count, tag, case, failure info)
        self.harness_errors = []

    def merge(self, other):
        self.evals += other.evals
        for k, v in other.discards.items():
            self.discards[k] = self.discards.get(k, 0) + v
        for k, v in other.classes.items():
            self.classes[k] = self.classes.get(k, 0) + v
        self.nt_keys |= other.nt_keys
        self.samples.extend(other.samples)
        for sig, b in other.buckets.items():
            if sig in self.buckets:
                self.buckets[sig]['count'] += b['count']
                if len(b['pickle']) < len(self.buckets[sig]['pickle']):
                    for k in ('pickle', 'kind', 'detail', 'where', 'seed'):
                        self.buckets[sig][k] = b[k]
            else:
                self.buckets[sig] = b
        self.harness_errors.extend(other.harness_errors)


def _sig(sub, case, f):
    t = None
    try:
        t = sub.tag(case, f)
    except Exception:  # noqa: BLE001 - a broken classifier must not hide a failure
        t = None
    if t:
        return 'tag:' + t, t
    return '%s|%s|%s' % (sub.name, f.kind, f.where), None


def _settings(n, shrink=False):
    return settings(max_examples=n, database=None, deadline=None, derandomize=False,
                    report_multiple_bugs=False, suppress_health_check=list(HealthCheck),
                    phases=[Phase.generate, Phase.shrink] if shrink else [Phase.generate])


def _collect(sub, n, sd, tier='quick'):
    stats = Stats()
    strategy = sub.thorough_strategy if (tier == 'thorough' and sub.thorough_strategy is not None) else sub.strategy

    def body(case):
        stats.evals += 1
        try:
            info = sub.check(case) or {}
        except Discard as d:
            stats.discards[d.reason] = stats.discards.get(d.reason, 0) + 1
            return
        except Failure as f:
            sig, tag = _sig(sub, case, f)
            bkey = sub.name + '::' + sig
            b = stats.buckets.get(bkey)
            pk = pickle.dumps(case, protocol=4)
            if b is None:
                stats.buckets[bkey] = dict(count=1, tag=tag, sub=sub.name, sig=sig, pickle=pk, kind=f.kind,
                                          detail=f.detail[:2000], where=f.where, seed=sd, n=n)
            else:
                b['count'] += 1
                if len(pk) < len(b['pickle']):
                    b.update(pickle=pk, kind=f.kind, detail=f.detail[:2000], where=f.where)
            return
        except Exception as e:  # noqa: BLE001 - harness bug, reported as exit 2
            if type(e).__module__.startswith('hypothesis'):
                raise
            f = _as_failure(e)
            if f is not None:
                sig, tag = _sig(sub, case, f)
                bkey = sub.name + '::' + sig
                pk = pickle.dumps(case, protocol=4)
                b = stats.buckets.get(bkey)
                if b is None:
                    stats.buckets[bkey] = dict(count=1, tag=tag, sub=sub.name, sig=sig, pickle=pk, kind=f.kind, detail=f.detail[:2000], where=f.where, seed=sd, n=n)
                else:
                    b['count'] += 1
                    if len(pk) < len(b['pickle']):
                        b.update(pickle=pk, kind=f.kind, detail=f.detail[:2000], where=f.where)
                return
            if len(stats.harness_errors) < 5:
                stats.harness_errors.append('%s: %s\n%s\ncase=%s' % (sub.name, e, traceback.format_exc()[-1500:], short(case, 800)))
            return
        for c in info.get('cls', ()):
            stats.classes[c] = stats.classes.get(c, 0) + 1
        if info.get('nt'):
            stats.nt_keys.add(case_key(case))
            if len(stats.samples) < 3 or (stats.evals % 97 == 0 and len(stats.samples) < 6):
                stats.samples.append({'sub': sub.name, 'case': jsonable(case)})

    test = seed(sd)(_settings(n)(given(strategy)(body)))
    try:
        test()
    except Exception as e:  # noqa: BLE001
        stats.harness_errors.append('%s: hypothesis run failed: %r\n%s' % (sub.name, e, traceback.format_exc()[-1500:]))
    return stats


def _collect_enum(sub, tier, shard, nshards):
    """Run every case of a finite enumeration (sharded by index modulo nshards)."""
    stats = Stats()
    for idx, case in enumerate(sub.enum(tier)):
        if idx % nshards != shard:
            continue
        stats.evals += 1
        try:
            info = sub.check(case) or {}
        except Discard as d:
            stats.discards[d.reason] = stats.discards.get(d.reason, 0) + 1
            continue
        except Failure as f:
            sig, tag = _sig(sub, case, f)
            bkey = sub.name + '::' + sig
            b = stats.buckets.get(bkey)
            pk = pickle.dumps(case, protocol=4)
            if b is None:
                stats.buckets[bkey] = dict(count=1, tag=tag, sub=sub.name, sig=sig, pickle=pk, kind=f.kind,
                                           detail=f.detail[:2000], where=f.where, seed=0, enum=True)
            else:
                b['count'] += 1
                if len(pk) < len(b['pickle']):
                    b.update(pickle=pk, kind=f.kind, detail=f.detail[:2000], where=f.where)
            continue
        except Exception as e:  # noqa: BLE001
            f = _as_failure(e)
            if f is not None:
                sig, tag = _sig(sub, case, f)
                bkey = sub.name + '::' + sig
                if bkey not in stats.buckets:
                    stats.buckets[bkey] = dict(count=1, tag=tag, sub=sub.name, sig=sig, pickle=pickle.dumps(case, protocol=4), kind=f.kind,
                                               detail=f.detail[:2000], where=f.where, seed=0, enum=True)
                else:
                    stats.buckets[bkey]['count'] += 1
                continue
            if len(stats.harness_errors) < 5:
                stats.harness_errors.append('%s: %s\n%s\ncase=%s' % (sub.name, e, traceback.format_exc()[-1500:], short(case, 800)))
            continue
        for c in info.get('cls', ()):
            stats.classes[c] = stats.classes.get(c, 0) + 1
        if info.get('nt'):
            stats.nt_keys.add(case_key(case))
            if len(stats.samples) < 2:
                stats.samples.append({'sub': sub.name, 'case': jsonable(case)})
    return stats


def _shrink(sub, n, sd, target_sig, first_pickle, tier='quick'):
    """Re-run with shrinking, raising only for target_sig; return the smallest failing case."""
    best = {'pk': first_pickle}
    t0 = time.time()
    seen = {'hit': False}

    def body(case):
        if seen['hit'] and time.time() - t0 > SHRINK_BUDGET_S:
            raise _Abort()
        try:
            sub.check(case)
        except Discard:
            return
        except Failure as f:
            sig, _ = _sig(sub, case, f)
            if sig == target_sig:
                seen['hit'] = True
                pk = pickle.dumps(case, protocol=4)
                if len(pk) <= len(best['pk']):
                    best['pk'] = pk
                    best['f'] = f
                raise
            return
        except Exception as e:  # noqa: BLE001
            if type(e).__module__.startswith('hypothesis'):
                raise
            f = _as_failure(e)
            if f is not None:
                sig, _ = _sig(sub, case, f)
                if sig == target_sig:
                    seen['hit'] = True
                    pk = pickle.dumps(case, protocol=4)
                    if len(pk) <= len(best['pk']):
                        best['pk'] = pk
                    raise f
            return

    strategy = sub.thorough_strategy if (tier == 'thorough' and sub.thorough_strategy is not None) else sub.strategy
    test = seed(sd)(_settings(n, shrink=True)(given(strategy)(body)))
    try:
        test()
    except _Abort:
        pass
    except BaseException:  # noqa: BLE001 - the expected Failure re-raised by Hypothesis
        pass
    return pickle.loads(best['pk'])


def _shard_job(args):
    modname, subname, n, sd, tier = args
    import importlib
    mod = importlib.import_module(modname)
    sub = next(s for s in mod.SUBS if s.name == subname)
    if isinstance(n, tuple):  # ('enum', shard, nshards)
        return subname, _collect_enum(sub, tier, n[1], n[2])
    st = _collect(sub, n, sd, tier)
    return subname, st


def load_known(pid):
    if not os.path.exists(KNOWN_PATH):
        return {}
    data = json.load(open(KNOWN_PATH))
    return {e['tag']: e for e in data.get('findings', []) if e['property'] == pid}


def write_replay(pid, sub, sig, case, f_kind, f_detail, f_where, prefix=''):
    d = os.path.join(OUT_DIR, 'replays', pid)
    os.makedirs(d, exist_ok=True)
    h = hashlib.sha1(sig.encode()).hexdigest()[:10]
    path = os.path.join(d, '%s%s_%s.json' % (prefix, sub.name if hasattr(sub, 'name') else sub, h))
    doc = {'property': pid, 'sub': sub.name if hasattr(sub, 'name') else sub, 'signature': sig,
           'kind': f_kind, 'where': f_where, 'detail': f_detail[:4000], 'case': jsonable(case),
           'case_pickle_b64': base64.b64encode(pickle.dumps(case, protocol=4)).decode()}
    with open(path, 'w') as fh:
        json.dump(doc, fh, indent=1, default=str)
    return path


RERUN_TRIALS = 40


def _disturb_allocator(trial):
    """Allocate and release arrays of several sizes filled with non-zero bytes (then with zeros), so that a later
    np.empty of the code under test is handed memory with other contents than last time."""
    import numpy as _np
    fill = 0xFF if trial % 2 == 0 else 0x00
    keep = []
    for size in (8, 16, 24, 32, 48, 64, 96, 128, 256, 512, 1024, 4096):
        for _ in range(3):
            a = _np.empty(size, dtype=_np.uint8)
            a.fill(fill if size % 16 else (fill ^ 0x01))
            keep.append(a)
    del keep


def run_case(sub, case):
    """Run one case outside Hypothesis. Returns (status, sig, failure) with status in
    {'pass','discard','fail'}.  VERIF_REPRO tells timing-sensitive checks (C18) that a recorded case is being
    reproduced, so that they may enforce their completion schedule more strongly."""
    os.environ['VERIF_REPRO'] = '1'
    try:
        return _run_case(sub, case)
    finally:
        os.environ.pop('VERIF_REPRO', None)


def _run_case(sub, case):
    try:
        sub.check(case)
    except Discard:
        return 'discard', None, None
    except Failure as f:
        sig, tag = _sig(sub, case, f)
        return 'fail', sig, f
    except Exception as e:  # noqa: BLE001
        f = _as_failure(e)
        if f is None:
            raise
        sig, tag = _sig(sub, case, f)
        return 'fail', sig, f
    return 'pass', None, None


def replay_file(mod, path):
    doc = json.load(open(path))
    sub = next(s for s in mod.SUBS if s.name == doc['sub'])
    case = pickle.loads(base64.b64decode(doc['case_pickle_b64']))
    return (sub, case) + run_case(sub, case)


def run_property(mod, tier, sd, replay=None, only=None):
    pid = mod.PID
    t0 = time.time()
    known = load_known(pid)
    violations = []
    known_hit = {}
    notes = []

    if replay:
        sub, case, status, sig, f = replay_file(mod, replay)
        if status == 'fail':
            tag = sig[4:] if sig.startswith('tag:') else None
            if tag in known:
                print('KNOWN-FINDING: property=%s %s: %s' % (pid, tag, known[tag]['what']))
                return 0
            print('replay fails: %s %s' % (f.kind, f.detail[:1000]))
            print('VIOLATION property=%s replay=%s' % (pid, os.path.abspath(replay)))
            return 1
        print('replay %s: %s' % (replay, status))
        return 0

    # tier 0: committed replays.  known_* must still carry their tag; fixed_* must pass.
    rdir = os.path.join(VERIF_DIR, 'replays', pid)
    replayed = 0
    if os.path.isdir(rdir):
        for fn in sorted(os.listdir(rdir)):
            if not fn.endswith('.json') or not (fn.startswith('known_') or fn.startswith('fixed_')):
                continue
            path = os.path.join(rdir, fn)
            try:
                sub, case, status, sig, f = replay_file(mod, path)
            except Exception as e:  # noqa: BLE001
                print('HARNESS-ERROR replay %s: %r' % (path, e))
                return 2
            replayed += 1
            if status == 'fail':
                tag = sig[4:] if sig.startswith('tag:') else None
                if tag in known:
                    known_hit[tag] = known_hit.get(tag, 0) + 1
                else:
                    violations.append((sig, path, f))
            elif fn.startswith('known_'):
                notes.append('known-finding replay %s no longer fails (%s)' % (fn, status))

    total = Stats()
    per_sub = {}
    subs = [s for s in mod.SUBS if (only is None or s.name in only)]
    jobs = []
    for sub in subs:
        if sub.enum is not None:
            k = NSHARDS if tier == 'thorough' else 4
            for q in range(k):
                jobs.append((mod.__name__, sub.name, ('enum', q, k), sd, tier))
            continue
        n = sub.quick if tier == 'quick' else sub.thorough
        if n <= 0:
            continue
        if tier == 'thorough' and NSHARDS > 1 and n >= NSHARDS * 4:
            per = n // NSHARDS
            for k in range(NSHARDS):
                jobs.append((mod.__name__, sub.name, per, sd * 1000 + k + 1, tier))
        elif tier == 'quick' and n >= 500 and os.environ.get('VERIF_QUICK_PARALLEL', '1') == '1':
            # quick tier: up to 8 shards per sub-check (seeds sd*1000+k) so that the case counts can be generous
            qs = min(8, n // 250)
            per = n // qs
            for k in range(qs):
                jobs.append((mod.__name__, sub.name, per, sd * 1000 + k + 1, tier))
        else:
            jobs.append((mod.__name__, sub.name, n, sd, tier))
    # NOTE: ProcessPoolExecutor workers are not daemonic, so checks may start worker pools themselves (C17, C18)
    from concurrent.futures import ProcessPoolExecutor
    if tier == 'thorough' and len(jobs) > 1:
        ctx = multiprocessing.get_context('fork')
        with ProcessPoolExecutor(min(NSHARDS, len(jobs)), mp_context=ctx) as pool:
            results = list(pool.map(_shard_job, jobs))
    elif tier == 'quick' and len(jobs) > 1 and os.environ.get('VERIF_QUICK_PARALLEL', '1') == '1':
        ctx = multiprocessing.get_context('fork')
        with ProcessPoolExecutor(min(16, len(jobs)), mp_context=ctx) as pool:
            results = list(pool.map(_shard_job, jobs))
    else:
        results = [_shard_job(j) for j in jobs]
    for subname, st in results:
        per_sub.setdefault(subname, Stats()).merge(st)
        total.merge(st)

    if total.harness_errors:
        for h in total.harness_errors[:5]:
            print('HARNESS-ERROR', h)
        write_evidence(mod, tier, sd, total, per_sub, known_hit, violations, time.time() - t0, notes, replayed)
        return 2

    subs_by_name = {s.name: s for s in subs}
    flaky = []
    for bkey, b in sorted(total.buckets.items()):
        sig = b['sig']
        if b['tag'] and b['tag'] in known:
            known_hit[b['tag']] = known_hit.get(b['tag'], 0) + b['count']
            continue
        sub = subs_by_name[b['sub']]
        n = b.get('n') or (sub.quick if tier == 'quick' else max(sub.thorough // NSHARDS, sub.quick))
        case = pickle.loads(b['pickle'])
        try:
            if not b.get('enum'):
                case = _shrink(sub, n, b['seed'], sig, b['pickle'], tier)
        except Exception as e:  # noqa: BLE001
            notes.append('shrink failed for %s: %r' % (sig, e))
        status, sig2, f = run_case(sub, case)
        if status != 'fail':
            case = pickle.loads(b['pickle'])
            status, sig2, f = run_case(sub, case)
        if status != 'fail':
            # The oracle rejected this case during generation but accepts it now.  A result that changes between two
            # executions of the same case is itself a defect of the code under test when it comes from memory the
            # library did not initialise: the recorded case is re-run with the allocator disturbed between the trials,
            # and counts as a violation as soon as the oracle rejects it again.
            case = pickle.loads(b['pickle'])
            fails = 0
            for trial in range(RERUN_TRIALS):
                _disturb_allocator(trial)
                status, sig2, f2 = run_case(sub, case)
                if status == 'fail':
                    fails += 1
                    f = f2
                    if fails >= 2:
                        break
            if fails:
                f.detail = '%s [intermittent: the same case passed on other executions (%d of %d re-runs failed)]' % (f.detail, fails, trial + 1)
                status = 'fail'
        if status != 'fail':
            notes.append('bucket %s did not reproduce outside hypothesis in %d re-runs (flaky?)' % (sig, RERUN_TRIALS + 2))
            flaky.append((sig, b['detail'][:600]))
            try:
                write_replay(pid, sub, sig, pickle.loads(b['pickle']), b['kind'], b['detail'], b['where'], prefix='flaky_')
            except Exception:  # noqa: BLE001
                pass
            continue
        path = write_replay(pid, sub, sig, case, f.kind, f.detail, f.where)
        violations.append((sig, path, f))

    if flaky and not violations:
        # nothing reproducible was found: the failures seen once cannot be told from harness noise -> not a verdict
        for sig, detail in flaky:
            print('HARNESS-ERROR non-reproducible failure bucket %s: first detail: %s' % (sig, detail))
        write_evidence(mod, tier, sd, total, per_sub, known_hit, violations, time.time() - t0, notes, replayed)
        return 2

    for tag, cnt in sorted(known_hit.items()):
        print('KNOWN-FINDING: property=%s %s: %s (reproduced %d times this run)' % (pid, tag, known[tag]['what'], cnt))
    for note in notes:
        print('NOTE', note)
    for sig, path, f in violations:
        print('failure bucket %s: %s' % (sig, short(f.detail, 1500)))
        print('VIOLATION property=%s replay=%s' % (pid, path))
    write_evidence(mod, tier, sd, total, per_sub, known_hit, violations, time.time() - t0, notes, replayed)
    print('%s %s seed=%d evals=%d nontrivial=%d discards=%d known=%d violations=%d wall=%.1fs' % (
        pid, tier, sd, total.evals, len(total.nt_keys), sum(total.discards.values()),
        sum(known_hit.values()), len(violations), time.time() - t0))
    return 1 if violations else 0


def write_evidence(mod, tier, sd, total, per_sub, known_hit, violations, wall, notes, replayed):
    pid = mod.PID
    rules = []
    for s in mod.SUBS:
        if s.rule:
            rules.append('[%s] %s' % (s.name, s.rule))
    ev = {
        'property_id': pid,
        'tier': tier,
        'seed': int(sd),
        'level': 'exploration',
        'coverage': {
            'evaluations': int(total.evals),
            'distinct_nontrivial': len(total.nt_keys),
            'rule': getattr(mod, 'RULE', '') + ' ' + ' '.join(rules),
            'samples': total.samples[:12] or [{'note': 'no non-trivial sample recorded'}],
            'classes': dict(sorted(total.classes.items())),
            'discarded': dict(sorted(total.discards.items())),
            'per_sub': {k: {'evaluations': v.evals, 'distinct_nontrivial': len(v.nt_keys),
                            'discarded': sum(v.discards.values())} for k, v in sorted(per_sub.items())},
            'buckets': {sig: {'count': b['count'], 'known_tag': b['tag'], 'kind': b['kind'], 'where': b['where']}
                        for sig, b in sorted(total.buckets.items())},
            'known_findings_reproduced': dict(sorted(known_hit.items())),
            'committed_replays_run': replayed,
            'notes': notes,
            'exhaustive': bool(getattr(mod, 'EXHAUSTIVE', {}).get(tier, False)),
        },
        'assumptions': list(getattr(mod, 'ASSUMPTIONS', [])),
        'wall_s': round(wall, 2),
        'violations': len(violations),
    }
    extra = getattr(mod, 'extra_evidence', None)
    if extra:
        try:
            ev['coverage'].update(extra(tier))
        except Exception as e:  # noqa: BLE001
            ev['coverage']['extra_error'] = repr(e)
    d = os.path.join(OUT_DIR, 'evidence')
    os.makedirs(d, exist_ok=True)
    with open(os.path.join(d, '%s.json' % pid), 'w') as fh:
        json.dump(ev, fh, indent=1, default=str)
