"""Observation of containers into plain comparable data, plus comparison helpers."""
import numpy as np

from vf.base import Failure, Raised, arr_list, canon, eq, is_missing, sf, short


def labels_of(ix):
    """Canonical labels of an index in order (tuples for hierarchical)."""
    v = ix.values
    if v.ndim == 2:
        # per-depth typed arrays keep datetime64 typed; .values would objectify
        depth = v.shape[1]
        cols = [arr_list(ix.values_at_depth(d)) for d in range(depth)]
        return [tuple(canon(c[i]) for c in cols) for i in range(v.shape[0])]
    return [canon(x) for x in arr_list(v)]


def frame_cols(f):
    """Per-column arrays with their own dtype."""
    return list(f._blocks.axis_values(0)) if f.shape[1] else []


def snap(x):
    """Deep, hashable snapshot of a container (class, name, labels, dtypes, values)."""
    if isinstance(x, sf.Frame):
        cols = frame_cols(x)
        return ('F', type(x).__name__, canon_name(x.name), x.shape, tuple(labels_of(x.index)),
                tuple(labels_of(x.columns)), canon_name(x.index.name), canon_name(x.columns.name),
                tuple(str(c.dtype) for c in cols), tuple(tuple(canon(e) for e in arr_list(c)) for c in cols))
    if isinstance(x, sf.Series):
        return ('S', type(x).__name__, canon_name(x.name), x.shape, tuple(labels_of(x.index)),
                canon_name(x.index.name), str(x.values.dtype), tuple(canon(e) for e in arr_list(x.values)))
    if isinstance(x, sf.IndexHierarchy):
        return ('IH', type(x).__name__, canon_name(x.name), x.shape, tuple(labels_of(x)),
                tuple(str(d) for d in x.dtypes.values))
    if isinstance(x, sf.Index):
        return ('I', type(x).__name__, canon_name(x.name), x.shape, tuple(labels_of(x)), str(x.values.dtype))
    if isinstance(x, np.ndarray):
        return ('A', str(x.dtype), x.shape, tuple(canon(e) for e in (arr_list(x.ravel()))))
    return ('E', canon(x))


def canon_name(n):
    try:
        return canon(n)
    except Exception:  # noqa: BLE001
        return repr(n)


def result_kind(x):
    if isinstance(x, Raised):
        return 'raise'
    if isinstance(x, sf.Frame):
        return 'frame'
    if isinstance(x, sf.Series):
        return 'series'
    if isinstance(x, sf.IndexHierarchy):
        return 'ih'
    if isinstance(x, sf.Index):
        return 'index'
    if isinstance(x, np.ndarray):
        return 'array'
    return 'element'


def expect_labels(got_ix, want, what='labels'):
    got = labels_of(got_ix)
    want = [canon(w) for w in want]
    if len(got) != len(want) or not all(eq(g, w) for g, w in zip(got, want)):
        raise Failure('labels', '%s: expected %s got %s' % (what, short(want), short(got)))


LOOSE_MISSING = [False]


def _eqv(g, w):
    if eq(g, w):
        return True
    # a missing value stays missing (NaT -> None inside an object array is C07's business)
    return LOOSE_MISSING[0] and is_missing(g) and is_missing(w)


def expect_values(got, want, what='values'):
    """got/want: sequences of elements."""
    got = list(got)
    want = list(want)
    if len(got) != len(want):
        raise Failure('length', '%s: expected %d elements got %d (%s vs %s)' % (what, len(want), len(got), short(want), short(got)))
    for i, (g, w) in enumerate(zip(got, want)):
        if not _eqv(g, w):
            raise Failure('value', '%s[%d]: expected %r got %r (all: %s vs %s)' % (what, i, w, g, short(want), short(got)))


def expect_series(s, labels, values, what='series', name='__skip__', dtype=None):
    if not isinstance(s, sf.Series):
        raise Failure('kind', '%s: expected Series got %s' % (what, short(s)))
    expect_labels(s.index, labels, what + '.index')
    expect_values(arr_list(s.values), values, what + '.values')
    if name != '__skip__' and not eq(canon_name(s.name), canon(name)):
        raise Failure('name', '%s: expected name %r got %r' % (what, name, s.name))
    if dtype is not None and s.values.dtype != dtype:
        raise Failure('dtype', '%s: expected dtype %s got %s' % (what, dtype, s.values.dtype))


def expect_frame(f, index, columns, cols, what='frame', dtypes=None, name='__skip__'):
    """cols: per-column element lists."""
    if not isinstance(f, sf.Frame):
        raise Failure('kind', '%s: expected Frame got %s' % (what, short(f)))
    expect_labels(f.index, index, what + '.index')
    expect_labels(f.columns, columns, what + '.columns')
    if f.shape != (len(index), len(columns)):
        raise Failure('shape', '%s: shape %s vs labels (%d, %d)' % (what, f.shape, len(index), len(columns)))
    got = frame_cols(f)
    if len(got) != len(columns):
        raise Failure('shape', '%s: %d column arrays for %d column labels' % (what, len(got), len(columns)))
    for j, (g, w) in enumerate(zip(got, cols)):
        expect_values(arr_list(g), w, '%s col %d' % (what, j))
        if dtypes is not None and dtypes[j] is not None and g.dtype != dtypes[j]:
            raise Failure('dtype', '%s col %d: expected dtype %s got %s' % (what, j, dtypes[j], g.dtype))
    if name != '__skip__' and not eq(canon_name(f.name), canon(name)):
        raise Failure('name', '%s: expected name %r got %r' % (what, name, f.name))
