"""A table of single-container public operations with value-bearing generated arguments.
Used by C01 (immutability), C03 (layout differential) and C09 (derivations).

Each op is (name, args_strategy(n, m), fn(container, args)).  Args are plain data; positions
are reduced modulo the axis length inside ``fn`` so every draw is applicable.
"""
import copy
import pickle

import numpy as np
from hypothesis import strategies as st

from vf import gen
from vf.base import sf

FILLS = [0, 1, -1.5, 'zz', True, None, float('nan'), 2 ** 60]
DTYPES = ['int64', 'float64', 'object', 'bool', '<U5', 'float32', 'complex128', 'int8']
REDUCE = ['sum', 'prod', 'min', 'max', 'mean', 'median', 'std', 'var', 'all', 'any', 'cumsum', 'cumprod',
          'loc_min', 'loc_max', 'iloc_min', 'iloc_max', 'count']


def _axis():
    return st.integers(0, 1)


def _pos():
    return st.integers(0, 11)


def _fill():
    return st.sampled_from(FILLS)


def A(**kw):
    return st.fixed_dictionaries(kw)


def _col_labels(f):
    return list(f.columns)


def _key(f, a, axis):
    """Positional key on an axis from args (kinds: int, slice, list, bool)."""
    n = f.shape[axis]
    kind = a['kind']
    if n == 0:
        return slice(None)
    if kind == 'int':
        return a['i'] % n
    if kind == 'slice':
        return slice(a['i'] % (n + 1), a['j'] % (n + 2), a['step'])
    if kind == 'rslice':
        return slice(None, None, -1)
    if kind == 'list':
        k = sorted({a['i'] % n, a['j'] % n}, reverse=a['rev'])
        return k
    mask = [(((a['i'] >> q) & 1) == 1) for q in range(n)]
    return np.array(mask, dtype=bool)


def keyargs():
    return A(kind=st.sampled_from(['int', 'slice', 'rslice', 'list', 'bool']), i=st.integers(0, 40), j=st.integers(0, 40),
             step=st.sampled_from([None, 1, 2, -1]), rev=st.booleans())


def _exhaust(it, limit=400):
    out = []
    for i, x in enumerate(it):
        if i >= limit:
            break
        out.append(x)
    return out


def _func_sum(x):
    try:
        return x.sum() if hasattr(x, 'sum') else x
    except Exception:  # noqa: BLE001
        return len(x)


def _func_len(x):
    return len(x) if hasattr(x, '__len__') else 1


def _func_first(x):
    if isinstance(x, np.ndarray):
        return x[0] if len(x) else None
    if hasattr(x, 'iloc'):
        return x.iloc[0] if len(x) else None
    if isinstance(x, tuple):
        return x[0] if x else None
    return x


FUNCS = {'len': _func_len, 'first': _func_first}

FRAME_OPS = []


def op(name, args=None):
    def deco(fn):
        FRAME_OPS.append((name, (A() if args is None else args), fn))
        return fn
    return deco


@op('values')
def _(f, a):
    return f.values


@op('dtypes')
def _(f, a):
    return f.dtypes


@op('shape_etc')
def _(f, a):
    return (f.shape, f.ndim, f.size, len(f), f.nbytes >= 0, bool(f.shape[0] and f.shape[1]) and bool(f.__bool__) )


@op('transpose')
def _(f, a):
    return f.transpose()


@op('iloc', A(r=keyargs(), c=keyargs(), both=st.booleans()))
def _(f, a):
    if a['both']:
        return f.iloc[_key(f, a['r'], 0), _key(f, a['c'], 1)]
    return f.iloc[_key(f, a['r'], 0)]


@op('getitem', A(c=keyargs()))
def _(f, a):
    k = _key(f, a['c'], 1)
    cols = f.columns
    if isinstance(k, int):
        return f[cols.iloc[k]] if not isinstance(cols, sf.IndexHierarchy) else f[sf.ILoc[k]]
    return f[sf.ILoc[k]]


@op('loc', A(r=keyargs(), c=keyargs()))
def _(f, a):
    return f.loc[sf.ILoc[_key(f, a['r'], 0)], sf.ILoc[_key(f, a['c'], 1)]]


@op('iter_array', A(axis=_axis()))
def _(f, a):
    return _exhaust(f.iter_array(axis=a['axis']))


@op('iter_array_items', A(axis=_axis()))
def _(f, a):
    return _exhaust(f.iter_array_items(axis=a['axis']))


@op('iter_series', A(axis=_axis()))
def _(f, a):
    return _exhaust(f.iter_series(axis=a['axis']))


@op('iter_series_items', A(axis=_axis()))
def _(f, a):
    return _exhaust(f.iter_series_items(axis=a['axis']))


@op('iter_tuple', A(axis=_axis()))
def _(f, a):
    return _exhaust(f.iter_tuple(axis=a['axis'], constructor=tuple))


@op('iter_tuple_items', A(axis=_axis()))
def _(f, a):
    return _exhaust(f.iter_tuple_items(axis=a['axis'], constructor=tuple))


@op('iter_element')
def _(f, a):
    return _exhaust(f.iter_element())


@op('iter_element_items')
def _(f, a):
    return _exhaust(f.iter_element_items())


@op('iter_apply', A(axis=_axis(), fn=st.sampled_from(sorted(FUNCS)), which=st.sampled_from(['array', 'series', 'tuple'])))
def _(f, a):
    it = getattr(f, 'iter_' + a['which'])(axis=a['axis'])
    return it.apply(FUNCS[a['fn']])


@op('iter_element_apply', A(fn=st.sampled_from(['str', 'neg'])))
def _(f, a):
    fn = (lambda x: str(x)) if a['fn'] == 'str' else (lambda x: x if isinstance(x, str) or x is None else x * 2)
    return f.iter_element().apply(fn)


@op('items')
def _(f, a):
    return _exhaust(f.items())


@op('keys_values')
def _(f, a):
    return (list(f.keys()), f.index.values, f.columns.values, list(f.__iter__()), list(reversed(f)))


@op('to_pairs', A(axis=_axis()))
def _(f, a):
    return f.to_pairs(a['axis'])


@op('astype', A(dt=st.sampled_from(DTYPES)))
def _(f, a):
    return f.astype(a['dt'])


@op('astype_sel', A(dt=st.sampled_from(DTYPES), c=keyargs()))
def _(f, a):
    return f.astype[sf.ILoc[_key(f, a['c'], 1)]](a['dt'])


@op('fillna', A(v=_fill()))
def _(f, a):
    return f.fillna(a['v'])


@op('fillna_dir', A(d=st.sampled_from(['forward', 'backward']), limit=st.integers(0, 3), axis=_axis()))
def _(f, a):
    return getattr(f, 'fillna_' + a['d'])(a['limit'], axis=a['axis'])


@op('fillna_sided', A(d=st.sampled_from(['leading', 'trailing']), v=_fill(), axis=_axis()))
def _(f, a):
    return getattr(f, 'fillna_' + a['d'])(a['v'], axis=a['axis'])


@op('dropna', A(axis=_axis(), cond=st.sampled_from(['all', 'any'])))
def _(f, a):
    return f.dropna(axis=a['axis'], condition=np.all if a['cond'] == 'all' else np.any)


@op('isna')
def _(f, a):
    return (f.isna(), f.notna())


@op('reduce', A(fn=st.sampled_from(REDUCE), axis=_axis(), skipna=st.booleans()))
def _(f, a):
    if a['fn'] == 'count':
        return f.count(axis=a['axis'], skipna=a['skipna'])
    return getattr(f, a['fn'])(axis=a['axis'], skipna=a['skipna'])


@op('shift', A(r=st.integers(-3, 3), c=st.integers(-3, 3), v=_fill()))
def _(f, a):
    return f.shift(a['r'], a['c'], fill_value=a['v'])


@op('roll', A(r=st.integers(-3, 3), c=st.integers(-3, 3), ii=st.booleans(), ic=st.booleans()))
def _(f, a):
    return f.roll(a['r'], a['c'], include_index=a['ii'], include_columns=a['ic'])


@op('sort_values', A(i=_pos(), j=_pos(), two=st.booleans(), asc=st.booleans()))
def _(f, a):
    m = f.shape[1]
    if m == 0:
        return f.sort_index()
    labels = list(f.columns)
    key = labels[a['i'] % m]
    if a['two'] and m > 1 and a['j'] % m != a['i'] % m:
        key = [key, labels[a['j'] % m]]
    return f.sort_values(key, ascending=a['asc'])


@op('sort_values_axis0', A(i=_pos(), asc=st.booleans()))
def _(f, a):
    n = f.shape[0]
    if n == 0:
        return f.sort_columns()
    return f.sort_values(list(f.index)[a['i'] % n], ascending=a['asc'], axis=0)


@op('sort_index', A(asc=st.booleans()))
def _(f, a):
    return (f.sort_index(ascending=a['asc']), f.sort_columns(ascending=a['asc']))


@op('drop', A(r=keyargs(), c=keyargs(), which=st.integers(0, 2)))
def _(f, a):
    if a['which'] == 0:
        return f.drop.iloc[_key(f, a['r'], 0)]
    if a['which'] == 1:
        return f.drop.iloc[:, _key(f, a['c'], 1)]
    return f.drop.iloc[_key(f, a['r'], 0), _key(f, a['c'], 1)]


@op('mask', A(r=keyargs(), c=keyargs()))
def _(f, a):
    return f.mask.iloc[_key(f, a['r'], 0), _key(f, a['c'], 1)]


@op('masked_array', A(r=keyargs(), c=keyargs()))
def _(f, a):
    ma = f.masked_array.iloc[_key(f, a['r'], 0), _key(f, a['c'], 1)]
    return (np.array(ma.mask), np.array(ma.data))


@op('assign_element', A(r=keyargs(), c=keyargs(), v=_fill()))
def _(f, a):
    return f.assign.iloc[_key(f, a['r'], 0), _key(f, a['c'], 1)](a['v'])


@op('assign_col_array', A(c=_pos(), dt=st.sampled_from(['int64', 'float64', 'object', '<U2', 'bool'])))
def _(f, a):
    n, m = f.shape
    if m == 0:
        return f
    arr = np.arange(n).astype(a['dt']) if a['dt'] != '<U2' else np.array(['k%d' % (i % 10) for i in range(n)], dtype='<U2')
    return f.assign.iloc[:, a['c'] % m](arr)


@op('assign_bloc', A(bits=st.integers(0, 2 ** 30), v=_fill()))
def _(f, a):
    n, m = f.shape
    mask = np.array([((a['bits'] >> q) & 1) == 1 for q in range(n * m)], dtype=bool).reshape(n, m)
    return f.assign.bloc[mask](a['v'])


@op('assign_apply', A(c=keyargs()))
def _(f, a):
    return f.assign.iloc[:, _key(f, a['c'], 1)].apply(lambda x: x.isna() if hasattr(x, 'isna') else x)


@op('bloc', A(bits=st.integers(0, 2 ** 30)))
def _(f, a):
    n, m = f.shape
    mask = np.array([((a['bits'] >> q) & 1) == 1 for q in range(n * m)], dtype=bool).reshape(n, m)
    s = f.bloc[mask]
    return s


@op('reindex', A(i=_pos(), j=_pos(), v=_fill(), ax=st.integers(0, 2), ce=st.booleans()))
def _(f, a):
    idx = list(f.index)
    cols = list(f.columns)
    ni = idx[a['i'] % (len(idx) + 1):][::-1] + ['__new__' if not isinstance(f.index, sf.IndexHierarchy) else None]
    nc = cols[a['j'] % (len(cols) + 1):][::-1]
    if isinstance(f.index, sf.IndexHierarchy) or isinstance(f.index, sf.IndexDate):
        ni = idx[a['i'] % (len(idx) + 1):]
        ni = sf.IndexHierarchy.from_labels(ni) if (isinstance(f.index, sf.IndexHierarchy) and ni) else (ni or None)
    if isinstance(f.columns, sf.IndexHierarchy):
        nc = sf.IndexHierarchy.from_labels(cols[a['j'] % (len(cols) + 1):]) if cols[a['j'] % (len(cols) + 1):] else None
    if a['ax'] == 0:
        return f.reindex(index=ni, fill_value=a['v'], check_equals=a.get('ce', True))
    if a['ax'] == 1:
        return f.reindex(columns=nc, fill_value=a['v'], check_equals=a.get('ce', True))
    return f.reindex(index=ni, columns=nc, fill_value=a['v'], check_equals=a.get('ce', True))


@op('relabel', A(how=st.sampled_from(['func', 'auto', 'list'])))
def _(f, a):
    if a['how'] == 'func':
        return f.relabel(index=lambda x: ('r', x) if not isinstance(x, tuple) else ('r',) + x, columns=lambda x: str(x))
    if a['how'] == 'auto':
        return f.relabel(index=sf.IndexAutoFactory, columns=sf.IndexAutoFactory)
    return f.relabel(index=['r%d' % i for i in range(f.shape[0])], columns=['c%d' % i for i in range(f.shape[1])])


@op('rename', A(n=st.sampled_from(['x', None, ('a', 1)])))
def _(f, a):
    return f.rename(a['n'])


@op('unary', A(o=st.sampled_from(['neg', 'abs', 'invert', 'pos'])))
def _(f, a):
    return {'neg': lambda: -f, 'abs': lambda: abs(f), 'invert': lambda: ~f, 'pos': lambda: +f}[a['o']]()


@op('binary_scalar', A(o=st.sampled_from(['add', 'mul', 'sub', 'truediv', 'floordiv', 'eq', 'ne', 'lt', 'ge', 'and', 'or', 'radd', 'pow']),
                       v=st.sampled_from([0, 1, 2, -1.5, True, 'a'])))
def _(f, a):
    v = a['v']
    return {'add': lambda: f + v, 'mul': lambda: f * v, 'sub': lambda: f - v, 'truediv': lambda: f / v,
            'floordiv': lambda: f // v, 'eq': lambda: f == v, 'ne': lambda: f != v, 'lt': lambda: f < v,
            'ge': lambda: f >= v, 'and': lambda: f & v, 'or': lambda: f | v, 'radd': lambda: v + f, 'pow': lambda: f ** v}[a['o']]()


@op('binary_self', A(o=st.sampled_from(['add', 'mul', 'eq', 'sub', 'lt'])))
def _(f, a):
    g = f.iloc[::-1] if f.shape[0] else f
    return {'add': lambda: f + g, 'mul': lambda: f * g, 'eq': lambda: f == g, 'sub': lambda: f - g, 'lt': lambda: f < g}[a['o']]()


@op('binary_array', A(o=st.sampled_from(['add', 'eq', 'mul']), axis1=st.booleans()))
def _(f, a):
    n, m = f.shape
    arr = np.arange(m) if not a['axis1'] else np.arange(n * m).reshape(n, m)
    return {'add': lambda: f + arr, 'eq': lambda: f == arr, 'mul': lambda: f * arr}[a['o']]()


@op('binary_series', A(o=st.sampled_from(['add', 'eq', 'mul'])))
def _(f, a):
    m = f.shape[1]
    s = sf.Series(np.arange(m), index=f.columns)
    return {'add': lambda: f + s, 'eq': lambda: f == s, 'mul': lambda: f * s}[a['o']]()


@op('isin', A(v=st.lists(st.sampled_from([0, 1, 'a', True, 2.0, None, -1.5, 'b', 20]), max_size=3), i=_pos(), j=_pos(), own=st.sampled_from([2, 1, 0])))
def _(f, a):
    # candidates: fixed values of several types plus up to two of the frame's own cells (so that dates, narrow ints ... occur)
    cand = list(a['v'])
    n, m = f.shape
    if n and m:
        for q in range(a.get('own', 0)):
            cand.append(f.iloc[(a['i'] + q) % n, (a['j'] + q) % m])
    return f.isin(cand)


@op('clip', A(lo=st.sampled_from([None, 0, 1, -2.5]), hi=st.sampled_from([None, 2, 3.5, 10])))
def _(f, a):
    return f.clip(lower=a['lo'], upper=a['hi'])


@op('head_tail', A(c=st.integers(0, 4)))
def _(f, a):
    return (f.head(a['c']), f.tail(a['c']))


@op('unique', A(axis=st.sampled_from([None, 0, 1])))
def _(f, a):
    u = f.unique(axis=a['axis'])
    return u


@op('duplicated', A(axis=_axis(), ef=st.booleans(), el=st.booleans()))
def _(f, a):
    return (f.duplicated(axis=a['axis'], exclude_first=a['ef'], exclude_last=a['el']),
            f.drop_duplicated(axis=a['axis'], exclude_first=a['ef'], exclude_last=a['el']))


@op('set_index', A(c=_pos(), drop=st.booleans()))
def _(f, a):
    m = f.shape[1]
    if m == 0:
        return f
    return f.set_index(list(f.columns)[a['c'] % m], drop=a['drop'])


@op('set_index_hierarchy', A(c=_pos(), d=_pos(), drop=st.booleans()))
def _(f, a):
    m = f.shape[1]
    if m < 2 or a['c'] % m == a['d'] % m:
        return f
    cols = list(f.columns)
    return f.set_index_hierarchy([cols[a['c'] % m], cols[a['d'] % m]], drop=a['drop'], reorder_for_hierarchy=True)


@op('unset_index')
def _(f, a):
    return f.unset_index()


@op('insert', A(c=_pos(), after=st.booleans(), v=_fill()))
def _(f, a):
    n, m = f.shape
    if m == 0:
        return f
    s = sf.Series(np.arange(n) * 2, index=f.index, name='__ins__' if not isinstance(f.columns, sf.IndexHierarchy) else ('__ins__',) * f.columns.depth)
    key = sf.ILoc[a['c'] % m]
    return f.insert_after(key, s, fill_value=a['v']) if a['after'] else f.insert_before(key, s, fill_value=a['v'])


@op('iter_group', A(c=_pos(), axis=_axis()))
def _(f, a):
    n, m = f.shape
    if a['axis'] == 0:
        if m == 0:
            return None
        return _exhaust(f.iter_group_items(list(f.columns)[a['c'] % m]))
    if n == 0:
        return None
    return _exhaust(f.iter_group_items(list(f.index)[a['c'] % n], axis=1))


@op('iter_window', A(size=st.integers(1, 3), axis=_axis(), step=st.integers(1, 2)))
def _(f, a):
    return _exhaust(f.iter_window_items(size=a['size'], axis=a['axis'], step=a['step']))


@op('to_frame_variants')
def _(f, a):
    return (f.to_frame_go(), f.to_frame_he(), f.to_frame())


def _grow(g):
    """Grow a grow-only frame derived from a static container (the static source must not notice)."""
    lab = '__grown__' if g.columns.depth == 1 else ('__grown__',) * g.columns.depth
    try:
        g[lab] = 0
    except Exception:  # noqa: BLE001 - a typed columns index may refuse the label: nothing grown, nothing to observe
        pass
    return g


@op('derive_go_and_grow', A(how=st.sampled_from(['to_frame_go', 'iter_element_apply', 'ctor', 'T', 'iloc', 'rename', 'index_to_frame_go', 'columns_go'])))
def _(f, a):
    how = a['how']
    if how == 'to_frame_go':
        return _grow(f.to_frame_go())
    if how == 'iter_element_apply':
        return _grow(f.to_frame_go().iter_element().apply(lambda x: x))
    if how == 'ctor':
        return _grow(sf.FrameGO(f))
    if how == 'T':
        return _grow(f.to_frame_go().transpose())
    if how == 'iloc':
        return _grow(f.to_frame_go().iloc[:, :])
    if how == 'rename':
        return _grow(f.to_frame_go().rename('g'))
    if how == 'index_to_frame_go':
        return _grow(f.index.to_frame_go()) if f.index.depth > 1 else None
    g = sf.IndexGO(f.columns) if f.columns.depth == 1 else sf.IndexHierarchyGO(f.columns)
    if f.columns.depth == 1 and len(g):
        g.append('__grown__')
    return g


@op('copy_pickle', A(how=st.sampled_from(['deepcopy', 'pickle', 'copy'])))
def _(f, a):
    if a['how'] == 'deepcopy':
        return copy.deepcopy(f)
    if a['how'] == 'pickle':
        return pickle.loads(pickle.dumps(f))
    return f.copy() if hasattr(f, 'copy') else copy.copy(f)


@op('equals_self', A(cd=st.booleans()))
def _(f, a):
    return f.equals(f.iloc[:, :], compare_dtype=a['cd'])


@op('cov_round', A(which=st.sampled_from(['round', 'cov'])))
def _(f, a):
    if a['which'] == 'round':
        return round(f, 1)
    return f.cov()


@op('pivot_stack')
def _(f, a):
    return f.pivot_stack()


@op('relabel_levels', A(which=st.sampled_from(['add', 'flat', 'shift_in'])))
def _(f, a):
    if a['which'] == 'add':
        return f.relabel_level_add(index='L', columns='M')
    if a['which'] == 'flat':
        return f.relabel_flat(index=isinstance(f.index, sf.IndexHierarchy), columns=isinstance(f.columns, sf.IndexHierarchy))
    if f.shape[1] == 0:
        return f
    return f.relabel_shift_in(sf.ILoc[0], axis=0)


@op('display')
def _(f, a):
    return (str(f), repr(f), f.to_html()[:0], f.to_csv is not None)



def _via(c, a):
    """Element-wise string / datetime helper interfaces (results are new containers of the same labels)."""
    w = a['which']
    if w == 'upper':
        return c.via_str.upper()
    if w == 'len':
        return c.via_str.len()
    if w == 'startswith':
        return c.via_str.startswith('a')
    if w == 'zfill':
        return c.via_str.zfill(4)
    if w == 'year':
        return c.via_dt.year
    if w == 'weekday':
        return c.via_dt.weekday()
    if w == 'isoformat':
        return c.via_dt.isoformat()
    return c.via_dt.strftime('%Y/%m')


_VIA = A(which=st.sampled_from(['upper', 'len', 'startswith', 'zfill', 'year', 'weekday', 'isoformat', 'strftime']))


@op('via_str_dt', _VIA)
def _(f, a):
    if 0 in f.shape:
        return None  # (frames without rows or columns: the listed zero-size class; the helpers add nothing to it)
    return _via(f, a)


def frame_op_strategy(only=None):
    names = [o[0] for o in FRAME_OPS if only is None or o[0] in only]
    table = {o[0]: o for o in FRAME_OPS}

    @st.composite
    def s(draw):
        name = draw(st.sampled_from(names))
        return {'op': name, 'args': draw(table[name][1])}
    return s()


FRAME_OP_TABLE = {o[0]: o for o in FRAME_OPS}


def run_frame_op(f, opcase):
    return FRAME_OP_TABLE[opcase['op']][2](f, opcase['args'])


# ---------------------------------------------------------------------------------------------
# Series ops

SERIES_OPS = []


def sop(name, args=None):
    def deco(fn):
        SERIES_OPS.append((name, (A() if args is None else args), fn))
        return fn
    return deco


def _skey(s, a):
    class _F:
        shape = (len(s),)
    return _key(_F, a, 0)


@sop('values')
def _(s, a):
    return (s.values, s.index.values, s.dtype, s.shape, len(s), s.name)


@sop('iloc', A(k=keyargs()))
def _(s, a):
    return s.iloc[_skey(s, a['k'])]


@sop('loc', A(k=keyargs()))
def _(s, a):
    return s.loc[sf.ILoc[_skey(s, a['k'])]]


@sop('iter', A())
def _(s, a):
    return (_exhaust(s.iter_element()), _exhaust(s.iter_element_items()), list(s.items()), list(s.keys()), list(s), list(reversed(s)))


@sop('astype', A(dt=st.sampled_from(DTYPES)))
def _(s, a):
    return s.astype(a['dt'])


@sop('fillna', A(v=_fill()))
def _(s, a):
    return s.fillna(a['v'])


@sop('fillna_dir', A(d=st.sampled_from(['forward', 'backward']), limit=st.integers(0, 3)))
def _(s, a):
    return getattr(s, 'fillna_' + a['d'])(a['limit'])


@sop('fillna_sided', A(d=st.sampled_from(['leading', 'trailing']), v=_fill()))
def _(s, a):
    return getattr(s, 'fillna_' + a['d'])(a['v'])


@sop('dropna_isna')
def _(s, a):
    return (s.dropna(), s.isna(), s.notna())


@sop('reduce', A(fn=st.sampled_from(REDUCE), skipna=st.booleans()))
def _(s, a):
    if a['fn'] == 'count':
        return s.count(skipna=a['skipna'])
    return getattr(s, a['fn'])(skipna=a['skipna'])


@sop('shift_roll', A(k=st.integers(-3, 3), v=_fill(), ii=st.booleans()))
def _(s, a):
    return (s.shift(a['k'], fill_value=a['v']), s.roll(a['k'], include_index=a['ii']))


@sop('sort', A(asc=st.booleans()))
def _(s, a):
    return (s.sort_values(ascending=a['asc']), s.sort_index(ascending=a['asc']))


@sop('drop_mask_assign', A(k=keyargs(), v=_fill()))
def _(s, a):
    k = _skey(s, a['k'])
    return (s.drop.iloc[k], s.mask.iloc[k], s.assign.iloc[k](a['v']))


@sop('assign_array', A(k=keyargs()))
def _(s, a):
    k = _skey(s, a['k'])
    n = len(s.iloc[k]) if not isinstance(k, int) else 1
    if isinstance(k, int):
        return s.assign.iloc[k](-7)
    return s.assign.iloc[k](np.arange(n))


@sop('reindex', A(i=_pos(), v=_fill(), ce=st.booleans()))
def _(s, a):
    idx = list(s.index)
    ni = idx[a['i'] % (len(idx) + 1):][::-1]
    if isinstance(s.index, sf.IndexHierarchy):
        ni = idx[a['i'] % (len(idx) + 1):]
        if not ni:
            return s
        ni = sf.IndexHierarchy.from_labels(ni)
    elif not isinstance(s.index, sf.IndexDate):
        ni = ni + ['__new__']
    return s.reindex(ni, fill_value=a['v'], check_equals=a.get('ce', True))


@sop('relabel_rename', A(how=st.sampled_from(['func', 'auto']), n=st.sampled_from(['x', None])))
def _(s, a):
    if a['how'] == 'func':
        return s.relabel(lambda x: ('r', x) if not isinstance(x, tuple) else ('r',) + x).rename(a['n'])
    return s.relabel(sf.IndexAutoFactory).rename(a['n'])


@sop('unary_binary', A(o=st.sampled_from(['neg', 'abs', 'invert', 'add', 'mul', 'eq', 'lt', 'self', 'arr']), v=st.sampled_from([0, 2, -1.5, 'a', True])))
def _(s, a):
    v = a['v']
    return {'neg': lambda: -s, 'abs': lambda: abs(s), 'invert': lambda: ~s, 'add': lambda: s + v, 'mul': lambda: s * v,
            'eq': lambda: s == v, 'lt': lambda: s < v, 'self': lambda: s + s.iloc[::-1], 'arr': lambda: s * np.arange(len(s))}[a['o']]()


@sop('isin_clip_unique', A(v=st.lists(st.sampled_from([0, 1, 'a', True, 2.0, None]), max_size=3)))
def _(s, a):
    return (s.isin(a['v']), s.unique(), s.duplicated(), s.drop_duplicated(), s.head(2), s.tail(2))


@sop('clip', A(lo=st.sampled_from([None, 0, 1]), hi=st.sampled_from([None, 2, 10])))
def _(s, a):
    return s.clip(lower=a['lo'], upper=a['hi'])


@sop('iter_group_window', A(size=st.integers(1, 3)))
def _(s, a):
    return (_exhaust(s.iter_group_items()), _exhaust(s.iter_window_items(size=a['size'])))


@sop('to_frame_variants')
def _(s, a):
    return (s.to_frame(), s.to_frame_go(), s.to_series_he(), s.to_pairs(), s.to_frame(axis=0))


@sop('searchsorted', A(side=st.booleans()))
def _(s, a):
    vals = s.values[:2]
    if not len(vals) or s.dtype.kind not in 'iufU':
        return None
    return (s.iloc_searchsorted(vals, side_left=a['side']), s.loc_searchsorted(vals, side_left=a['side']), s.loc_searchsorted(list(vals) + [vals.max()], side_left=False))


@sop('derive_go_and_grow')
def _(s, a):
    g = s.to_frame_go()
    return (_grow(g), _grow(s.to_frame_go(axis=0)) if len(s) else None)


@sop('copy_pickle', A(how=st.sampled_from(['deepcopy', 'pickle', 'copy'])))
def _(s, a):
    if a['how'] == 'deepcopy':
        return copy.deepcopy(s)
    if a['how'] == 'pickle':
        return pickle.loads(pickle.dumps(s))
    return copy.copy(s)


@sop('apply_map', A(how=st.sampled_from(['apply', 'map_any', 'map_fill'])))
def _(s, a):
    if a['how'] == 'apply':
        return s.iter_element().apply(lambda x: (x, 1))
    if a['how'] == 'map_any':
        return s.iter_element().map_any({0: 'zero', 1: 'one', 'a': 'A'})
    return s.iter_element().map_fill({0: 'zero', 1: 'one', 'a': 'A'}, fill_value=-1)


@sop('display')
def _(s, a):
    return (str(s), repr(s))





@sop('via_str_dt', _VIA)
def _(s, a):
    return _via(s, a)


SERIES_OP_TABLE = {o[0]: o for o in SERIES_OPS}


def series_op_strategy():
    names = [o[0] for o in SERIES_OPS]

    @st.composite
    def s(draw):
        name = draw(st.sampled_from(names))
        return {'op': name, 'args': draw(SERIES_OP_TABLE[name][1])}
    return s()


def run_series_op(s, opcase):
    return SERIES_OP_TABLE[opcase['op']][2](s, opcase['args'])


# ---------------------------------------------------------------------------------------------
# Index ops (flat and hierarchical)

INDEX_OPS = []


def iop(name, args=None):
    def deco(fn):
        INDEX_OPS.append((name, (A() if args is None else args), fn))
        return fn
    return deco


@iop('values')
def _(ix, a):
    return (ix.values, ix.positions, len(ix), ix.shape, ix.name, ix.depth, list(ix), list(reversed(ix)), ix.dtype if ix.depth == 1 else ix.dtypes)


@iop('iloc', A(k=keyargs()))
def _(ix, a):
    return ix.iloc[_skey(ix, a['k'])]


@iop('loc', A(k=keyargs()))
def _(ix, a):
    return ix.loc[sf.ILoc[_skey(ix, a['k'])]]


@iop('values_at_depth', A(d=st.integers(0, 3)))
def _(ix, a):
    return ix.values_at_depth(a['d'] % ix.depth)


@iop('sort_roll', A(k=st.integers(-3, 3), asc=st.booleans()))
def _(ix, a):
    return (ix.sort(ascending=a['asc']), ix.roll(a['k']))


@iop('set_ops', A(k=keyargs(), o=st.sampled_from(['union', 'intersection', 'difference'])))
def _(ix, a):
    k = _skey(ix, a['k'])
    if isinstance(k, int):
        k = [k]
    other = ix.iloc[k]
    return getattr(ix, a['o'])(other)


@iop('relabel_rename_copy', A(n=st.sampled_from(['x', None])))
def _(ix, a):
    return (ix.rename(a['n']), ix.copy(), ix.relabel(lambda x: ('r', x) if not isinstance(x, tuple) else ('r',) + x) if ix.depth == 1 else ix.rename(a['n']))


@iop('level_ops', A())
def _(ix, a):
    if ix.depth == 1:
        return (ix.level_add('L'), ix.to_series(), ix.isin(list(ix)[:1]))
    return (ix.level_add('L'), ix.level_drop(1), ix.level_drop(-1), ix.flat(), ix.to_frame(), ix.label_widths_at_depth(0))


@iop('searchsorted_unique', A(miss=st.booleans(), side=st.booleans()))
def _(ix, a):
    labs = list(ix)[:2]
    if not labs:
        return None
    vals = [tuple(x) for x in labs] if ix.depth > 1 else labs
    out = [ix.iloc_searchsorted(vals, side_left=a['side']), ix.loc_searchsorted(vals, side_left=a['side'])]
    if ix.depth > 1:
        out += [ix.unique(d) for d in range(ix.depth)] + [ix.unique(list(range(ix.depth)))]
    else:
        out.append(ix.unique())
    return tuple(out)


@iop('array_results', A(k=st.integers(1, 2)))
def _(ix, a):
    # operations on an index that hand out plain arrays: cumulative functions, matrix product, membership tests that match
    # nothing / something
    out = []
    n = len(ix)
    if ix.depth > 1:
        out += [ix.isin([]), ix.isin([tuple('~' for _ in range(ix.depth))]), ix.isin(list(ix)[:1])]
    else:
        out += [ix.isin([]), ix.isin(list(ix)[:1])]
    kinds = {k for k in (ix.dtypes.values if ix.depth > 1 else [ix.values.dtype])}
    if all(np.dtype(k).kind in 'iuf' for k in kinds) and n:
        out += [ix.cumsum(), ix.cumprod(), ix @ np.ones((ix.depth if ix.depth > 1 else n, a['k'])), [[1.0] * n for _ in range(a['k'])] @ ix]  # (a list on the left: an ndarray there would make NumPy compute the product itself)
    return tuple(out)


@iop('derive_go_and_grow')
def _(ix, a):
    if ix.depth > 1:
        return (_grow(ix.to_frame_go()), sf.IndexHierarchyGO(ix))
    g = sf.IndexGO(ix)
    try:
        g.append('__grown__')
    except Exception:  # noqa: BLE001 - a typed index may refuse the label
        pass
    return g


@iop('astype_fillna', A(dt=st.sampled_from(['object', 'float64', '<U8'])))
def _(ix, a):
    if ix.depth == 1:
        return (ix.astype(a['dt']), ix.fillna(0))
    return (ix.astype[0](a['dt']),)


@iop('unary_binary', A(o=st.sampled_from(['eq', 'add', 'mul'])))
def _(ix, a):
    return {'eq': lambda: ix == ix, 'add': lambda: ix + ix, 'mul': lambda: ix * 2}[a['o']]()


@iop('reductions', A(fn=st.sampled_from(['min', 'max', 'sum', 'any'])))
def _(ix, a):
    return getattr(ix, a['fn'])()


@iop('copy_pickle', A(how=st.sampled_from(['deepcopy', 'pickle', 'copy'])))
def _(ix, a):
    if a['how'] == 'deepcopy':
        return copy.deepcopy(ix)
    if a['how'] == 'pickle':
        return pickle.loads(pickle.dumps(ix))
    return copy.copy(ix)


@iop('display')
def _(ix, a):
    return (str(ix), repr(ix), ix.to_pandas is not None)





@iop('via_str_dt', _VIA)
def _(ix, a):
    return _via(ix, a)


INDEX_OP_TABLE = {o[0]: o for o in INDEX_OPS}


def index_op_strategy():
    names = [o[0] for o in INDEX_OPS]

    @st.composite
    def s(draw):
        name = draw(st.sampled_from(names))
        return {'op': name, 'args': draw(INDEX_OP_TABLE[name][1])}
    return s()


def run_index_op(ix, opcase):
    return INDEX_OP_TABLE[opcase['op']][2](ix, opcase['args'])
