"""C01 — immutability: no public operation changes an existing static container; every array
obtainable from a container or returned by an operation is read-only; caller-held input arrays
are copied (or frozen); pickle / deepcopy preserve content and the read-only status.
"""
import copy
import pickle

import numpy as np
from hypothesis import strategies as st

from vf import gen, obs, ops
from vf.base import is_missing, Discard, Failure, Raised, arr_list, canon, eq, lib, sf, short
from vf.harness import Sub

PID = 'C01'
RULE = ('(program) a generated static container (Frame/FrameHE/Series/SeriesHE/Index/IndexDate/IndexHierarchy; all dtype kinds, layouts, 0-sized shapes) '
        'x a program of 1-4 operations from the ops tables (72 Frame, 26 Series, 14 Index entries, generated arguments, failing calls kept), later ops may run on earlier results; '
        'after every call all snapshots are unchanged and every array reachable from the result is read-only (flag and write attempt). '
        '(caller) 40 constructors/assigners fed writeable arrays that are overwritten afterwards. '
        'non-trivial = >=1 call succeeded on a non-empty container and >=1 result array visited; or the input array was writeable')
ASSUMPTIONS = ['a reduction over a Series whose elements are tuples is not judged (NumPy arithmetic on the element objects)', 'a writeable private base array that is not reachable through the public routes walked here is not a violation',
               'np.ma.MaskedArray results (masked_array) and plain Python scalars are not walked']

KINDS = gen.KINDS_MID


def arrays_of(x, depth=0, out=None, path='r'):
    """All ndarrays reachable from a result through public routes."""
    if out is None:
        out = []
    if depth > 5 or len(out) > 400:
        return out
    if isinstance(x, np.ma.MaskedArray):
        return out
    if isinstance(x, np.ndarray):
        out.append((path, x))
        if x.dtype == object and x.ndim == 1:
            for i, e in enumerate(x[:6]):
                if isinstance(e, (sf.Frame, sf.Series, sf.Index, sf.IndexHierarchy, np.ndarray)):
                    arrays_of(e, depth + 1, out, '%s[%d]' % (path, i))
        return out
    if isinstance(x, sf.Frame):
        out.append((path + '.values', x.values))
        for j, c in enumerate(obs.frame_cols(x)):
            out.append(('%s.col%d' % (path, j), c))
        out.append((path + '.dtypes.values', x.dtypes.values))
        arrays_of(x.index, depth + 1, out, path + '.index')
        arrays_of(x.columns, depth + 1, out, path + '.columns')
        for i, a in enumerate(x.iter_array(axis=1)):
            if i >= 2:
                break
            out.append(('%s.iter_array(1)[%d]' % (path, i), a))
        return out
    if isinstance(x, sf.Series):
        out.append((path + '.values', x.values))
        arrays_of(x.index, depth + 1, out, path + '.index')
        return out
    if isinstance(x, sf.IndexHierarchy):
        out.append((path + '.values', x.values))
        out.append((path + '.positions', x.positions))
        for d in range(x.depth):
            out.append(('%s.values_at_depth(%d)' % (path, d), x.values_at_depth(d)))
        return out
    if isinstance(x, sf.Index):
        out.append((path + '.values', x.values))
        out.append((path + '.positions', x.positions))
        return out
    if isinstance(x, (list, tuple)):
        for i, e in enumerate(x[:20]):
            arrays_of(e, depth + 1, out, '%s[%d]' % (path, i))
        return out
    if isinstance(x, dict):
        for k, v in list(x.items())[:20]:
            arrays_of(v, depth + 1, out, '%s[%r]' % (path, k))
        return out
    if hasattr(x, '__next__'):
        for i, e in enumerate(x):
            if i >= 20:
                break
            arrays_of(e, depth + 1, out, '%s<%d>' % (path, i))
    return out


def assert_frozen(x, what, static_only=True):
    n = 0
    for path, a in arrays_of(x):
        if a.ndim == 0:
            continue
        n += 1
        if a.flags.writeable:
            raise Failure('writeable', '%s: array at %s (dtype %s shape %s) is writeable' % (what, path, a.dtype, a.shape))
        if a.size:
            try:
                a.flat[0] = a.flat[0]
            except (ValueError, RuntimeError):
                pass
            else:
                raise Failure('writeable', '%s: write into array at %s succeeded' % (what, path))
    return n


@st.composite
def program_cases(draw):
    kind = draw(st.sampled_from(['frame', 'frame', 'frame_he', 'series', 'series_he', 'index', 'ih']))
    if kind in ('frame', 'frame_he'):
        rec = draw(gen.frame_recipe(max_rows=5, max_cols=5, kinds=KINDS,
                                    index_kinds=('auto', 'int', 'str', 'date', 'ih'), column_kinds=('auto', 'int', 'str', 'ih')))
        opstrat = ops.frame_op_strategy()
    elif kind in ('series', 'series_he'):
        rec = draw(gen.series_recipe(max_size=6, kinds=KINDS, index_kinds=('auto', 'int', 'str', 'date', 'ih', 'mixed')))
        opstrat = ops.series_op_strategy()
    elif kind == 'index':
        n = draw(st.integers(0, 6))
        rec = {'index': draw(gen.index_recipe(n, ('int', 'str', 'float', 'date', 'mixed', 'tuple')))}
        opstrat = ops.index_op_strategy()
    else:
        n = draw(st.integers(1, 7))
        rec = {'index': draw(gen.index_recipe(n, ('ih',)))}
        opstrat = ops.index_op_strategy()
    prog = draw(st.lists(st.tuples(opstrat, st.integers(0, 3)), min_size=1, max_size=4))
    return {'kind': kind, 'rec': rec, 'prog': prog}


def _build(kind, rec):
    if kind == 'frame':
        return gen.build_frame(rec)
    if kind == 'frame_he':
        return gen.build_frame(rec, sf.FrameHE)
    if kind == 'series':
        return gen.build_series(rec)
    if kind == 'series_he':
        return gen.build_series(rec, sf.SeriesHE)
    return gen.build_index(rec['index'])


def _runner(x):
    if isinstance(x, sf.Frame):
        return ops.run_frame_op, ops.FRAME_OP_TABLE
    if isinstance(x, sf.Series):
        return ops.run_series_op, ops.SERIES_OP_TABLE
    return ops.run_index_op, ops.INDEX_OP_TABLE


def _same_family(a, b):
    for t in (sf.Frame, sf.Series):
        if isinstance(a, t) or isinstance(b, t):
            return isinstance(a, t) and isinstance(b, t)
    return isinstance(a, (sf.Index, sf.IndexHierarchy)) and isinstance(b, (sf.Index, sf.IndexHierarchy))


def _lookups(c):
    """What every label of c's indices resolves to (a position, or the class of the error), as a comparable tuple."""
    axes = [c] if isinstance(c, (sf.Index, sf.IndexHierarchy)) else ([c.index] if isinstance(c, sf.Series) else [c.index, c.columns])
    out = []
    for ix in axes:
        if len(ix) > 12:
            out.append(None)
            continue
        res = []
        for lab in ix:
            key = tuple(lab) if ix.depth > 1 else lab
            g = lib(ix.loc_to_iloc, key)
            if isinstance(g, Raised):
                res.append('raise:' + g.cls)
            elif isinstance(g, (int, np.integer)):
                res.append(int(g))
            else:
                res.append(repr(type(g).__name__))
        out.append(tuple(res))
    return tuple(out)


_BIG = [0]


def _large_index_first(case):
    """Now and then a large index is built before the case (sizes grow from run to run): whatever the library keeps between
    calls (allocations shared by all indices) has then been re-made, and containers built afterwards must still hand out
    read-only arrays."""
    if len(repr(case['rec'])) % 6:
        return
    _BIG[0] = max(_BIG[0] * 2, 1100)
    if _BIG[0] > 300000:
        return
    big = sf.Index(range(_BIG[0]))
    assert_frozen(big, 'Index(range(%d))' % _BIG[0])
    assert_frozen(copy.deepcopy(big), 'deepcopy(Index(range(%d)))' % _BIG[0])


def check_program(case):
    _large_index_first(case)
    base = lib(_build, case['kind'], case['rec'])
    if isinstance(base, Raised):
        raise Discard('constructor rejected recipe')
    pool = [base]
    snaps = [obs.snap(base)]
    looks = [_lookups(base)]
    assert_frozen(base, 'constructed %s' % case['kind'])
    classes = ['kind:' + case['kind']]
    visited = 0
    ok_calls = 0
    for opcase, which in case['prog']:
        cands = [p for p in pool if _same_family(p, base) and getattr(p, 'STATIC', True)]
        tgt = cands[which % len(cands)]
        run, table = _runner(tgt)
        r = lib(run, tgt, opcase)
        name = opcase['op']
        classes.append('%s:%s' % (type(base).__name__[:2], name))
        # (1) nothing that existed changed
        for q, (p, s0) in enumerate(zip(pool, snaps)):
            s1 = lib(obs.snap, p)
            if isinstance(s1, Raised) or s1 != s0:
                raise Failure('mutated', 'after %s: container #%d (%s) changed: %s -> %s' % (opcase, q, type(p).__name__, short(s0, 300), short(s1, 300)))
            # ... including what a label resolves to (the lookup structures of an index are state too)
            l1 = _lookups(p)
            if l1 != looks[q]:
                raise Failure('mutated', 'after %s: container #%d (%s): its labels resolve to %s, before the call to %s' % (opcase, q, type(p).__name__, short(l1, 200), short(looks[q], 200)))
        if isinstance(r, Raised):
            classes.append('call-raised')
            continue
        ok_calls += 1 if (getattr(tgt, 'size', None) or len(tgt)) else 0
        # (2) every array handed out is read-only
        # (a reduction of a Series yields an element; a bare ndarray there only arises when the *elements* are
        # themselves sequences (tuples put there by an earlier apply) and NumPy does arithmetic on them: that array
        # is NumPy's own intermediate over caller-chosen element objects, outside what the containers hand out)
        seq_elements = name == 'reduce' and isinstance(tgt, sf.Series) and isinstance(r, np.ndarray) and tgt.dtype == object \
            and any(isinstance(x, (tuple, list)) for x in tgt.values)
        if name != 'masked_array' and not seq_elements:
            v = lib(assert_frozen, r, 'result of %s on %s' % (opcase, type(tgt).__name__))
            if isinstance(v, Raised):
                if isinstance(v.exc, Failure):
                    v.exc.where = '%s.%s' % (type(tgt).__name__, name)
                    raise v.exc
                raise Failure('raised:%s' % v.cls, 'walking the result of %s raised %r' % (opcase, v.exc), v.where)
            visited += v
        # (3) pickle / deepcopy round trips keep content
        if name == 'copy_pickle' and opcase['args']['how'] in ('pickle', 'deepcopy'):
            if obs.snap(r) != obs.snap(tgt):
                raise Failure('roundtrip', '%s changed the content: %s -> %s' % (opcase['args']['how'], short(obs.snap(tgt), 300), short(obs.snap(r), 300)))
        # results join the pool
        for x in (r if isinstance(r, (tuple, list)) else [r]):
            if isinstance(x, (sf.Frame, sf.Series, sf.Index, sf.IndexHierarchy)) and len(pool) < 8 and not any(x is p for p in pool):
                pool.append(x)
                snaps.append(obs.snap(x))
                looks.append(_lookups(x))
    return {'nt': ok_calls > 0 and visited > 0, 'cls': classes}


# ---------------------------------------------------------------------------------------------
# caller-held arrays

def _ctor_table():
    T = []

    def add(name, fn, ndim=1, extra=None):
        T.append((name, fn, ndim, extra))

    add('Series(a)', lambda a, ia, ca: sf.Series(a))
    add('Series(a,index=ia)', lambda a, ia, ca: sf.Series(a, index=ia))
    add('SeriesHE(a)', lambda a, ia, ca: sf.SeriesHE(a, index=ia))
    add('Series.from_items', lambda a, ia, ca: sf.Series.from_items(zip(ia.tolist(), a)))
    add('Index(ia)', lambda a, ia, ca: sf.Index(ia))
    add('IndexGO(ia)->static', lambda a, ia, ca: sf.Index(sf.IndexGO(ia)))
    add('Index.from_labels(ia)', lambda a, ia, ca: sf.Index.from_labels(ia))
    add('Frame(a2)', lambda a, ia, ca: sf.Frame(a), 2)
    add('Frame(a2,index,columns)', lambda a, ia, ca: sf.Frame(a, index=ia, columns=ca), 2)
    add('FrameHE(a2)', lambda a, ia, ca: sf.FrameHE(a, index=ia, columns=ca), 2)
    add('Frame.from_records(a2)', lambda a, ia, ca: sf.Frame.from_records(a, index=ia, columns=ca), 2)
    add('Frame.from_items', lambda a, ia, ca: sf.Frame.from_items([('x', a), ('y', a)], index=ia))
    add('Frame.from_dict', lambda a, ia, ca: sf.Frame.from_dict({'x': a, 'y': a}, index=ia))
    add('Frame.from_fields', lambda a, ia, ca: sf.Frame.from_fields([a, a], index=ia, columns=('x', 'y')))
    add('Frame.from_concat(arrays as Series)', lambda a, ia, ca: sf.Frame.from_concat([sf.Series(a, index=ia, name='x')], axis=1))
    add('Frame.from_element_items?', lambda a, ia, ca: sf.Frame.from_records([a, a], columns=ia))
    add('TypeBlocks.from_blocks([a])', lambda a, ia, ca: sf.Frame(sf.TypeBlocks.from_blocks([a, a]), index=ia))
    add('TypeBlocks.from_blocks(a2)', lambda a, ia, ca: sf.Frame(sf.TypeBlocks.from_blocks(a)), 2)
    add('FrameGO.__setitem__(a)->to_frame', lambda a, ia, ca: _go_set(a, ia))
    add('FrameGO.extend(Series(a))', lambda a, ia, ca: _go_extend(a, ia))
    add('frame.assign.iloc[:,0](a)', lambda a, ia, ca: sf.Frame(np.zeros((len(a), 2)), index=ia).assign.iloc[:, 0](a))
    add('frame.assign[col](a)', lambda a, ia, ca: sf.Frame(np.zeros((len(a), 2)), index=ia, columns=('x', 'y')).assign['y'](a))
    add('frame.assign.iloc[:,:](a2)', lambda a, ia, ca: sf.Frame(np.zeros(a.shape), index=ia, columns=ca).assign.iloc[:, :](a), 2)
    add('frame.assign.bloc', lambda a, ia, ca: sf.Frame(np.zeros(a.shape), index=ia, columns=ca).assign.bloc[np.full(a.shape, True)](a), 2)
    add('series.assign.iloc[:](a)', lambda a, ia, ca: sf.Series(np.zeros(len(a)), index=ia).assign.iloc[:](a))
    add('series.relabel(ia)', lambda a, ia, ca: sf.Series(a).relabel(ia))
    add('frame.relabel(index=ia,columns=ca)', lambda a, ia, ca: sf.Frame(a).relabel(index=ia, columns=ca), 2)
    add('series.reindex(ia)', lambda a, ia, ca: sf.Series(a, index=ia).reindex(ia))
    add('frame.reindex(index=ia)', lambda a, ia, ca: sf.Frame(a, index=ia, columns=ca).reindex(index=ia, columns=ca), 2)
    add('frame.insert_after(Series(a))', lambda a, ia, ca: sf.Frame(np.zeros((len(a), 1)), index=ia, columns=('q',)).insert_after('q', sf.Series(a, index=ia, name='x')))
    add('IndexHierarchy.from_labels(a2)', lambda a, ia, ca: sf.IndexHierarchy.from_labels(np.column_stack([np.zeros(len(ia), dtype=int), ia])))
    add('IndexHierarchy.from_product(ia,ca)', lambda a, ia, ca: sf.IndexHierarchy.from_product(ia, ca), 2)
    add('IndexHierarchy.from_index_items', lambda a, ia, ca: sf.IndexHierarchy.from_index_items([('p', sf.Index(ia))]))
    add('Frame.set_index_hierarchy? from a2', lambda a, ia, ca: sf.Frame(a, index=ia, columns=ca).set_index(ca[0]), 2)
    add('Frame.from_structured_array', lambda a, ia, ca: _from_structured(a))
    add('Frame.from_pandas(own_data=False)', lambda a, ia, ca: _from_pandas(a, ia, ca), 2)
    add('Series.from_pandas', lambda a, ia, ca: _series_from_pandas(a, ia))
    add('Series(a).values passthrough ops', lambda a, ia, ca: sf.Series(a, index=ia).iloc[:])
    add('Frame(a2).iloc[:, :]', lambda a, ia, ca: sf.Frame(a, index=ia, columns=ca).iloc[:, :], 2)
    add('Frame.from_concat((Frame(a2),))', lambda a, ia, ca: sf.Frame.from_concat((sf.Frame(a, index=ia, columns=ca),)), 2)
    add('Series.from_concat', lambda a, ia, ca: sf.Series.from_concat((sf.Series(a, index=ia),)))
    add('Bus.from_frames', lambda a, ia, ca: sf.Bus.from_frames((sf.Frame(a, index=ia, columns=ca, name='f'),))['f'], 2)
    # datetime-typed index classes fed an array that already has (or has not) the class's own unit
    add('IndexTyped(ia)', lambda a, ia, ca: _typed(ia)(ia))
    add('IndexTypedGO(ia)->static', lambda a, ia, ca: _typed(ia)(_typed(ia, go=True)(ia)))
    add('IndexTypedGO(ia)', lambda a, ia, ca: _typed(ia, go=True)(ia))
    add('Series(a,index=ia,index_constructor=typed)', lambda a, ia, ca: sf.Series(a, index=ia, index_constructor=_typed(ia)))
    add('Frame(a2,index=ia,index_constructor=typed)', lambda a, ia, ca: sf.Frame(a, index=ia, columns=ca, index_constructor=_typed(ia)), 2)
    add('Frame(columns=ia,columns_constructor=typed)', lambda a, ia, ca: sf.Frame(np.zeros((2, len(ia))), columns=ia, columns_constructor=_typed(ia)))
    add('IndexHierarchy.from_labels(index_constructors=typed)', lambda a, ia, ca: sf.IndexHierarchy.from_labels([(0, x) for x in ia], index_constructors=[sf.Index, _typed(ia)]))
    add('IndexHierarchy.from_product(typed(ia))', lambda a, ia, ca: sf.IndexHierarchy.from_product(('p', 'q'), _typed(ia)(ia)))
    add('IndexHierarchy.from_index_items(typed(ia))', lambda a, ia, ca: sf.IndexHierarchy.from_index_items([('p', _typed(ia)(ia))]))
    add('series.relabel(typed(ia))', lambda a, ia, ca: sf.Series(a).relabel(_typed(ia)(ia)))
    add('series.reindex(ia, index_constructor)', lambda a, ia, ca: sf.Series(a, index=ia, index_constructor=_typed(ia)).reindex(ia))
    # options that convert only some of the fields: the others must still not be views of the caller's array
    add('Frame.from_structured_array(dtypes={y})', lambda a, ia, ca: _from_structured(a, dtypes={'y': np.float32}))
    add('Frame.from_structured_array(dtypes=(None,f))', lambda a, ia, ca: _from_structured(a, dtypes=(None, np.float32)))
    add('Frame.from_structured_array(index_depth=1,dtypes={y})', lambda a, ia, ca: _from_structured(a, index_depth=1, dtypes={'y': np.float32}))
    add('Frame.from_structured_array(index_depth=1)', lambda a, ia, ca: _from_structured(a, index_depth=1))
    return T


_TYPED = {'Y': 'IndexYear', 'M': 'IndexYearMonth', 'D': 'IndexDate', 'h': 'IndexHour', 'm': 'IndexMinute', 's': 'IndexSecond',
          'ms': 'IndexMillisecond', 'us': 'IndexMicrosecond', 'ns': 'IndexNanosecond'}


def _typed(ia, go=False):
    """The datetime-typed index class whose unit is the one requested for this case (set by the generator)."""
    unit = _typed.unit
    if ia.dtype.kind != 'M' or unit is None:
        raise TypeError('not a datetime label array')
    return getattr(sf, _TYPED[unit] + ('GO' if go else ''))


_typed.unit = None


def _go_set(a, ia):
    f = sf.FrameGO(index=ia)
    f['x'] = a
    return f.to_frame()


def _go_extend(a, ia):
    f = sf.FrameGO(index=ia)
    f.extend(sf.Series(a, index=ia, name='x'))
    return f


def _from_structured(a, **kw):
    sa = np.zeros(len(a), dtype=[('x', a.dtype if a.dtype.kind != 'O' else float), ('y', float)])
    if a.dtype.kind != 'O':
        sa['x'] = a
    if kw.get('index_depth'):
        sa['x'] = np.arange(len(a)).astype(sa.dtype['x']) if sa.dtype['x'].kind in 'iuf' else sa['x']
    f = sf.Frame.from_structured_array(sa, **kw)
    _from_structured.last = sa
    return f


def _from_pandas(a, ia, ca):
    import pandas as pd
    df = pd.DataFrame(a, index=ia, columns=ca)
    return sf.Frame.from_pandas(df, own_data=False)


def _series_from_pandas(a, ia):
    import pandas as pd
    return sf.Series.from_pandas(pd.Series(a, index=ia))


CTORS = _ctor_table()


@st.composite
def caller_cases(draw):
    ci = draw(st.integers(0, len(CTORS) - 1))
    ndim = CTORS[ci][2]
    kind = draw(st.sampled_from(['int64', 'float64', 'bool', '<U3', 'object', 'M8[D]', 'int32']))
    n = draw(st.integers(1, 5))
    m = draw(st.integers(1, 4)) if ndim == 2 else 1
    vals = draw(st.lists(gen.elements(kind), min_size=n * m, max_size=n * m))
    a = gen.to_array(kind, vals, (n, m) if ndim == 2 else None)
    typed_route = 'yped' in CTORS[ci][0]
    lk = draw(st.sampled_from(['dt'] if typed_route else ['int', 'str', 'dt']))
    cls_unit = None
    if lk == 'dt':
        # a datetime64 label array; for the typed routes the class unit equals the array unit two times out of three
        unit = draw(st.sampled_from(sorted(_TYPED)))
        cls_unit = unit if draw(st.integers(0, 2)) < 2 else draw(st.sampled_from(sorted(_TYPED)))
        offs = draw(st.lists(st.integers(0, 60), min_size=n, max_size=n, unique=True))
        ia = (np.datetime64('2001-01-01', unit) + np.array(offs).astype('m8[%s]' % unit)).astype('M8[%s]' % unit)
    else:
        ia = np.array(draw(gen.flat_labels(n, lk)))
    ca = np.array(draw(gen.flat_labels(m, 'str')))
    order = draw(st.sampled_from(['C', 'F'])) if ndim == 2 else 'C'
    return {'ctor': ci, 'a': a, 'ia': ia, 'ca': ca, 'order': order, 'view': draw(st.sampled_from(['own', 'own', 'view'])), 'cls_unit': cls_unit}


def _scramble(a):
    """Overwrite every element of a writeable array in place with a different value."""
    if not a.flags.writeable:
        return False
    k = a.dtype.kind
    if a.size == 0:
        return False
    if k == 'b':
        np.logical_not(a, out=a)
    elif k in 'iuf':
        a += 17
    elif k == 'c':
        a += 3j
    elif k == 'U':
        a[...] = 'Q'
    elif k == 'S':
        a[...] = b'Q'
    elif k == 'M':
        a += np.timedelta64(400, a.dtype.name[11:-1] if '[' in a.dtype.name else 'D')
    elif k == 'm':
        a += np.timedelta64(17, 'D')
    else:
        flat = a.reshape(-1) if a.flags.c_contiguous else None
        if flat is None:
            a[...] = 'Q!'
        else:
            for i in range(len(flat)):
                flat[i] = ('Q!', i)
    return True


def check_caller(case):
    name, fn, ndim, extra = CTORS[case['ctor']]
    a = np.array(case['a'], order=case['order'])
    ia = np.array(case['ia'])
    ca = np.array(case['ca'])
    assert a.flags.writeable and ia.flags.writeable
    bases = (a, ia, ca)
    if case.get('view', 'own') != 'own':
        # the caller hands over writeable *views* of arrays it keeps: writes through the bases must stay invisible
        # even if the library were to freeze the view it received (a read-only view is "already read-only" and
        # may legitimately be kept, so that case is not generated)
        a, ia, ca = a[...], ia[...], ca[...]
    _typed.unit = case.get('cls_unit')
    c = lib(fn, a, ia, ca)
    if isinstance(c, Raised):
        raise Discard('constructor rejected input: %s' % name)
    s0 = obs.snap(c)
    assert_frozen(c, name)
    wrote = [_scramble(x) for x in bases]
    if name.startswith('Frame.from_structured_array'):
        sa = _from_structured.last
        if sa.flags.writeable:
            sa['y'] += 5
            if sa.dtype['x'].kind in 'iuf':
                sa['x'] += 17
            wrote.append(True)
    s1 = lib(obs.snap, c)
    if isinstance(s1, Raised) or s1 != s0:
        raise Failure('caller-write-visible', '%s: writing to the caller-held input arrays changed the container: %s -> %s' % (name, short(s0, 300), short(s1, 300)))
    classes = ['ctor:' + name, 'input-frozen-in-place' if not all(wrote) else 'input-still-writeable']
    if case.get('cls_unit'):
        classes.append('typed-index-unit-' + ('exact' if ia.dtype == np.dtype('M8[%s]' % case['cls_unit']) else 'other'))
    return {'nt': any(wrote), 'cls': classes}


# ---------------------------------------------------------------------------------------------
# caller-held grow-only containers handed to static constructors

def _go_routes():
    R = []

    def add(name, build, grow):
        R.append((name, build, grow))

    def ixgo(labels):
        return sf.IndexGO(labels)

    add('Index(IndexGO)', lambda src: sf.Index(src['ix']), 'ix')
    add('Series(index=IndexGO)', lambda src: sf.Series(np.arange(len(src['ix'])), index=src['ix']), 'ix')
    add('Frame(index=IndexGO, columns=IndexGO)', lambda src: sf.Frame(np.zeros((len(src['ix']), len(src['ix2']))), index=src['ix'], columns=src['ix2']), 'both')
    add('IndexHierarchy.from_index_items', lambda src: sf.IndexHierarchy.from_index_items([('p', src['ix']), ('q', src['ix2'])]), 'both')
    add('IndexHierarchy.from_product(IndexGO,..)', lambda src: sf.IndexHierarchy.from_product(src['ix'], src['ix2']), 'both')
    add('IndexHierarchy(IndexHierarchyGO)', lambda src: sf.IndexHierarchy(src['ihgo']), 'ihgo')
    add('Series(index=IndexHierarchyGO)', lambda src: sf.Series(np.arange(len(src['ihgo'])), index=src['ihgo']), 'ihgo')
    add('series.relabel(IndexGO)', lambda src: sf.Series(np.arange(len(src['ix']))).relabel(src['ix']), 'ix')
    add('series.reindex(IndexGO)', lambda src: sf.Series(np.arange(len(src['ix'])), index=list(src['ix'])).reindex(src['ix']), 'ix')
    add('frame.relabel(columns=IndexGO)', lambda src: sf.Frame(np.zeros((2, len(src['ix'])))).relabel(columns=src['ix']), 'ix')
    add('Frame(FrameGO)', lambda src: sf.Frame(src['fgo']), 'fgo')
    add('FrameGO.to_frame()', lambda src: src['fgo'].to_frame(), 'fgo')
    add('FrameGO.to_frame_he()', lambda src: src['fgo'].to_frame_he(), 'fgo')
    add('FrameGO.iloc[:, :]->static?', lambda src: src['fgo'].to_frame().iloc[:, :], 'fgo')
    add('Frame.from_concat((FrameGO, FrameGO2), axis=0)', lambda src: sf.Frame.from_concat((src['fgo'], src['fgo2']), axis=0, index=sf.IndexAutoFactory), 'fgos')
    add('Frame.from_concat(axis=1)', lambda src: sf.Frame.from_concat((src['fgo'], src['fgo2'].relabel(columns=lambda c: 'z' + str(c))), axis=1), 'fgos')
    add('Frame.from_concat_items(axis=1)', lambda src: sf.Frame.from_concat_items([('a', src['fgo']), ('b', src['fgo2'])], axis=1), 'fgos')
    add('Frame.from_concat_items(axis=0)', lambda src: sf.Frame.from_concat_items([('a', src['fgo']), ('b', src['fgo2'])], axis=0), 'fgos')
    add('FrameGO.columns static copy', lambda src: sf.Index(src['fgo'].columns), 'fgo')
    add('FrameGO[col] Series', lambda src: src['fgo'][src['fgo'].columns.iloc[0]], 'fgo')
    add('FrameGO.iter_series first', lambda src: next(iter(src['fgo'].iter_series(axis=1))), 'fgo')
    add('Bus.from_frames((FrameGO,))', lambda src: sf.Bus.from_frames((src['fgo'].rename('g'),))['g'], 'fgo')
    add('FrameGO.set_index().to_frame()', lambda src: src['fgo'].set_index(src['fgo'].columns.iloc[0]).to_frame(), 'fgo')
    add('FrameGO.T.T (transpose twice)', lambda src: src['fgo'].transpose().transpose().to_frame(), 'fgo')
    # static indices made of a grow-only frame's columns (every column, through a null slice, a list and an open slice; one column)
    add('FrameGO.set_index_hierarchy(slice(None)).index', lambda src: src['fgo'].set_index_hierarchy(slice(None)).index, 'fgo')
    add('FrameGO.set_index_hierarchy(slice(None), drop=True).index', lambda src: src['fgo'].set_index_hierarchy(slice(None), drop=True).index, 'fgo')
    add('FrameGO.set_index_hierarchy(list(columns)).index', lambda src: src['fgo'].set_index_hierarchy(list(src['fgo'].columns)).index, 'fgo')
    add('FrameGO.set_index(first column).index', lambda src: src['fgo'].set_index(src['fgo'].columns.iloc[0]).index, 'fgo')
    return R


GO_ROUTES = _go_routes()


@st.composite
def go_cases(draw):
    n = draw(st.integers(1, 4))
    kind = draw(st.sampled_from(['str', 'int']))
    labels = draw(gen.flat_labels(n, kind))
    labels2 = draw(gen.flat_labels(draw(st.integers(1, 3)), 'str'))
    return {'route': draw(st.integers(0, len(GO_ROUTES) - 1)), 'labels': labels, 'labels2': ['y' + l for l in labels2], 'reads': draw(st.booleans()),
            'grows': draw(st.integers(1, 3))}


def check_go(case):
    name, build, which = GO_ROUTES[case['route']]
    labels, labels2 = case['labels'], case['labels2']
    n = len(labels)
    src = {
        'ix': sf.IndexGO(labels),
        'ix2': sf.IndexGO(labels2),
        'ihgo': sf.IndexHierarchyGO.from_product(labels, ('u', 'v')),
        'fgo': sf.FrameGO(np.arange(2 * n).reshape(2, n), columns=labels),
        'fgo2': sf.FrameGO(np.arange(2 * n).reshape(2, n) + 100, columns=labels),
    }
    if case['reads']:
        for v in src.values():
            v.values  # materialise caches before the derivation
    c = lib(build, src)
    if isinstance(c, Raised):
        raise Discard('constructor rejected input: %s' % name)
    if not getattr(c, 'STATIC', True):
        raise Discard('result is grow-only')
    s0 = obs.snap(c)
    assert_frozen(c, name)
    # the caller grows everything it handed over
    for g in range(case['grows']):
        new = ('new%d' % g) if isinstance(labels[0], str) else 9000 + g
        src['ix'].append(new)
        src['ix2'].append('ynew%d' % g)
        src['ihgo'].append((labels[-1], 'w%d' % g))
        src['fgo'][new] = np.array([7, 8])
        src['fgo2'][new] = np.array([7, 8])
    s1 = lib(obs.snap, c)
    if isinstance(s1, Raised):
        raise Failure('caller-growth-visible', '%s: after the source grew, the static container is unreadable: %r' % (name, s1.exc), s1.where)
    if s1 != s0:
        raise Failure('caller-growth-visible', '%s: growing the grow-only source changed the static container: %s -> %s' % (name, short(s0, 300), short(s1, 300)))
    it = lib(lambda: (len(list(c)) if not isinstance(c, sf.Frame) else len(list(c.columns)), len(c) if not isinstance(c, sf.Frame) else c.shape[1]))
    if isinstance(it, Raised) or it[0] != it[1]:
        raise Failure('caller-growth-visible', '%s: iteration and length disagree after the source grew: %r' % (name, it))
    return {'nt': True, 'cls': ['go-route:' + name]}


def tag(case, f):
    return None


def extra_evidence(tier):
    return {'interface_table': {'frame_ops': len(ops.FRAME_OPS), 'series_ops': len(ops.SERIES_OPS), 'index_ops': len(ops.INDEX_OPS),
                                'caller_array_routes': len(CTORS), 'caller_grow_only_routes': len(GO_ROUTES)}}


SUBS = [
    Sub('program', program_cases(), check_program, quick=8000, thorough=64000, tag=tag,
        rule='snapshots unchanged after every call; every reachable result array read-only'),
    Sub('caller', caller_cases(), check_caller, quick=6000, thorough=24000,
        rule='constructors/assigners fed writeable arrays later overwritten by the caller'),
    Sub('caller_go', go_cases(), check_go, quick=2400, thorough=12000,
        rule='static containers built from caller-held grow-only containers (IndexGO, IndexHierarchyGO, FrameGO) that the caller grows afterwards'),
]
