"""C02 — Index: unique labels, exact label<->position bijection.

Model: a Python list of labels, transformed by the same derivations as the index.  After
construction and after every derivation: len / iteration / reversed / values / iloc / positions
agree with the list; loc_to_iloc(label_i) == i; membership exactly for held labels; absent labels
are not members and their lookup raises.  Negative space: duplicates (incl. 1 / 1.0 / True) and
non-tree hierarchical orders must be rejected with an index-initialisation error.
"""
import copy
import pickle

import numpy as np
from hypothesis import strategies as st

from vf import gen, obs
from vf.base import Discard, Failure, Raised, arr_list, canon, eq, lib, sf, short
from vf.harness import Sub

PID = 'C02'
RULE = ('label lists (int/str/float/bool/tuple/date/mixed/hierarchical/auto) x construction route x 0-3 derivations '
        '(iloc, drop, roll, sort, relabel, set ops, level_add/drop, flat, astype, copy, GO<->static, pickle, GO append/extend); '
        'non-trivial = n >= 2 and (>=1 derivation or hierarchical/auto/date/grown index); negative cases: non-adjacent duplicate / non-tree order')
ASSUMPTIONS = ['NaN labels excluded (statement)', 'order of set-operation results is not compared (unspecified); their bijection invariants are',
               'datetime64 levels of hierarchical indices are built with IndexDate via index_constructors (documented usage)']

INIT_ERRORS = ('ErrorInitIndex', 'ErrorInitIndexNonUnique', 'ErrorInitIndexLevel')
LOOKUP = ('KeyError', 'LocInvalid', 'LookupError', 'IndexError')


def _is_init_error(r):
    return isinstance(r, Raised) and (r.cls in INIT_ERRORS or isinstance(r.exc, sf.ErrorInitIndex))


def absent_for(model, depth, v, date=False, auto=False):
    if auto:
        c = [-1, 7000, -2][v % 3]
        return None if any(eq(c, x) for x in model) else c
    if date and depth == 1:
        c = np.datetime64(19800 + v, 'D')
        return None if any(eq(c, x) for x in model) else c
    if depth > 1:
        if model:
            t = model[0]
            last = t[-1]
            nl = ('zq%d' % v) if isinstance(last, str) else (np.datetime64(19800 + v, 'D') if isinstance(last, np.datetime64) else 7000 + v)
            c = t[:-1] + (nl,)
        else:
            c = ('zq',) * depth
        return None if any(eq(c, x) for x in model) else c
    kinds = {type(canon(x)).__name__ for x in model}
    cands = []
    if not model or kinds & {'int', 'bool'}:
        cands += [7000 + v, -7000 - v]
    if kinds & {'str'}:
        cands.append('zq%d' % v)
    if kinds & {'float'}:
        cands.append(7000.25 + v)
    if kinds & {'datetime64'}:
        cands.append(np.datetime64(19800 + v, 'D'))
    if kinds & {'tuple'}:
        cands.append((97, 'zq%d' % v))
    if not cands:
        cands = ['zq%d' % v]
    for c in cands:
        if not any(eq(c, x) for x in model):
            return c
    return None


DEFERRED = []


def check_index(ix, model, what, auto=False):
    """All bijection invariants of ``ix`` against the label list ``model``."""
    n = len(model)
    depth = ix.depth
    cm = [canon(x) for x in model]

    def need(c, kind, msg):
        if not c:
            raise Failure(kind, '%s: %s' % (what, msg))

    need(len(ix) == n, 'length', 'len %d expected %d' % (len(ix), n))
    it = [canon(x) for x in ix]
    need(len(it) == n and all(eq(a, b) for a, b in zip(it, cm)), 'iter', 'iteration %s expected %s' % (short(it), short(cm)))
    rv = [canon(x) for x in reversed(ix)][::-1]
    need(len(rv) == n and all(eq(a, b) for a, b in zip(rv, cm)), 'reversed', 'reversed %s expected %s' % (short(rv), short(cm)))
    vals = obs.labels_of(ix)
    need(len(vals) == n and all(eq(a, b) for a, b in zip(vals, cm)), 'values', 'values %s expected %s' % (short(vals), short(cm)))
    v = ix.values
    need(v.shape[0] == n and (depth == 1 or v.shape == (n, depth)), 'shape', 'values shape %s' % (v.shape,))
    need(not v.flags.writeable, 'writeable', 'values array is writeable')
    pos = ix.positions
    need(len(pos) == n and pos.tolist() == list(range(n)), 'positions', 'positions %s' % short(pos))
    need(len({c if not isinstance(c, np.datetime64) else ('dt', str(c)) for c in _hashable(cm)}) == n, 'duplicate', 'labels not pairwise distinct: %s' % short(cm))
    own = list(ix)  # the labels as the index presents them (verified equal to the model above)
    if depth == 1 and n and all(isinstance(c, (int, np.integer)) and not isinstance(c, (bool, np.bool_)) for c in cm):
        # membership of several candidates at once: integer labels held and not held (negative, beyond the length), as an
        # array and as a list
        cand = ([int(cm[0])] if n >= 2 else []) + [-1, max(int(c) for c in cm) + 3]
        cand = [c for c in cand if c == int(cm[0]) or not any(int(x) == c for x in cm)]
        want = [any(int(c) == x for x in cand) for c in cm]
        for form in (np.array(cand, dtype=np.int64), list(cand)):
            gi = lib(ix.isin, form)
            if isinstance(gi, Raised):
                raise Failure('raised:%s' % gi.cls, '%s: isin(%r) raised %r' % (what, cand, gi.exc), gi.where)
            need(arr_list(gi) == want, 'membership', 'isin(%r) = %s expected %s' % (cand, short(arr_list(gi)), want))
    for i, lab in enumerate(model):
        key = own[i] if depth == 1 or not isinstance(own[i], np.ndarray) else tuple(own[i])
        g = lib(ix.loc_to_iloc, key)
        if isinstance(g, Raised):
            raise Failure('raised:%s' % g.cls, '%s: loc_to_iloc(%r) raised %r' % (what, lab, g.exc), g.where)
        need(isinstance(g, (int, np.integer)) and int(g) == i, 'bijection', 'loc_to_iloc(%r) = %r expected %d' % (lab, g, i))
        c = lib(lambda: key in ix)
        need(c is True or c is np.True_ or (not isinstance(c, Raised) and bool(c)), 'membership', '%r in index is %r' % (lab, c))
        e = lib(lambda: ix.iloc[i])
        if depth == 1:
            need(not isinstance(e, Raised) and eq(canon(e), cm[i]), 'iloc', 'iloc[%d] = %r expected %r' % (i, e, lab))
        else:
            if (not isinstance(e, Raised) and any(isinstance(x, tuple) for x in lab)
                    and eq(canon(tuple(e)), canon(tuple(y for x in lab for y in (x if isinstance(x, tuple) else (x,)))))):
                # known finding (a tuple held as a label is flattened by a single-position selection): reported at the
                # end of the case, so that the other views and the derivations are still judged
                DEFERRED.append(('iloc', '%s: iloc[%d] = %r expected %r' % (what, i, e, lab)))
                continue
            need(not isinstance(e, Raised) and eq(canon(tuple(e)), cm[i]), 'iloc', 'iloc[%d] = %r expected %r' % (i, e, lab))
    if depth > 1 and n:
        # a key with more components than the depth, and a proper prefix of a label, are not labels
        for bad, why in ((tuple(own[0]) + (tuple(own[0])[-1],), 'longer than the depth'), (tuple(own[0])[:-1], 'a proper prefix of a label')):
            c = lib(lambda: bad in ix)
            need(not isinstance(c, Raised) and not bool(c), 'membership', 'key %r (%s) reported as member (%r)' % (bad, why, c))
    for vv in range(2):
        a = absent_for(model, depth, vv, date=isinstance(ix, sf.IndexDate), auto=auto)
        if a is None:
            continue
        c = lib(lambda: a in ix)
        need(not isinstance(c, Raised) and not bool(c), 'membership', 'absent %r reported as member (%r)' % (a, c))
        g = lib(ix.loc_to_iloc, a)
        if isinstance(g, np.ndarray) and g.size == 0:
            continue  # a datetime64 key is matched as a period: an empty selection is the "not found" answer (C04 ASSUMPTIONS)
        if not isinstance(g, Raised):
            if auto and isinstance(a, int) and a < 0:
                # known finding: reported at the end of the case so the derivations are still explored
                DEFERRED.append(('no-raise', '%s: loc_to_iloc(absent %r) returned %r' % (what, a, g)))
                continue
            raise Failure('no-raise', '%s: loc_to_iloc(absent %r) returned %r' % (what, a, g))
        # C02 claims membership and the bijection; *which* error an absent lookup raises is C04's claim


def same_multiset(a, b):
    b = list(b)
    if len(a) != len(b):
        return False
    for x in a:
        for k, y in enumerate(b):
            if eq(x, y):
                del b[k]
                break
        else:
            return False
    return True


def _hashable(cm):
    out = []
    for c in cm:
        try:
            hash(c)
            out.append(c)
        except TypeError:
            out.append(repr(c))
    return out


# ---------------------------------------------------------------------------------------------
# construction routes

@st.composite
def base(draw):
    kind = draw(st.sampled_from(['int', 'str', 'float', 'bool', 'tuple', 'date', 'mixed', 'auto', 'ih', 'ih', 'ih_product', 'ih_tree', 'ih_items']))
    n = draw(st.integers(0, 8))
    go = draw(st.booleans())
    if kind in ('int', 'str', 'float', 'bool', 'tuple', 'date', 'mixed'):
        if kind == 'bool':
            n = min(n, 2)
        labels = draw(gen.flat_labels(n, kind))
        route = draw(st.sampled_from(['ctor', 'from_labels', 'generator', 'array', 'ctor_dtype']))
        return {'kind': kind, 'labels': labels, 'route': route, 'go': go}
    if kind == 'auto':
        return {'kind': 'auto', 'labels': list(range(n)), 'route': 'series', 'go': False}
    if kind == 'ih':
        n = max(n, 1)
        labels = draw(gen.tree_labels_n(n))
        if draw(st.integers(0, 5)) == 5:
            # tuples as labels of the outermost depth (a label is any hashable; the depth below still separates them)
            labels = [((t[0], 0),) + tuple(t[1:]) for t in labels]
        return {'kind': 'ih', 'labels': labels, 'route': draw(st.sampled_from(['from_labels', 'reorder'])), 'go': go, 'token': draw(st.booleans()),
                'perm': draw(st.permutations(list(range(len(labels)))))}
    if kind == 'ih_product':
        a = draw(st.lists(st.sampled_from(['a', 'b', 'c', 'd']), min_size=1, max_size=3, unique=True))
        b = draw(st.lists(st.integers(0, 5), min_size=1, max_size=3, unique=True))
        c = draw(st.one_of(st.none(), st.lists(st.integers(18000, 18004).map(lambda i: np.datetime64(i, 'D')), min_size=1, max_size=2, unique=True)))
        lists = [a, b] + ([c] if c else [])
        import itertools
        return {'kind': 'ih', 'labels': list(itertools.product(*lists)), 'route': 'from_product', 'lists': lists, 'go': go}
    if kind == 'ih_tree':
        outer = draw(st.lists(st.sampled_from(['a', 'b', 'c']), min_size=1, max_size=3, unique=True))
        tree = {}
        labels = []
        for o in outer:
            inner = draw(st.lists(st.integers(0, 4), min_size=1, max_size=3, unique=True))
            tree[o] = inner
            labels += [(o, i) for i in inner]
        return {'kind': 'ih', 'labels': labels, 'route': 'from_tree', 'tree': tree, 'go': go}
    outer = draw(st.lists(st.sampled_from(['a', 'b', 'c']), min_size=1, max_size=3, unique=True))
    items = []
    labels = []
    for o in outer:
        inner = draw(st.lists(st.integers(0, 4), min_size=1, max_size=3, unique=True))
        items.append((o, inner))
        labels += [(o, i) for i in inner]
    return {'kind': 'ih', 'labels': labels, 'route': 'from_index_items', 'items': items, 'go': go, 'items_go': draw(st.booleans())}


def construct(b):
    kind, labels, route, go = b['kind'], b['labels'], b['route'], b['go']
    if kind == 'auto':
        return sf.Series(np.zeros(len(labels))).index
    if kind == 'ih':
        cls = sf.IndexHierarchyGO if go else sf.IndexHierarchy
        if route == 'from_labels':
            tok = '<same>'
            if b.get('token') and labels and not any(isinstance(x, np.datetime64) or (isinstance(x, str) and x == tok) for t in labels for x in t):
                # the outer depths written with a continuation token wherever the value repeats the one above
                rows, prev = [], None
                for t in labels:
                    row = list(t)
                    if prev is not None:
                        for d in range(len(t) - 1):
                            if t[:d + 1] == prev[:d + 1]:
                                row[d] = tok
                    rows.append(tuple(row))
                    prev = t
                return cls.from_labels(rows, continuation_token=tok)
            return gen.build_index({'kind': 'ih', 'labels': labels}, go=go)
        ctors = [sf.IndexDate if all(isinstance(t[d], np.datetime64) for t in labels) else sf.Index for d in range(len(labels[0]))] if labels else None
        if route == 'reorder':
            perm = [labels[i] for i in b['perm']]
            return cls.from_labels(perm, reorder_for_hierarchy=True, index_constructors=ctors)
        if route == 'from_product':
            return cls.from_product(*[sf.IndexDate(l) if isinstance(l[0], np.datetime64) else l for l in b['lists']])
        if route == 'from_tree':
            return cls.from_tree(b['tree'])
        if b.get('items_go'):
            # the component indices are grow-only and are grown after the hierarchy was built (see _check)
            b['_sources'] = [sf.IndexGO(inner) for _, inner in b['items']]
            return cls.from_index_items((o, src) for (o, _), src in zip(b['items'], b['_sources']))
        return cls.from_index_items((o, sf.Index(inner)) for o, inner in b['items'])
    if kind == 'date':
        cls = sf.IndexDateGO if go else sf.IndexDate
    else:
        cls = sf.IndexGO if go else sf.Index
    if kind in ('tuple', 'mixed'):
        return gen.build_index({'kind': kind, 'labels': labels}, go=go)
    if route == 'ctor':
        return cls(labels)
    if route == 'from_labels':
        return cls.from_labels(labels)
    if route == 'generator':
        return cls(x for x in labels)
    if route == 'ctor_dtype':
        # the labels given in another form together with the dtype they are to have (what the dtype makes of them are the labels)
        if kind == 'int':
            return cls([str(x) for x in labels], dtype=np.int64)
        if kind == 'str':
            return cls(list(labels), dtype=str)
        return cls(labels)
    if kind == 'date':
        return cls(np.array(labels, dtype='M8[D]'))
    return cls(np.array(labels))


DERIVS = ('iloc', 'drop', 'roll', 'sort', 'relabel', 'union', 'intersection', 'difference', 'level_add', 'level_drop', 'level_drop_inner',
          'flat', 'astype', 'copy', 'togo', 'tostatic', 'pickle', 'rename', 'append', 'append_dup', 'extend', 'loc_list', 'rehierarch', 'iloc_rot', 'loc_rot', 'roll')


@st.composite
def deriv(draw):
    return {'d': draw(st.sampled_from(DERIVS)), 'i': draw(st.integers(0, 40)), 'j': draw(st.integers(0, 40)),
            'k': draw(st.integers(-4, 4)), 'flag': draw(st.booleans()), 'mask': draw(st.integers(0, 2 ** 10))}


@st.composite
def cases(draw):
    return {'base': draw(base()), 'derivs': draw(st.lists(deriv(), max_size=3))}


def _sortable(model):
    try:
        sorted(canon(x) for x in model)
        return True
    except TypeError:
        return False


def _reorder_model(b):
    """Model of from_labels(reorder_for_hierarchy=True): group by first appearance at each depth."""
    perm = [b['labels'][i] for i in b['perm']]

    def grp(labs, d, depth):
        if d == depth:
            return labs
        order = []
        groups = {}
        for t in labs:
            k = canon(t[d])
            if k not in groups:
                groups[k] = []
                order.append(k)
            groups[k].append(t)
        out = []
        for k in order:
            out += grp(groups[k], d + 1, depth)
        return out
    return grp(perm, 0, len(perm[0])) if perm else perm


def check(case):
    del DEFERRED[:]
    info = _check(case)
    if DEFERRED:
        raise Failure(*DEFERRED[0])
    return info


def _check(case):
    b = case['base']
    ix = lib(construct, b)
    if isinstance(ix, Raised):
        raise Failure('raised:%s' % ix.cls, 'construction %s raised %r' % (b['route'], ix.exc), ix.where)
    model = list(b['labels'])
    reorder_unspecified = False
    if b['route'] == 'reorder':
        # the statement does not fix the order reorder_for_hierarchy produces: adopt the observed
        # order after checking it is a permutation that forms a tree
        observed = obs.labels_of(ix)
        if not same_multiset(observed, [canon(x) for x in model]):
            raise Failure('labels', 'reorder_for_hierarchy lost/invented labels: %s from %s' % (short(observed), short(model)))
        model = [next(m for m in model if eq(canon(m), o)) for o in observed]
        reorder_unspecified = True
    classes = ['kind:' + b['kind'], 'route:' + b['route'], 'go' if b['go'] else 'static']
    check_index(ix, model, 'constructed(%s)' % b['route'], auto=b['kind'] == 'auto' and len(model) > 0)
    if b.get('_sources'):
        for src in b.pop('_sources'):
            src.append(9990)
        check_index(ix, model, 'constructed(from_index_items) after its grow-only component indices grew')
        classes.append('component-sources-grown')
    grown = False
    for dv in case['derivs']:
        d = dv['d']
        n = len(model)
        depth = ix.depth
        is_go = not ix.STATIC
        new_model = None
        expect_err = False
        r = None
        if d in ('iloc', 'loc_list', 'iloc_rot', 'loc_rot'):
            pos = [p for p in range(n) if (dv['mask'] >> p) & 1]
            if dv['flag']:
                pos = pos[::-1]
            if d.endswith('_rot'):
                # every position, rotated (for a hierarchy this revisits the outer label the rotation splits), optionally thinned
                kk = dv['k'] % n if n else 0
                pos = [(p + kk) % n for p in range(n)]
                if dv['flag'] and n > 2:
                    pos = [p for q, p in enumerate(pos) if q != dv['i'] % n]
            new_model = [model[p] for p in pos]
            if depth > 1 and not gen.is_tree_order(new_model):
                expect_err = True
            if depth > 1 and not pos:
                continue
            if d in ('iloc', 'iloc_rot'):
                r = lib(lambda: ix.iloc[pos])
            else:
                r = lib(lambda: ix.loc[[model[p] for p in pos]])
        elif d == 'drop':
            pos = [p for p in range(n) if (dv['mask'] >> p) & 1]
            new_model = [model[p] for p in range(n) if p not in pos]
            if depth > 1:
                continue  # IndexHierarchy has no drop interface in this version
            r = lib(lambda: ix.drop.iloc[pos])
        elif d == 'roll':
            k = dv['k']
            if n == 0:
                continue
            if n:
                kk = k % n
                new_model = model[-kk:] + model[:-kk] if kk else list(model)
            else:
                new_model = []
            if depth > 1 and not gen.is_tree_order(new_model):
                expect_err = True
            r = lib(lambda: ix.roll(k))
        elif d == 'sort':
            if not _sortable(model) or any(isinstance(x, bool) for x in model):
                continue
            new_model = sorted(model, key=canon, reverse=not dv['flag'])
            r = lib(lambda: ix.sort(ascending=dv['flag']))
        elif d == 'relabel':
            if depth > 1 or any(isinstance(m, tuple) for m in model):
                continue
            fn = (lambda x: 'p%s' % (x,)) if dv['flag'] else (lambda x: (x, 0))
            new_model = [fn(canon(x) if not isinstance(x, np.datetime64) else x) for x in model]
            if len({repr(canon(x)) for x in new_model}) != len(new_model):
                expect_err = True
            r = lib(lambda: ix.relabel(fn))
            if isinstance(ix, sf.IndexDate) and isinstance(r, Raised):
                continue  # a datetime-typed index cannot hold the mapped labels: rejected is fine
        elif d in ('union', 'intersection', 'difference'):
            pos = [p for p in range(n) if (dv['mask'] >> p) & 1]
            other_model = [model[p] for p in pos]
            if depth > 1:
                if not other_model or not gen.is_tree_order(other_model):
                    continue
            other = lib(lambda: ix.iloc[pos])
            if isinstance(other, Raised):
                continue
            r = lib(lambda: getattr(ix, d)(other))
            if isinstance(r, Raised):
                raise Failure('raised:%s' % r.cls, '%s with a sub-index raised %r' % (d, r.exc), r.where)
            got = obs.labels_of(r)
            want = {'union': model, 'intersection': other_model, 'difference': [m for p, m in enumerate(model) if p not in pos]}[d]
            if not same_multiset(got, [canon(x) for x in want]):
                raise Failure('set', '%s: labels %s expected (as a set) %s' % (d, short(got), short(want)))
            if depth > 1 and not want:
                continue
            new_model = [next(m for m in model if eq(canon(m), g)) for g in got]
        elif d == 'rehierarch':
            if depth == 1 or n == 0:
                continue
            # the depths in another order; the labels are regrouped so that the new outer depth is contiguous
            order = list(range(depth))[::-1] if dv['flag'] else (list(range(1, depth)) + [0])
            want = [tuple(m[q] for q in order) for m in model]
            r = lib(lambda: ix.rehierarch(order))
            if isinstance(r, Raised):
                raise Failure('raised:%s' % r.cls, 'rehierarch(%r) raised %r' % (order, r.exc), r.where)
            got = obs.labels_of(r)
            if not same_multiset(got, [canon(x) for x in want]):
                raise Failure('set', 'rehierarch(%r): labels %s expected (as a set) %s' % (order, short(got), short(want)))
            new_model = [next(w for w in want if eq(canon(w), g)) for g in got]
        elif d == 'level_add':
            new_model = [(('L',) + tuple(m)) if depth > 1 else ('L', m) for m in model]
            if n == 0 or (depth == 1 and any(isinstance(m, tuple) for m in model)):
                continue
            r = lib(lambda: ix.level_add('L'))
        elif d == 'level_drop':
            if depth == 1:
                continue
            new_model = [m[1:] if depth > 2 else m[1] for m in model]
            if len({repr(canon(x)) for x in new_model}) != len(new_model) or (depth > 2 and not gen.is_tree_order(new_model)):
                expect_err = True
            r = lib(lambda: ix.level_drop(1))
        elif d == 'level_drop_inner':
            if depth == 1:
                continue
            # removing the innermost depth: the distinct prefixes in order of first appearance (a tree keeps them adjacent)
            new_model = []
            for m in model:
                pre = m[:-1] if depth > 2 else m[0]
                if not new_model or not eq(canon(new_model[-1]), canon(pre)):
                    new_model.append(pre)
            r = lib(lambda: ix.level_drop(-1))
        elif d == 'flat':
            if depth == 1:
                continue
            new_model = [tuple(m) for m in model]
            r = lib(lambda: ix.flat())
            if not isinstance(r, Raised):
                # flat labels are tuples in a depth-1 index
                model, ix = new_model, r
                if r.depth != 1:
                    raise Failure('depth', 'flat() returned depth %d' % r.depth)
                check_index(ix, model, 'after flat')
                classes.append('d:flat')
                continue
        elif d == 'astype':
            if depth > 1 or isinstance(ix, sf.IndexDate) or not model or not all(type(canon(x)) is int for x in model):
                continue
            new_model = [float(x) for x in model]
            r = lib(lambda: ix.astype(float))
        elif d == 'copy':
            new_model = list(model)
            r = lib(lambda: ix.copy() if dv['flag'] else copy.deepcopy(ix))
        elif d == 'togo':
            new_model = list(model)
            r = lib(lambda: ix._MUTABLE_CONSTRUCTOR(ix) if ix.STATIC else ix.copy())
        elif d == 'tostatic':
            new_model = list(model)
            r = lib(lambda: ix._IMMUTABLE_CONSTRUCTOR(ix) if not ix.STATIC else ix)
        elif d == 'pickle':
            new_model = list(model)
            r = lib(lambda: pickle.loads(pickle.dumps(ix)))
        elif d == 'rename':
            new_model = list(model)
            r = lib(lambda: ix.rename('nm'))
        elif d in ('append', 'append_dup', 'extend'):
            if not is_go:
                continue
            before = obs.snap(ix)
            if d == 'append_dup':
                if not model:
                    continue
                lab = model[dv['i'] % n]
                r = lib(ix.append, lab)
                if not isinstance(r, Raised):
                    raise Failure('no-raise', 'append of duplicate %r accepted' % (lab,))
                if obs.snap(ix) != before:
                    raise Failure('mutated', 'rejected append changed the index')
                check_index(ix, model, 'after rejected append')
                classes.append('d:append_dup')
                continue
            a0 = absent_for(model, depth, dv['i'] % 3, date=isinstance(ix, sf.IndexDate))
            if a0 is None:
                continue
            if depth > 1:
                # new leaf under the last parent keeps tree order
                a0 = model[-1][:-1] + (a0[-1],) if model else a0
                if any(eq(a0, x) for x in model):
                    continue
            if d == 'append':
                r = lib(ix.append, a0)
                if isinstance(r, Raised):
                    raise Failure('raised:%s' % r.cls, 'append(%r) raised %r' % (a0, r.exc), r.where)
                model = model + [a0]
            else:
                a1 = absent_for(model + [a0], depth, (dv['i'] + 1) % 3 + 3, date=isinstance(ix, sf.IndexDate))
                if a1 is None or eq(a1, a0):
                    continue
                if depth > 1:
                    # extend appends the other index's outer subtrees: they must be new outer labels
                    o0 = absent_for([(m[0],) for m in model] + [('zz',)], 2, dv['j'] % 3)
                    if o0 is None:
                        continue
                    outer = o0[-1] if not isinstance(model[0][0], np.datetime64) or isinstance(o0[-1], np.datetime64) else o0[-1]
                    if type(canon(outer)) is not type(canon(model[0][0])) and not isinstance(model[0][0], np.datetime64):
                        outer = ('zq%d' % dv['j']) if isinstance(model[0][0], str) else 7100 + dv['j']
                        if isinstance(model[0][0], tuple):
                            # (a new outer label of the same form as the others: a tuple whose first element has their type)
                            outer = (('zq%d' % dv['j']) if isinstance(model[0][0][0], str) else (np.datetime64(19900 + dv['j'], 'D') if isinstance(model[0][0][0], np.datetime64) else 7100 + dv['j']), 0)
                    if isinstance(model[0][0], np.datetime64):
                        outer = np.datetime64(19900 + dv['j'], 'D')
                    a0 = (outer,) + model[-1][1:]
                    a1 = (outer,) + a1[1:-1] + (a1[-1],) if depth > 2 else (outer, a1[-1])
                    if depth > 2:
                        a1 = a0[:-1] + (a1[-1],)
                    if any(eq(a0, x) or eq(a1, x) for x in model) or eq(a0, a1):
                        continue
                    try:
                        ctors = [t._IMMUTABLE_CONSTRUCTOR if not t.STATIC else t for t in ix.index_types.values]
                        other = sf.IndexHierarchy.from_labels([a0, a1], index_constructors=ctors)
                    except Exception:  # noqa: BLE001
                        continue
                    r = lib(ix.extend, other)
                else:
                    r = lib(ix.extend, [a0, a1])
                if isinstance(r, Raised):
                    raise Failure('raised:%s' % r.cls, 'extend([%r, %r]) raised %r' % (a0, a1, r.exc), r.where)
                model = model + [a0, a1]
            grown = True
            check_index(ix, model, 'after ' + d)
            classes.append('d:' + d)
            continue
        else:
            continue
        if r is None:
            continue
        if expect_err:
            if isinstance(r, Raised):
                if not _is_init_error(r):
                    raise Failure('raised:%s' % r.cls, '%s producing duplicate/non-tree labels raised %r (not an index-initialisation error)' % (d, r.exc), r.where)
                classes.append('d:%s:rejected' % d)
                continue
            raise Failure('no-raise', '%s produced labels %s (duplicate or not a tree) without an error' % (d, short(new_model)))
        if isinstance(r, Raised):
            raise Failure('raised:%s' % r.cls, 'derivation %s raised %r' % (d, r.exc), r.where)
        if not isinstance(r, sf.IndexBase if hasattr(sf, 'IndexBase') else (sf.Index, sf.IndexHierarchy)):
            raise Failure('kind', 'derivation %s returned %s' % (d, short(r)))
        check_index(r, new_model, 'after ' + d)
        # the source is untouched
        check_index(ix, model, 'source after ' + d)
        ix, model = r, new_model
        classes.append('d:' + d)
    nd = sum(1 for c in classes if c.startswith('d:'))
    nt = len(b['labels']) >= 2 and (nd >= 1 or b['kind'] in ('ih', 'auto', 'date') or grown)
    return {'nt': nt, 'cls': classes}



# ---------------------------------------------------------------------------------------------
# grow-only histories: reads (which materialise caches), growth, and derivations taken from the grown
# index *without* observing it first; the source is only observed at explicit 'observe' steps

GO_READS = ('values', 'positions', 'len', 'reversed', 'iter', 'contains', 'loc', 'repr', 'dtype', 'depth_values', 'none')
GO_ROUTES = ('static_ctor', 'go_ctor', 'rename', 'copy', 'deepcopy', 'pickle', 'iloc_all', 'series_index', 'frame_columns',
             'level_add', 'flat', 'iloc_tail', 'union_self')


@st.composite
def go_cases(draw):
    kind = draw(st.sampled_from(['int', 'str', 'date', 'mixed', 'ih', 'ih', 'ih', 'auto']))
    if kind == 'ih':
        n = draw(st.integers(1, 6))
        labels = draw(gen.tree_labels_n(n))
    elif kind == 'auto':
        labels = list(range(draw(st.integers(0, 4))))
    else:
        n = draw(st.integers(0, 5))
        labels = draw(gen.flat_labels(n, kind))
    steps = draw(st.lists(st.one_of(
        st.fixed_dictionaries({'s': st.just('read'), 'what': st.sampled_from(GO_READS)}),
        st.fixed_dictionaries({'s': st.sampled_from(['append', 'append', 'extend', 'append_dup', 'extend_dup']), 'v': st.integers(0, 40), 'branch': st.integers(0, 2)}),
        st.fixed_dictionaries({'s': st.just('derive'), 'route': st.sampled_from(GO_ROUTES)}),
        st.fixed_dictionaries({'s': st.just('observe')}),
    ), min_size=2, max_size=9))
    return {'kind': kind, 'labels': labels, 'steps': steps}


def _go_fresh(kind, model, v, branch):
    """A label not in ``model`` that keeps hierarchical labels in tree order when appended."""
    if kind == 'ih':
        depth = len(model[0])
        last = model[-1]

        def leaf(proto, k):
            return ('zq%d' % k) if isinstance(proto, str) else (np.datetime64(19800 + k, 'D') if isinstance(proto, np.datetime64) else 7000 + k)
        # branch 0: new leaf under the last parent; 1: new node one level up; 2: new outermost label
        level = max(0, depth - 1 - branch)
        c = last[:level] + tuple(leaf(last[d], v + d) for d in range(level, depth))
        if any(eq(c[:level + 1], x[:level + 1]) for x in model):
            return None
        return c
    if kind == 'date':
        c = np.datetime64(19800 + v, 'D')
    elif kind == 'str':
        c = 'zq%d' % v
    elif kind == 'int':
        c = 7000 + v
    elif kind == 'auto':
        # mostly the next position (labels stay positions), sometimes a label that ends that
        c = len(model) if (v % 4 or not all(isinstance(x, int) and x == i for i, x in enumerate(model))) else 7000 + v
    else:
        c = [7000 + v, 'zq%d' % v, (97, v), 2.25 + v][v % 4]
    return None if any(eq(canon(c), canon(x)) for x in model) else c


def check_go(case):
    del DEFERRED[:]
    kind = case['kind']
    model = list(case['labels'])
    if kind == 'auto':
        # the grow-only auto-integer index a FrameGO built without column labels carries
        ix = lib(lambda: sf.FrameGO(np.zeros((1, len(model)))).columns)
    else:
        ix = lib(gen.build_index, {'kind': kind, 'labels': list(model)}, True)
    if isinstance(ix, Raised):
        raise Failure('raised:%s' % ix.cls, 'construction raised %r' % ix.exc, ix.where)
    derived = []
    classes = ['gokind:' + kind]
    grown = read_before_growth = stale_derive = False
    pending_growth = False  # the source has grown and has not been observed since
    for stp in case['steps']:
        s = stp['s']
        n = len(model)
        if s == 'read':
            w = stp['what']
            call = {'values': lambda: ix.values, 'positions': lambda: ix.positions, 'len': lambda: len(ix), 'reversed': lambda: list(reversed(ix)),
                    'iter': lambda: list(ix), 'contains': lambda: (model[0] in ix) if model else None,
                    'loc': lambda: ix.loc_to_iloc(list(ix)[-1] if ix.depth == 1 else tuple(list(ix)[-1])) if model else None,
                    'repr': lambda: repr(ix), 'dtype': lambda: ix.dtypes if ix.depth > 1 else ix.dtype,
                    'depth_values': lambda: ix.values_at_depth(0), 'none': lambda: None}[w]
            if w in ('loc', 'contains') and model:
                # the first read after growth may be a lookup of the newest label: asked from the model, nothing else is read first
                last = model[-1] if kind != 'ih' else tuple(model[-1])
                r = lib((lambda: ix.loc_to_iloc(last)) if w == 'loc' else (lambda: last in ix))
                if isinstance(r, Raised):
                    raise Failure('raised:%s' % r.cls, '%s of the held label %r (first read after growth: %s) raised %r' % (w, last, pending_growth, r.exc), r.where)
                if (w == 'loc' and not (isinstance(r, (int, np.integer)) and int(r) == n - 1)) or (w == 'contains' and not bool(r)):
                    raise Failure('bijection' if w == 'loc' else 'membership', '%s of the held label %r gave %r (expected %s)' % (w, last, r, n - 1 if w == 'loc' else True))
            else:
                r = lib(call)
            if isinstance(r, Raised):
                raise Failure('raised:%s' % r.cls, 'read %s raised %r' % (w, r.exc), r.where)
            if w != 'none' and not grown:
                read_before_growth = True
            classes.append('read:' + w)
        elif s in ('append_dup', 'extend_dup'):
            # growth that must be rejected, issued without observing the index first; the index must stay as it is
            if not model:
                continue
            dup = model[stp['v'] % n]
            if s == 'append_dup':
                r = lib(ix.append, dup)
            elif kind == 'ih':
                # another hierarchy whose first outermost label is new and whose second one is held: refused as a whole
                a = _go_fresh(kind, model, stp['v'], len(model[0]) - 1)
                if a is None:
                    continue
                try:
                    ctors = [t._IMMUTABLE_CONSTRUCTOR if not t.STATIC else t for t in ix.index_types.values]
                    other = sf.IndexHierarchy.from_labels([a, tuple(dup)], index_constructors=ctors)
                except Exception:  # noqa: BLE001
                    continue
                r = lib(ix.extend, other)
            else:
                a = _go_fresh(kind, model, stp['v'], 0)
                if a is None:
                    continue
                r = lib(ix.extend, [a, dup])
            if not isinstance(r, Raised):
                raise Failure('no-raise', '%s with the held label %r accepted' % (s, dup))
            classes.append('go:' + s)
        elif s in ('append', 'extend'):
            if kind == 'ih' and not model:
                continue
            a = _go_fresh(kind, model, stp['v'], stp['branch'])
            if a is None:
                continue
            if s == 'append':
                r = lib(ix.append, a)
                new = [a]
            else:
                b = _go_fresh(kind, model + [a], stp['v'] + 17, 0 if kind != 'ih' else 0)
                if b is None:
                    continue
                if kind == 'ih':
                    # extend takes another hierarchy whose outermost labels are new
                    a = _go_fresh(kind, model, stp['v'], len(model[0]) - 1)
                    if a is None:
                        continue
                    b = _go_fresh(kind, model + [a], stp['v'] + 17, 0)
                    if b is None:
                        continue
                    try:
                        ctors = [t._IMMUTABLE_CONSTRUCTOR if not t.STATIC else t for t in ix.index_types.values]
                        other = sf.IndexHierarchy.from_labels([a, b], index_constructors=ctors)
                    except Exception:  # noqa: BLE001
                        continue
                    r = lib(ix.extend, other)
                else:
                    r = lib(ix.extend, [a, b])
                new = [a, b]
            if isinstance(r, Raised):
                raise Failure('raised:%s' % r.cls, '%s(%s) raised %r' % (s, short(new), r.exc), r.where)
            model = model + new
            grown = pending_growth = True
            classes.append('go:' + s)
        elif s == 'derive':
            route = stp['route']
            depth = ix.depth
            want = list(model)
            if route == 'static_ctor':
                r = lib(lambda: ix._IMMUTABLE_CONSTRUCTOR(ix))
            elif route == 'go_ctor':
                r = lib(lambda: type(ix)(ix))
            elif route == 'rename':
                r = lib(lambda: ix.rename('nm'))
            elif route == 'copy':
                r = lib(ix.copy)
            elif route == 'deepcopy':
                r = lib(copy.deepcopy, ix)
            elif route == 'pickle':
                r = lib(lambda: pickle.loads(pickle.dumps(ix)))
            elif route == 'iloc_all':
                r = lib(lambda: ix.iloc[:])
            elif route == 'iloc_tail':
                if n < 1:
                    continue
                r = lib(lambda: ix.iloc[n - 1:])
                want = model[n - 1:]
            elif route == 'series_index':
                r = lib(lambda: sf.Series(np.arange(n), index=ix).index)
            elif route == 'frame_columns':
                r = lib(lambda: sf.FrameGO(np.zeros((1, n)), columns=ix).to_frame().columns)
            elif route == 'level_add':
                if n == 0 or (depth == 1 and any(isinstance(m, tuple) for m in model)):
                    continue
                r = lib(lambda: ix.level_add('L'))
                want = [(('L',) + tuple(m)) if depth > 1 else ('L', m) for m in model]
            elif route == 'flat':
                if depth == 1:
                    continue
                r = lib(ix.flat)
                want = [tuple(m) for m in model]
            else:
                r = lib(lambda: ix.union(ix))
            if isinstance(r, Raised):
                raise Failure('raised:%s' % r.cls, 'derivation %s of a grown index raised %r' % (route, r.exc), r.where)
            check_index(r, want, 'derived by %s%s' % (route, ' (source grown, unobserved)' if pending_growth else ''))
            derived.append((r, want, route))
            if pending_growth and read_before_growth:
                stale_derive = True
            classes.append('derive:' + route)
        else:
            check_index(ix, model, 'source at observe step')
            pending_growth = False
    check_index(ix, model, 'source at end')
    for r, want, route in derived:
        if r is ix:
            continue
        if not r.STATIC and route in ('iloc_all',):
            pass
        check_index(r, want, 'derived by %s, re-read at end' % route)
    if DEFERRED:
        raise Failure(*DEFERRED[0])
    if stale_derive:
        classes.append('derive-after-unobserved-growth')
    return {'nt': stale_derive or (grown and bool(derived)), 'cls': classes}

# ---------------------------------------------------------------------------------------------
# negative space

@st.composite
def neg_cases(draw):
    which = draw(st.sampled_from(['dup', 'dup_equal_types', 'ih_dup', 'ih_nontree', 'date_dup']))
    go = draw(st.booleans())
    if which == 'dup':
        kind = draw(st.sampled_from(['int', 'str', 'float', 'tuple', 'mixed']))
        labels = draw(gen.flat_labels(draw(st.integers(1, 6)), kind))
        src = draw(st.integers(0, len(labels) - 1))
        at = draw(st.integers(0, len(labels)))
        labels = labels[:at] + [labels[src]] + labels[at:]
        return {'which': which, 'kind': kind, 'labels': labels, 'go': go, 'route': draw(st.sampled_from(['ctor', 'from_labels', 'generator']))}
    if which == 'dup_equal_types':
        pool = draw(st.sampled_from([[1, 1.0], [True, 1], [0, False], [2, 2.0], [1.0, True]]))
        extra = draw(st.lists(st.integers(5, 20), max_size=3, unique=True))
        labels = [pool[0]] + extra + [pool[1]]
        return {'which': which, 'kind': 'mixed', 'labels': labels, 'go': go, 'route': 'ctor'}
    if which == 'date_dup':
        labels = draw(gen.flat_labels(draw(st.integers(1, 5)), 'date'))
        src = draw(st.integers(0, len(labels) - 1))
        labels = labels + [labels[src]]
        return {'which': which, 'kind': 'date', 'labels': labels, 'go': go, 'route': 'ctor'}
    labels = draw(gen.tree_labels_n(draw(st.integers(2, 7))))
    if which == 'ih_dup':
        src = draw(st.integers(0, len(labels) - 1))
        at = draw(st.integers(0, len(labels)))
        labels = labels[:at] + [labels[src]] + labels[at:]
    else:
        perm = draw(st.permutations(labels))
        labels = list(perm)
    return {'which': which, 'kind': 'ih', 'labels': labels, 'go': go, 'route': 'from_labels'}


def check_neg(case):
    labels = case['labels']
    kind = case['kind']
    if kind == 'ih':
        valid = gen.is_tree_order(labels)
    else:
        valid = len({(('dt', str(x)) if isinstance(x, np.datetime64) else canon(x)) for x in labels}) == len(labels)

    def build():
        if kind == 'ih':
            return gen.build_index({'kind': 'ih', 'labels': labels}, go=case['go'])
        if kind == 'date':
            return (sf.IndexDateGO if case['go'] else sf.IndexDate)(labels)
        cls = sf.IndexGO if case['go'] else sf.Index
        if case['route'] == 'generator':
            return cls(x for x in labels)
        if case['route'] == 'from_labels':
            return cls.from_labels(labels) if kind not in ('tuple', 'mixed') else gen.build_index({'kind': kind, 'labels': labels}, go=case['go'])
        return cls(labels) if kind not in ('tuple', 'mixed') else gen.build_index({'kind': kind, 'labels': labels}, go=case['go'])
    r = lib(build)
    cls = ['neg:' + case['which'], 'neg:valid' if valid else 'neg:invalid']
    if valid:
        if isinstance(r, Raised):
            raise Failure('raised:%s' % r.cls, 'valid labels %s rejected: %r' % (short(labels), r.exc), r.where)
        check_index(r, labels, 'valid permutation')
        return {'nt': False, 'cls': cls}
    if isinstance(r, Raised):
        if _is_init_error(r):
            adjacent = any(eq(canon(labels[i]), canon(labels[i + 1])) for i in range(len(labels) - 1))
            return {'nt': not adjacent, 'cls': cls}
        raise Failure('raised:%s' % r.cls, 'invalid labels %s raised %r (not an index-initialisation error)' % (short(labels), r.exc), r.where)
    raise Failure('no-raise', 'index built from invalid labels %s: %s' % (short(labels), short(obs.labels_of(r))))


def tag(case, f):
    if f.kind == 'raised:ErrorInitIndexNonUnique' and 'derivation level_drop raised' in f.detail:
        return 'level-drop-cannot-merge-equal-labels-from-adjacent-parents'
    if case.get('base', {}).get('kind') == 'auto' and f.kind == 'no-raise' and 'loc_to_iloc(absent -' in f.detail:
        return 'auto-index-loc-to-iloc-passthrough'
    # a hierarchy holding a tuple as a label: selecting one position flattens that tuple into the returned label
    if f.kind == 'iloc' and any(isinstance(x, tuple) for t in case.get('base', {}).get('labels', []) if isinstance(t, tuple) for x in t):
        return 'hierarchy-single-position-flattens-tuple-label'
    return None


SUBS = [
    Sub('bijection', cases(), check, quick=8000, thorough=64000, tag=tag,
        rule='construct + derive; invariants vs list model after every step'),
    Sub('go_history', go_cases(), check_go, quick=6000, thorough=48000, tag=tag,
        rule='grow-only index histories: cache-materialising reads, append/extend, 13 derivation routes taken from the grown index before it is observed'),
    Sub('negative', neg_cases(), check_neg, quick=3200, thorough=16000,
        rule='duplicate / non-tree label sets must raise ErrorInitIndex'),
]
