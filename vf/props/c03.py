"""C03 — block-manager transparency and structural coherence of Frame.

(1) layout differential: the same columns in 2-3 block layouts x a generated public operation
    must give equal observations (kind, labels, values, per-column dtypes, error class).
(2) coherence: every read route reports the model's cell (i, j) with the column's own dtype.
"""
import math

import numpy as np
from hypothesis import strategies as st

from vf import gen, obs, ops
from vf.base import Discard, Failure, Raised, arr_list, canon, eq, is_missing, lib, sf, short
from vf.harness import Sub

PID = 'C03'
RULE = ('frame recipes (all dtype kinds, 0..6 x 0..6) in the generated layout, a re-cut layout and the all-1-D layout x one '
        'operation from the ops table (72 ops with generated arguments); non-trivial = layouts differ in >=1 block boundary '
        'and the operation did not raise on every layout; coherence: every read route vs model cells')
ASSUMPTIONS = ['float results compared with rel. tolerance 1e-9 (summation order may differ between 1-D and 2-D blocks)',
               'str/bytes dtype width is not compared in the differential (kind is)',
               'scalar Python type inside object arrays is not compared (np.str_ vs str): == is the notion of same value']

KINDS = ('bool', 'int64', 'float64', '<U3', 'object', 'M8[D]', 'int32', 'float32', 'uint8', 'm8[D]', 'complex128')


def deep(x, depth=0):
    """Observation tree: ('frame', name, index, columns, dtypes, cols) etc."""
    if isinstance(x, Raised):
        return ('raise', x.cls)
    if isinstance(x, sf.Frame):
        cols = obs.frame_cols(x)
        return ('frame', type(x).__name__, obs.canon_name(x.name), x.shape, obs.labels_of(x.index), obs.labels_of(x.columns),
                [str(c.dtype) for c in cols], [[canon(e) for e in arr_list(c)] for c in cols])
    if isinstance(x, sf.Series):
        return ('series', type(x).__name__, obs.canon_name(x.name), x.shape, obs.labels_of(x.index), None,
                [str(x.values.dtype)], [[canon(e) for e in arr_list(x.values)]])
    if isinstance(x, sf.IndexHierarchy):
        return ('ih', type(x).__name__, obs.canon_name(x.name), x.shape, obs.labels_of(x), None, [str(d) for d in x.dtypes.values], [])
    if isinstance(x, sf.Index):
        return ('index', type(x).__name__, obs.canon_name(x.name), x.shape, obs.labels_of(x), None, [str(x.values.dtype)], [])
    if isinstance(x, np.ndarray):
        if x.dtype == object and x.ndim == 1 and len(x) and isinstance(x[0], np.dtype):
            return ('dtypes', [str(d) for d in x])
        return ('array', None, None, x.shape, None, None, [str(x.dtype)], [[canon(e) for e in arr_list(x.ravel())]])
    if isinstance(x, (list, tuple)):
        if depth < 6:
            return ('seq', type(x).__name__, [deep(y, depth + 1) for y in x])
        return ('seq', 'deep', len(x))
    if isinstance(x, dict):
        return ('dict', [(deep(k, depth + 1), deep(v, depth + 1)) for k, v in x.items()])
    if isinstance(x, np.dtype):
        return ('dtype', str(x))
    if hasattr(x, '__next__'):
        return deep(list(x), depth)
    return ('el', canon(x))


def _feq(a, b):
    if eq(a, b):
        return True
    if is_missing(a) and is_missing(b):
        return type(canon(a)) is type(canon(b)) or True
    if isinstance(a, (float, complex)) and isinstance(b, (float, complex, int)) or isinstance(b, (float, complex)) and isinstance(a, (int,)):
        try:
            return abs(a - b) <= 1e-9 * max(abs(a), abs(b), 1e-300)
        except Exception:  # noqa: BLE001
            return False
    return False


def _dt_norm(d):
    # the *width* of str/bytes dtypes is not compared: NumPy sizes each result array to its widest
    # element, so a 2-D block result is as wide as its widest column
    if d.startswith('<U') or d.startswith('|S') or d.startswith('S'):
        return d[:2]
    return d


def diff(a, b, path=''):
    """First difference between two observation trees: (kind, text) or None."""
    a_r = isinstance(a, tuple) and a and a[0] == 'raise'
    b_r = isinstance(b, tuple) and b and b[0] == 'raise'
    if a_r != b_r:
        return ('raise-vs-value', '%s: %s vs %s' % (path, short(a, 100) if a_r else a[0], short(b, 100) if b_r else b[0]))
    if type(a) is not type(b):
        return ('kind', '%s: %s vs %s' % (path, short(a, 150), short(b, 150)))
    if isinstance(a, tuple) and a and isinstance(a[0], str) and a[0] in ('frame', 'series', 'ih', 'index', 'array'):
        if a[0] != b[0]:
            return ('kind', '%s: %s vs %s' % (path, a[0], b[0]))
        if a[1] != b[1]:
            return ('class', '%s: class %s vs %s' % (path, a[1], b[1]))
        if not eq(a[2], b[2]):
            return ('name', '%s: name %r vs %r' % (path, a[2], b[2]))
        if a[3] != b[3]:
            return ('shape', '%s: shape %s vs %s' % (path, a[3], b[3]))
        for k, nm in ((4, 'index'), (5, 'columns')):
            if a[k] is None and b[k] is None:
                continue
            if len(a[k]) != len(b[k]) or not all(eq(x, y) for x, y in zip(a[k], b[k])):
                return ('labels', '%s.%s: %s vs %s' % (path, nm, short(a[k], 200), short(b[k], 200)))
        if len(a[7]) != len(b[7]):
            return ('shape', '%s: %d vs %d columns' % (path, len(a[7]), len(b[7])))
        for j, (ca, cb) in enumerate(zip(a[7], b[7])):
            if len(ca) != len(cb):
                return ('shape', '%s col %d length' % (path, j))
            for i, (x, y) in enumerate(zip(ca, cb)):
                if not _feq(x, y):
                    return ('value', '%s[%d,%d]: %r vs %r' % (path, i, j, x, y))
        if [_dt_norm(x) for x in a[6]] != [_dt_norm(x) for x in b[6]]:
            return ('dtype', '%s: dtypes %s vs %s' % (path, a[6], b[6]))
        return None
    if isinstance(a, tuple) and a and a[0] == 'seq':
        if a[1] != b[1] or (isinstance(a[2], int) != isinstance(b[2], int)):
            return ('kind', '%s: %s vs %s' % (path, a[1], b[1]))
        if isinstance(a[2], int):
            return None if a[2] == b[2] else ('length', '%s: %d vs %d' % (path, a[2], b[2]))
        if len(a[2]) != len(b[2]):
            return ('length', '%s: %d vs %d items' % (path, len(a[2]), len(b[2])))
        for i, (x, y) in enumerate(zip(a[2], b[2])):
            d = diff(x, y, '%s[%d]' % (path, i))
            if d:
                return d
        return None
    if isinstance(a, tuple) and a and a[0] == 'dict':
        return diff(('seq', 'd', [('seq', 'kv', list(kv)) for kv in a[1]]), ('seq', 'd', [('seq', 'kv', list(kv)) for kv in b[1]]), path)
    if isinstance(a, tuple) and a and a[0] == 'el':
        return None if _feq(a[1], b[1]) else ('value', '%s: %r vs %r' % (path, a[1], b[1]))
    if isinstance(a, tuple) and a and a[0] == 'raise':
        return None if a == b else ('raise-class', '%s: %s vs %s' % (path, a[1], b[1]))
    return None if a == b else ('other', '%s: %s vs %s' % (path, short(a, 150), short(b, 150)))


@st.composite
def diff_cases(draw):
    op = draw(ops.frame_op_strategy())  # decisive choice first (late draws are biased to their first option)
    rec = draw(gen.frame_recipe(max_rows=6, max_cols=6, kinds=KINDS,
                                index_kinds=('auto', 'int', 'str', 'date', 'ih'), column_kinds=('auto', 'int', 'str', 'ih')))
    cols = gen.block_columns(rec['blocks'])
    lay2 = draw(gen.relayout(cols))
    return {'rec': rec, 'lay2': lay2, 'op': op}


def _sig_layout(blks):
    return [(1 if b.ndim == 1 else b.shape[1], b.ndim) for b in blks]


def check_diff(case):
    rec = case['rec']
    cols = gen.block_columns(rec['blocks'])
    layouts = [rec['blocks'], case['lay2'], gen.layout_split(cols)]
    frames = []
    for blks in layouts:
        f = lib(gen.build_frame, {**rec, 'blocks': blks})
        if isinstance(f, Raised):
            raise Discard('constructor rejected recipe: %s' % f.cls)
        frames.append(f)
    observations = []
    for f in frames:
        r = lib(ops.run_frame_op, f, case['op'])
        try:
            observations.append(deep(r))
        except Exception as e:  # noqa: BLE001 - reading a result raised: treat as a raise of the op
            observations.append(('raise', 'read:' + type(e).__name__))
    for k in (1, 2):
        d = diff(observations[0], observations[k], 'result')
        if d:
            raise Failure('layout-' + d[0], 'op %s on layouts %s vs %s: %s' % (case['op'], _sig_layout(layouts[0]), _sig_layout(layouts[k]), d[1]),
                          where='op:%s%s' % (case['op']['op'], ':' + str(case['op']['args'].get('fn')) if 'fn' in case['op']['args'] else ''))
    sigs = {tuple(_sig_layout(b)) for b in layouts}
    raised = observations[0][0] == 'raise'
    cls = ['op:' + case['op']['op'], 'raised' if raised else 'ok', 'layouts:%d' % len(sigs)]
    if any(b.ndim == 2 and b.shape[1] >= 3 for b in rec['blocks']):
        cls.append('wide-block')
    return {'nt': len(sigs) >= 2 and not raised, 'cls': cls}


# ---------------------------------------------------------------------------------------------

@st.composite
def coh_cases(draw):
    grown = draw(st.integers(0, 2)) == 2   # one case in three: the same frame reached by growing a FrameGO block by block
    # (grown frames draw their blocks from one dtype kind half of the time: narrow before wide, coarse before fine)
    kinds = draw(st.sampled_from([('<U1', '<U4'), KINDS, ('M8[D]', 'M8[s]'), KINDS, ('uint8', 'int64'), KINDS])) if grown else KINDS
    rec = draw(gen.frame_recipe(max_rows=5, max_cols=6, kinds=kinds,
                                index_kinds=('auto', 'int', 'str', 'date', 'ih'), column_kinds=('auto', 'int', 'str', 'ih')))
    return {'rec': rec, 'grown': grown}


def _grown_frame(rec):
    """A FrameGO holding the recipe's first block, grown by the remaining blocks one at a time (setitem for 1-D blocks, extend
    for 2-D ones), with nothing read in between: every read route must show the cells of the frame built in one go."""
    blks = [gen.freeze(b) for b in rec['blocks']]
    n, m = len(rec['index']['labels']), len(rec['columns']['labels'])
    cix = gen.build_index(rec['columns'], for_frame=True)
    labels = list(cix) if cix is not None else list(range(m))
    w0 = 1 if blks[0].ndim == 1 else blks[0].shape[1]
    index = gen.build_index(rec['index'], for_frame=True)
    f = sf.FrameGO(sf.TypeBlocks.from_blocks([blks[0]], shape_reference=(n, w0)), index=index, columns=(labels[:w0] if cix is not None else None),
                   name=rec.get('name'), own_data=True, own_index=index is not None)
    pos = w0
    for b in blks[1:]:
        w = 1 if b.ndim == 1 else b.shape[1]
        if b.ndim == 1:
            f[labels[pos]] = b
        elif w:
            f.extend(sf.Frame(b, index=f.index, columns=labels[pos: pos + w]))
        pos += w
    return f


def _ceq(g, w):
    return eq(g, w) or (is_missing(g) and is_missing(w))


def check_coh(case):
    rec = case['rec']
    grown = bool(case.get('grown')) and len(rec['blocks']) >= 2 and rec['columns']['kind'] != 'ih' and all(b.size or b.ndim == 1 for b in rec['blocks'])
    f = _grown_frame(rec) if grown else gen.build_frame(rec)
    if grown and len(rec['index']['labels']) % 2 == 0:
        # a deep copy of the grown frame grows further: the frame read below must not see it (one dtype per column label, still)
        import copy
        twin = copy.deepcopy(f)
        twin[10 ** 6 if rec['columns']['kind'] in ('auto', 'int') else '__extra__'] = np.arange(len(rec['index']['labels']))
    cols = gen.block_columns(rec['blocks'])
    model = [arr_list(c) for c in cols]
    il, cl = [canon(x) for x in rec['index']['labels']], [canon(x) for x in rec['columns']['labels']]
    n, m = len(il), len(cl)

    def need(cond, kind, msg):
        if not cond:
            raise Failure(kind, msg)

    need(f.shape == (n, m) and len(f.index) == n and len(f.columns) == m, 'shape', 'shape %s vs labels (%d,%d)' % (f.shape, n, m))
    obs.expect_labels(f.index, il, 'index')
    obs.expect_labels(f.columns, cl, 'columns')
    v = lib(lambda: f.values)
    need(not isinstance(v, Raised), 'raised', 'values raised %r' % (v,))
    need(v.shape == (n, m), 'shape', 'values shape %s' % (v.shape,))
    need(not v.flags.writeable, 'writeable', 'values writeable')
    for i in range(n):
        for j in range(m):
            w = model[j][i]
            need(_ceq(v[i, j], w), 'value', 'values[%d,%d]=%r expected %r' % (i, j, v[i, j], w))
            g = f.iloc[i, j]
            need(_ceq(g, w), 'value', 'iloc[%d,%d]=%r expected %r' % (i, j, g, w))
    dts = lib(lambda: f.dtypes)
    need(not isinstance(dts, Raised), 'raised:dtypes', 'dtypes raised %r' % (dts,))
    need([str(d) for d in dts.values] == [str(c.dtype) for c in cols], 'dtype', 'dtypes %s expected %s' % (list(dts.values), [c.dtype for c in cols]))
    # column routes keep the column's own dtype
    for j, a in enumerate(f.iter_array(axis=0)):
        need(a.dtype == cols[j].dtype, 'dtype', 'iter_array(0)[%d] dtype %s expected %s' % (j, a.dtype, cols[j].dtype))
        need(all(eq(x, y) for x, y in zip(arr_list(a), model[j])) and len(a) == n, 'value', 'iter_array(0)[%d]' % j)
    for j, s in enumerate(f.iter_series(axis=0)):
        need(s.values.dtype == cols[j].dtype and eq(obs.canon_name(s.name), cl[j]), 'dtype', 'iter_series(0)[%d] dtype/name' % j)
        obs.expect_labels(s.index, il, 'iter_series(0).index')
        need(all(eq(x, y) for x, y in zip(arr_list(s.values), model[j])), 'value', 'iter_series(0)[%d]' % j)
    for j in range(m):
        s = f.iloc[:, j]
        need(isinstance(s, sf.Series) and s.values.dtype == cols[j].dtype, 'dtype', 'iloc[:,%d] dtype %s expected %s' % (j, getattr(getattr(s, "values", None), "dtype", None), cols[j].dtype))
    rows = list(f.iter_array(axis=1))
    need(len(rows) == n, 'length', 'iter_array(1) yields %d rows' % len(rows))
    for i, a in enumerate(rows):
        need(len(a) == m and all(_ceq(x, model[j][i]) for j, x in enumerate(arr_list(a))), 'value', 'iter_array(1)[%d]=%s' % (i, short(a)))
    for i, s in enumerate(f.iter_series(axis=1)):
        need(all(_ceq(x, model[j][i]) for j, x in enumerate(arr_list(s.values))) and eq(obs.canon_name(s.name), il[i]), 'value', 'iter_series(1)[%d]' % i)
        obs.expect_labels(s.index, cl, 'iter_series(1).index')
    for i, t in enumerate(f.iter_tuple(axis=1, constructor=tuple)):
        need(len(t) == m and all(_ceq(x, model[j][i]) for j, x in enumerate(t)), 'value', 'iter_tuple(1)[%d]=%s' % (i, short(t)))
    for j, t in enumerate(f.iter_tuple(axis=0, constructor=tuple)):
        need(len(t) == n and all(_ceq(x, model[j][i]) for i, x in enumerate(t)), 'value', 'iter_tuple(0)[%d]=%s' % (j, short(t)))
    items = list(f.iter_element_items())
    need(len(items) == n * m, 'length', 'iter_element_items yields %d' % len(items))
    k = 0
    for i in range(n):
        for j in range(m):
            (ri, cj), x = items[k]
            k += 1
            need(eq(canon(ri), il[i]) and eq(canon(cj), cl[j]) and _ceq(x, model[j][i]), 'value', 'iter_element_items[%d]=%r expected ((%r,%r),%r)' % (k - 1, items[k - 1], il[i], cl[j], model[j][i]))
    its = lib(lambda: list(f.items()))
    if isinstance(its, Raised):
        raise Failure('raised:%s' % its.cls, 'items() raised %r' % its.exc, its.where)
    need(len(its) == m, 'length', 'items() yields %d' % len(its))
    for j, (lab, s) in enumerate(its):
        need(eq(canon(lab), cl[j]) and s.values.dtype == cols[j].dtype and all(eq(x, y) for x, y in zip(arr_list(s.values), model[j])), 'value', 'items()[%d]' % j)
    for axis in (0, 1):
        pairs = f.to_pairs(axis)
        outer, inner = (cl, il) if axis == 0 else (il, cl)
        need(len(pairs) == len(outer), 'length', 'to_pairs(%d) outer length' % axis)
        for p, (lab, sub) in enumerate(pairs):
            need(eq(canon(lab), outer[p]) and len(sub) == len(inner), 'labels', 'to_pairs(%d)[%d] label %r' % (axis, p, lab))
            for q, (lab2, x) in enumerate(sub):
                w = model[p][q] if axis == 0 else model[q][p]
                need(eq(canon(lab2), inner[q]) and _ceq(x, w), 'value', 'to_pairs(%d)[%d][%d]=%r expected (%r,%r)' % (axis, p, q, (lab2, x), inner[q], w))
    kinds = {c.dtype.kind for c in cols}
    return {'nt': n >= 1 and m >= 2 and len(rec['blocks']) >= 1, 'cls': ['coh:kinds=%d' % len(kinds), 'coh:blocks=%d' % len(rec['blocks']), 'coh:' + ('grown' if grown else 'built')]}


MISSING_OPS = ('fillna_dir', 'fillna_sided', 'fillna', 'dropna', 'isna', 'shift', 'roll', 'reduce')


@st.composite
def missing_cases(draw):
    """Operations whose block-wise implementations carry state across block boundaries (directional and sided fills,
    drops, shifts), on frames rich in missing values: same differential over layouts as `layout_diff`."""
    op = draw(ops.frame_op_strategy(only=MISSING_OPS))
    rec = draw(gen.frame_recipe(min_rows=1, max_rows=4, min_cols=2, max_cols=6, kinds=('float64', 'float64', 'int64', 'object', 'M8[D]', 'bool'),
                                index_kinds=('auto', 'str'), column_kinds=('auto', 'str')))
    cols = gen.block_columns(rec['blocks'])
    return {'rec': rec, 'lay2': draw(gen.relayout(cols)), 'op': op}


ELEMENT_OPS = ('isin', 'via_str_dt', 'clip', 'unique', 'astype', 'iloc', 'loc', 'iter_series', 'iter_tuple', 'values', 'sort_values_axis0')


@st.composite
def element_cases(draw):
    """Element-wise operations that treat a 2-D block and its columns by different routes (membership tests against the frame's
    own cells, string / datetime helpers, clip, unique, astype), on frames of date / time-delta / narrow / text columns where
    neighbouring columns often share a dtype (so that wide blocks exist): same differential over layouts as `layout_diff`."""
    op = draw(ops.frame_op_strategy(only=ELEMENT_OPS))
    fam = draw(st.sampled_from([('M8[D]', 'M8[D]', '<U3'), ('M8[ns]', 'm8[ns]', 'M8[ns]'), ('int8', 'int8', 'float32'), ('<U3', '<U3', 'M8[D]', 'int64'),
                                ('M8[D]', 'M8[D]', 'object', 'bool'), ('object:int', 'int64', 'object:int'), ('<U1', '<U4', 'object:str')]))
    rec = draw(gen.frame_recipe(min_rows=1, max_rows=4, min_cols=2, max_cols=6, kinds=fam, index_kinds=('auto', 'str'), column_kinds=('auto', 'str')))
    cols = gen.block_columns(rec['blocks'])
    return {'rec': rec, 'lay2': draw(gen.relayout(cols)), 'op': op}


@st.composite
def astype_cases(draw):
    """astype[key](dtype) where the requested dtype is one the frame already holds, keys with gaps (stepped slices,
    gappy lists, masks) inside wide blocks: differential over layouts plus the per-column dtype model."""
    route = draw(st.sampled_from(['iloc', 'loc', 'mask']))
    rec = draw(gen.frame_recipe(min_rows=1, max_rows=4, min_cols=2, max_cols=7, kinds=('int64', 'float64', 'bool', 'object', 'int32'),
                                index_kinds=('auto',), column_kinds=('auto', 'str'), missing=False))
    cols = gen.block_columns(rec['blocks'])
    m = len(cols)
    own = sorted({str(c.dtype) for c in cols})
    dt = draw(st.sampled_from(own + ['float64', 'object']))
    return {'rec': rec, 'lay2': draw(gen.relayout(cols)), 'key': draw(gen.iloc_key(m, allow_scalar=False)), 'dt': dt,
            'route': route}


def check_astype(case):
    rec = case['rec']
    cols = gen.block_columns(rec['blocks'])
    m = len(cols)
    pos, _ = gen.positions_of(case['key'], m)
    if not pos:
        raise Discard('empty selection')
    layouts = [rec['blocks'], case['lay2'], gen.layout_split(cols), gen.layout_consolidated(cols)]
    want = []
    for j, c in enumerate(cols):
        if j in pos:
            try:
                with np.errstate(all='ignore'):
                    want.append(c.astype(case['dt']))
            except Exception:  # noqa: BLE001
                raise Discard('NumPy cannot convert')
        else:
            want.append(c)
    for blks in layouts:
        f = gen.build_frame({**rec, 'blocks': blks})
        labels = list(f.columns)
        if case['route'] == 'iloc':
            key = sf.ILoc[case['key']]
        elif case['route'] == 'mask':
            key = np.array([j in pos for j in range(m)], dtype=bool)
        else:
            key = [labels[j] for j in pos]
        r = lib(lambda: f.astype[key](case['dt']))
        if isinstance(r, Raised):
            raise Failure('raised:%s' % r.cls, 'astype[%s](%s) on layout %s raised %r' % (short(key), case['dt'], _sig_layout(blks), r.exc), r.where)
        got = obs.frame_cols(r)
        for j in range(m):
            if got[j].dtype != want[j].dtype and not (want[j].dtype.kind in 'US' and got[j].dtype.kind == want[j].dtype.kind):
                raise Failure('astype-dtype', 'astype[%s](%s) on layout %s: column %d dtype %s expected %s' % (short(key), case['dt'], _sig_layout(blks), j, got[j].dtype, want[j].dtype),
                              where='op:astype_sel')
            if not all(_feq(canon(a), canon(b)) for a, b in zip(arr_list(got[j]), arr_list(want[j]))):
                raise Failure('astype-value', 'astype[%s](%s) on layout %s: column %d values %s expected %s' % (short(key), case['dt'], _sig_layout(blks), j, short(got[j]), short(want[j])),
                              where='op:astype_sel')
    gappy = len(pos) >= 2 and any(b - a > 1 for a, b in zip(sorted(pos), sorted(pos)[1:]))
    return {'nt': gappy or pos != sorted(pos), 'cls': ['astype:' + case['route'], 'astype-gappy' if gappy else 'astype-contiguous']}


# ---------------------------------------------------------------------------------------------

BLOCK_COERCE_OPS = ('fillna', 'fillna_sided', 'fillna_dir', 'assign_bloc', 'assign_element')


def tag_diff(case, f):
    name = case['op']['op']
    # (ii) value-forced dtype resolution coerces the whole 2-D block
    if name in BLOCK_COERCE_OPS and f.kind == 'layout-dtype':
        return 'block-level-dtype-coercion-of-untouched-columns'
    # (iii) one-row frames: a size-one block is passed through unreduced when skipna=False, so a
    # reduction NumPy rejects for the dtype (sum of datetime64) raises only in a unified layout
    if name == 'reduce' and f.kind in ('layout-raise-class', 'layout-raise-vs-value') and not case['op']['args']['skipna'] \
            and case['op']['args']['axis'] == 0 and len(case['rec']['index']['labels']) == 1:
        return 'one-row-skipna-false-reduction-skips-ufunc'
    # (iv) zero-row frames: the value or error of a reduction depends on whether NumPy is handed an
    # empty 1-D block, an empty 2-D block, or several of them
    if name == 'reduce' and len(case['rec']['index']['labels']) == 0:
        return 'zero-row-reduction-depends-on-layout'
    # (viii) astype of a frame in which several columns cannot be converted: both layouts raise, but which
    # element NumPy meets first (row-major inside a 2-D block vs column by column) decides the error class
    if name in ('astype', 'astype_sel') and f.kind == 'layout-raise-class':
        return 'astype-error-class-depends-on-layout'
    # (vi) sum/prod over bool columns: a multi-block frame reduces into a bool output array
    if name == 'reduce' and case['op']['args']['fn'] in ('sum', 'prod') and all(b.dtype.kind == 'b' for b in case['rec']['blocks']):
        return 'sum-prod-of-bool-multiblock-stays-bool'
    # (vii) the output dtype of sum/prod/cumsum/cumprod over narrow integer columns follows the row dtype in a
    # multi-block frame (int32 stays int32) but NumPy's default accumulator (int64) in a unified one
    if name == 'reduce' and f.kind == 'layout-dtype' and case['op']['args']['fn'] in ('sum', 'prod', 'cumsum', 'cumprod') \
            and any(b.dtype.kind in 'iub' and b.dtype.itemsize < 8 for b in case['rec']['blocks']):
        return 'narrow-int-reduction-dtype-depends-on-layout'
    # ... and, when every column is a narrow integer / bool, the *value* too (it wraps in the narrow accumulator only)
    if name == 'reduce' and f.kind == 'layout-value' and case['op']['args']['fn'] in ('sum', 'prod', 'cumsum', 'cumprod') \
            and all(b.dtype.kind in 'iub' and b.dtype.itemsize < 8 for b in case['rec']['blocks']):
        return 'narrow-int-reduction-dtype-depends-on-layout'
    # (ix) bool columns mixed with numeric ones: the row dtype is object and the axis-0 reduction runs on object arrays
    # whose shape follows the block shape (same root as the C15 finding on object row dtypes); only differences in
    # whether / how the call raises
    mixes_bool = any(b.dtype.kind == 'b' for b in case['rec']['blocks']) and any(b.dtype.kind in 'iufc' for b in case['rec']['blocks'])
    if name == 'reduce' and case['op']['args']['axis'] == 0 and f.kind in ('layout-raise-vs-value', 'layout-raise-class') and mixes_bool:
        return 'reduction-over-bool-with-number-rows-depends-on-layout'
    # ... along axis 1 the object rows are compared element by element, and the outcome of min / max over an object row
    # holding NaN depends on the order in which NumPy meets the elements, which follows the block cuts
    if name == 'reduce' and case['op']['args']['axis'] == 1 and mixes_bool and case['op']['args']['fn'] in ('min', 'max', 'median') \
            and f.kind in ('layout-value', 'layout-raise-vs-value', 'layout-raise-class') \
            and any(b.dtype.kind in 'fc' and bool(np.isnan(b).any()) for b in case['rec']['blocks']):
        return 'reduction-over-bool-with-number-rows-depends-on-layout'
    # (v) reductions over frames holding non-numeric columns (str, datetime64, timedelta64, object):
    # the row dtype and hence value type / error depends on consolidation (C15 restricts its own
    # domain to where the function is defined)
    if name == 'reduce' and any(b.dtype.kind not in 'biufc' for b in case['rec']['blocks']):
        cols = gen.block_columns(case['rec']['blocks'])
        axis = case['op']['args']['axis']
        if axis == 1 or f.kind in ('layout-raise-class', 'layout-raise-vs-value', 'layout-kind'):
            return 'reduction-over-non-numeric-columns-depends-on-layout'
        # axis 0: only a difference located at a non-numeric column is explained by this finding
        import re
        mm = re.search(r'result\[(\d+),(\d+)\]', f.detail)
        if mm is not None:
            q = int(mm.group(1)) if case['op']['args']['fn'] not in ('cumsum', 'cumprod') else int(mm.group(2))
            if q < len(cols) and cols[q].dtype.kind not in 'biufc':
                return 'reduction-over-non-numeric-columns-depends-on-layout'
        elif f.kind == 'layout-dtype':
            return 'reduction-over-non-numeric-columns-depends-on-layout'
    return None


def tag_coh(case, f):
    if f.kind.startswith('raised:') and 'items() raised' in f.detail and case['rec']['columns']['kind'] == 'ih':
        return 'frame-items-hierarchical-columns-raises'
    return None


# ---------------------------------------------------------------------------------------------
# single-row and two-row frames: every assignment of column kinds x every reduction x skipna x axis, in a consolidated
# layout, in a layout of (n,1) 2-D blocks and (by check_diff itself) as 1-D blocks: the size-one short cuts live here

LINE_KINDS = ('f_nan', 'f_val', 'int', 'f32_nan')


def _line_col(kind, n, j):
    if kind == 'f_nan':
        a = np.array([2.5 + j + i for i in range(n)], dtype=np.float64)
        a[0] = np.nan
    elif kind == 'f_val':
        a = np.array([1.5 + j + i for i in range(n)], dtype=np.float64)
    elif kind == 'int':
        a = np.array([3 + j + i for i in range(n)], dtype=np.int64)
    else:
        a = np.array([0.5 + j + i for i in range(n)], dtype=np.float32)
        a[n - 1] = np.nan
    return a


def enum_lines(tier):
    import itertools
    shapes = [(1, 1), (1, 2), (1, 3), (2, 2)] if tier == 'quick' else [(1, 1), (1, 2), (1, 3), (1, 4), (2, 2), (2, 3)]
    for (n, m) in shapes:
        for kinds in itertools.product(LINE_KINDS, repeat=m):
            cols = [_line_col(k, n, j) for j, k in enumerate(kinds)]
            rec = {'blocks': gen.layout_consolidated(cols), 'index': {'kind': 'auto', 'labels': list(range(n)), 'name': None},
                   'columns': {'kind': 'auto', 'labels': list(range(m)), 'name': None}, 'name': None}
            lay2 = [c.reshape(n, 1) for c in cols]
            for fn in ops.REDUCE:
                for skipna in (True, False):
                    for axis in (0, 1):
                        yield {'rec': rec, 'lay2': lay2, 'op': {'op': 'reduce', 'args': {'fn': fn, 'axis': axis, 'skipna': skipna}}}


SUBS = [
    Sub('layout_diff', diff_cases(), check_diff, quick=10000, thorough=80000, tag=tag_diff,
        rule='same columns, 3 layouts, one op: equal observations'),
    Sub('missing_layouts', missing_cases(), check_diff, quick=4000, thorough=32000, tag=tag_diff,
        rule='fills / drops / shifts / reductions on frames rich in missing values: same columns, 3 layouts, equal observations'),
    Sub('element_layouts', element_cases(), check_diff, quick=2400, thorough=16000, tag=tag_diff,
        rule='isin (against own cells) / via_str / via_dt / clip / unique / astype on date, time-delta, narrow and text columns: same columns, 3 layouts, equal observations'),
    Sub('line_layouts', None, check_diff, quick=0, thorough=0, tag=tag_diff, enum=enum_lines,
        rule='complete enumeration: one- and two-row frames over 4 column kinds x every reduction x skipna x axis, 3 layouts, equal observations'),
    Sub('astype_layouts', astype_cases(), check_astype, quick=3200, thorough=24000,
        rule='astype[key](dtype) over 4 layouts vs the per-column dtype/value model (keys with gaps inside wide blocks)'),
    Sub('coherence', coh_cases(), check_coh, quick=2400, thorough=16000, tag=tag_coh,
        rule='every read route vs model cells and column dtypes'),
]
