"""C04 — selection returns exactly the addressed rows/columns with their labels.

Model: positions computed with Python list/range semantics on the recipe's label lists;
expected result = model rows/cols at those positions with their labels; scalar keys reduce
dimensionality; absent labels must raise a lookup error.
"""
import datetime

import numpy as np
from hypothesis import strategies as st

from vf import gen, obs
from vf.base import Discard, Failure, Raised, arr_list, canon, eq, is_missing, lib, sf, short
from vf.harness import Sub

PID = 'C04'
RULE = ('frames/series over all layouts and index kinds x keys on one or both axes x routes iloc/loc/getitem/bloc; '
        'non-trivial = >=1 selected position, not the null slice on every axis, and one of: negative step, '
        'out-of-range bound, both axes keyed, bool key, list key, key spans a block boundary, non-flat index')
ASSUMPTIONS = ['absent label => LookupError/KeyError/LocInvalid/IndexError family; empty result for a coarser date key that matches nothing is accepted',
               'repeated positions are not generated (labels must stay unique)']

LOOKUP_ERRORS = ('KeyError', 'LocInvalid', 'LookupError', 'IndexError', 'LocEmpty')
KINDS = ('bool', 'int64', 'float64', '<U3', 'object', 'M8[D]', 'int32', 'float32')


class ExpectRaise(Exception):
    pass


# ---------------------------------------------------------------------------------------------
# key strategies (label space)

def _absent_label(ixrec, v):
    k = ixrec['kind']
    labels = ixrec['labels']
    if k in ('auto', 'int'):
        cands = [1000 + v, -1000 - v]
    elif k == 'str':
        cands = ['zz%d' % v]
    elif k == 'float':
        cands = [1000.25 + v]
    elif k == 'date':
        cands = [np.datetime64(19500 + v, 'D')]
    elif k == 'tuple':
        cands = [(99, 'zz')]
    elif k == 'ih':
        if labels:
            last = labels[0][-1]
            new_last = ('zz%d' % v) if isinstance(last, str) else (np.datetime64(19500 + v, 'D') if isinstance(last, np.datetime64) else 1000 + v)
            cands = [labels[0][:-1] + (new_last,)]
        else:
            cands = [('zz', 'zz')]
    else:
        cands = ['zz%d' % v, 1000 + v]
    for c in cands:
        if not any(eq(c, x) for x in labels):
            return c
    return None


@st.composite
def loc_key(draw, ixrec, allow_scalar=True):
    labels = ixrec['labels']
    n = len(labels)
    kind = ixrec['kind']
    opts = ['null', 'list', 'boolarr', 'boolseries', 'iloc', 'absent', 'list_absent']
    if n:
        opts += ['label', 'label', 'slice', 'slice', 'list']
    if kind == 'date' and n:
        opts += ['datestr', 'datestr', 'dateobj', 'dt64coarse', 'dateslice']
    if kind == 'auto':
        opts += ['auto_oob', 'auto_slice']
    t = draw(st.sampled_from(opts))
    if t == 'null':
        return {'t': 'null'}
    if t == 'label':
        if not allow_scalar:
            t = 'list'
        else:
            return {'t': 'label', 'v': labels[draw(st.integers(0, n - 1))]}
    if t == 'list':
        pos = draw(st.lists(st.integers(0, max(n - 1, 0)), max_size=n, unique=True)) if n else []
        if n >= 3 and draw(st.integers(0, 3)) == 3:
            # labels of one contiguous range of positions with a single adjacent swap
            a = draw(st.integers(0, n - 3))
            b = draw(st.integers(a + 3, n))
            pos = list(range(a, b))
            i = draw(st.integers(0, len(pos) - 2))
            pos[i], pos[i + 1] = pos[i + 1], pos[i]
        return {'t': 'list', 'v': [labels[p] for p in pos], 'as': draw(st.sampled_from(['list', 'array', 'index', 'series']))}
    if t == 'slice':
        i = draw(st.one_of(st.none(), st.integers(0, n - 1)))
        j = draw(st.one_of(st.none(), st.integers(0, n - 1)))
        step = draw(st.sampled_from([None, None, 1, 2, 3, -1, -2]))
        return {'t': 'slice', 'start': None if i is None else labels[i], 'stop': None if j is None else labels[j], 'step': step}
    if t == 'boolarr':
        return {'t': 'boolarr', 'v': np.array(draw(st.lists(st.booleans(), min_size=n, max_size=n)), dtype=bool)}
    if t == 'boolseries':
        pos = draw(st.lists(st.integers(0, max(n - 1, 0)), max_size=n, unique=True)) if n else []
        vals = draw(st.lists(st.booleans(), min_size=len(pos), max_size=len(pos)))
        if kind == 'ih':
            pos = sorted(pos)  # a subsequence of tree-ordered labels is still tree-ordered
        return {'t': 'boolseries', 'labels': [labels[p] for p in pos], 'v': vals}
    if t == 'iloc':
        return {'t': 'iloc', 'v': draw(gen.iloc_key(n, allow_scalar=allow_scalar))}
    if t == 'absent':
        a = _absent_label(ixrec, draw(st.integers(0, 3)))
        if a is None or not allow_scalar:
            return {'t': 'null'}
        return {'t': 'absent', 'v': a}
    if t == 'list_absent':
        a = _absent_label(ixrec, draw(st.integers(0, 3)))
        if a is None:
            return {'t': 'null'}
        pos = draw(st.lists(st.integers(0, max(n - 1, 0)), max_size=min(n, 2), unique=True)) if n else []
        v = [labels[p] for p in pos]
        v.insert(draw(st.integers(0, len(v))), a)
        return {'t': 'list_absent', 'v': v}
    if t == 'datestr':
        lab = labels[draw(st.integers(0, n - 1))]
        unit = draw(st.sampled_from(['D', 'M', 'Y']))
        return {'t': 'datestr', 'v': str(lab.astype('M8[%s]' % unit)), 'unit': unit}
    if t == 'dateobj':
        lab = labels[draw(st.integers(0, n - 1))]
        return {'t': 'dateobj', 'v': lab.astype(object)}
    if t == 'dt64coarse':
        lab = labels[draw(st.integers(0, n - 1))]
        unit = draw(st.sampled_from(['M', 'Y']))
        return {'t': 'dt64coarse', 'v': lab.astype('M8[%s]' % unit), 'unit': unit}
    if t == 'dateslice':
        a = labels[draw(st.integers(0, n - 1))]
        b = labels[draw(st.integers(0, n - 1))]
        return {'t': 'dateslice', 'start': str(a), 'stop': str(b)}
    if t == 'auto_oob':
        return {'t': 'auto_oob', 'v': draw(st.sampled_from([-1, -2, n, n + 3, -n - 1]))}
    if t == 'auto_slice':
        return {'t': 'auto_slice', 'start': draw(st.one_of(st.none(), st.integers(-n - 1, n + 2))),
                'stop': draw(st.one_of(st.none(), st.integers(-n - 1, n + 2)))}
    raise AssertionError(t)


def _pos_of_label(labels, lab):
    for i, x in enumerate(labels):
        if eq(x, lab):
            return i
    raise ExpectRaise('absent label %r' % (lab,))


def model_loc(ixrec, key):
    """(positions, scalar) selected by a label-space key, or ExpectRaise for absent labels."""
    labels = ixrec['labels']
    n = len(labels)
    t = key['t']
    if t == 'null':
        return list(range(n)), False
    if t in ('label', 'absent'):
        return [_pos_of_label(labels, key['v'])], True
    if t in ('list', 'list_absent'):
        return [_pos_of_label(labels, v) for v in key['v']], False
    if t == 'slice':
        step = key['step']
        s = None if key['start'] is None else _pos_of_label(labels, key['start'])
        e = None if key['stop'] is None else _pos_of_label(labels, key['stop'])
        if step is None or step > 0:
            sl = slice(s, None if e is None else e + 1, step)
        else:
            # inclusive stop while walking downwards
            sl = slice(s, None if (e is None or e == 0) else e - 1, step)
        return list(range(*sl.indices(n))), False
    if t == 'boolarr':
        return [i for i, b in enumerate(key['v'].tolist()) if b], False
    if t == 'boolseries':
        m = {}
        for lab, b in zip(key['labels'], key['v']):
            m[canon(lab)] = b
        return [i for i, lab in enumerate(labels) if m.get(canon(lab), False)], False
    if t == 'iloc':
        try:
            return gen.positions_of(key['v'], n)
        except IndexError as e:
            raise ExpectRaise(str(e))
    if t in ('datestr', 'dt64coarse'):
        unit = key['unit']
        k = np.datetime64(key['v'], unit) if t == 'datestr' else key['v']
        if unit == 'D':
            return [_pos_of_label(labels, k)], True
        return [i for i, lab in enumerate(labels) if lab.astype('M8[%s]' % unit) == k], False
    if t == 'dateobj':
        return [_pos_of_label(labels, np.datetime64(key['v'], 'D'))], True
    if t == 'dateslice':
        s = _pos_of_label(labels, np.datetime64(key['start']))
        e = _pos_of_label(labels, np.datetime64(key['stop']))
        return list(range(s, e + 1)), False
    if t == 'auto_oob':
        return [_pos_of_label(labels, key['v'])], True
    if t == 'auto_slice':
        s = None if key['start'] is None else _pos_of_label(labels, key['start'])
        e = None if key['stop'] is None else _pos_of_label(labels, key['stop'])
        return list(range(*slice(s, None if e is None else e + 1).indices(n))), False
    raise AssertionError(t)


def real_key(ixrec, key):
    """The object handed to the library for a key recipe."""
    t = key['t']
    if t == 'null':
        return slice(None)
    if t in ('label', 'absent', 'auto_oob', 'dateobj', 'dt64coarse', 'datestr'):
        return key['v']
    if t == 'list_absent':
        return list(key['v'])
    if t == 'list':
        v = list(key['v'])
        how = key.get('as', 'list')
        if how == 'list' or ixrec['kind'] in ('ih', 'tuple', 'mixed') or not v:
            return v
        if how == 'array':
            return np.array(v)
        if how == 'index':
            return sf.Index(v)
        return sf.Series(v)
    if t == 'slice':
        return slice(key['start'], key['stop'], key['step'])
    if t == 'boolarr':
        return key['v']
    if t == 'boolseries':
        depth = len(ixrec['labels'][0]) if (ixrec['kind'] == 'ih' and ixrec['labels']) else 2
        ix = gen.build_index({**ixrec, 'labels': key['labels'], 'depth': depth, 'kind': ixrec['kind'] if ixrec['kind'] != 'auto' else 'int'})
        return sf.Series(np.array(key['v'], dtype=bool), index=ix)
    if t == 'iloc':
        return sf.ILoc[key['v']]
    if t == 'dateslice':
        return slice(key['start'], key['stop'])
    if t == 'auto_slice':
        return slice(key['start'], key['stop'])
    raise AssertionError(t)


# ---------------------------------------------------------------------------------------------
# cases

@st.composite
def frame_cases(draw):
    rec = draw(gen.frame_recipe(max_rows=6, max_cols=6, kinds=KINDS,
                                index_kinds=('auto', 'int', 'str', 'date', 'ih', 'float'),
                                column_kinds=('auto', 'int', 'str', 'ih')))
    n, m = len(rec['index']['labels']), len(rec['columns']['labels'])
    route = draw(st.sampled_from(['iloc', 'iloc', 'loc', 'loc', 'getitem']))
    if route == 'iloc':
        rk = draw(gen.iloc_key(n))
        ck = draw(st.one_of(st.none(), gen.iloc_key(m)))
        return {'rec': rec, 'route': route, 'rk': rk, 'ck': ck}
    if route == 'loc':
        rk = draw(loc_key(rec['index']))
        ck = draw(st.one_of(st.none(), loc_key(rec['columns'])))
        return {'rec': rec, 'route': route, 'rk': rk, 'ck': ck}
    ck = draw(loc_key(rec['columns']))
    return {'rec': rec, 'route': route, 'rk': None, 'ck': ck}


@st.composite
def series_cases(draw):
    rec = draw(gen.series_recipe(max_size=8, kinds=KINDS,
                                 index_kinds=('auto', 'int', 'str', 'float', 'date', 'mixed', 'ih', 'tuple')))
    n = len(rec['index']['labels'])
    route = draw(st.sampled_from(['iloc', 'loc', 'getitem']))
    if route == 'iloc':
        return {'rec': rec, 'route': route, 'k': draw(gen.iloc_key(n))}
    return {'rec': rec, 'route': route, 'k': draw(loc_key(rec['index']))}


def _key_classes(key, n, prefix):
    out = []
    if isinstance(key, dict):
        out.append('%s:%s' % (prefix, key['t']))
        if key['t'] in ('slice',) and key.get('step') is not None and key['step'] < 0:
            out.append('%s:neg-step' % prefix)
        return out
    if key is None:
        return ['%s:none' % prefix]
    if isinstance(key, slice):
        out.append('%s:slice' % prefix)
        if key.step is not None and key.step < 0:
            out.append('%s:neg-step' % prefix)
        for b in (key.start, key.stop):
            if b is not None and (b > n or b < -n):
                out.append('%s:oob-bound' % prefix)
    elif isinstance(key, np.ndarray) and key.dtype == bool:
        out.append('%s:bool' % prefix)
    elif isinstance(key, (list, np.ndarray)):
        out.append('%s:list' % prefix)
    else:
        out.append('%s:int' % prefix)
    return out


def _is_null(key):
    if key is None:
        return True
    if isinstance(key, dict):
        return key['t'] == 'null'
    return isinstance(key, slice) and key == slice(None)


def check_frame(case):
    rec = case['rec']
    route = case['route']
    f = gen.build_frame(rec)
    cols = gen.block_columns(rec['blocks'])
    il, cl = [canon(x) for x in rec['index']['labels']], [canon(x) for x in rec['columns']['labels']]
    n, m = len(il), len(cl)
    expect_raise = None
    try:
        if route == 'iloc':
            rp, rs = gen.positions_of(case['rk'], n)
            cp, cs = (list(range(m)), False) if case['ck'] is None else gen.positions_of(case['ck'], m)
        elif route == 'loc':
            rp, rs = model_loc(rec['index'], case['rk'])
            cp, cs = (list(range(m)), False) if case['ck'] is None else model_loc(rec['columns'], case['ck'])
        else:
            rp, rs = list(range(n)), False
            cp, cs = model_loc(rec['columns'], case['ck'])
    except ExpectRaise as e:
        expect_raise = str(e)
    except IndexError as e:
        expect_raise = str(e)
    # call
    if route == 'iloc':
        k = case['rk'] if case['ck'] is None else (case['rk'], case['ck'])
        got = lib(lambda: f.iloc[k])
    elif route == 'loc':
        rk = real_key(rec['index'], case['rk'])
        if case['ck'] is None:
            if rec['index']['kind'] == 'ih' and isinstance(rk, tuple):
                got = lib(lambda: f.loc[rk, :])
                if not isinstance(got, Raised):
                    pass
            else:
                got = lib(lambda: f.loc[rk])
        else:
            ck = real_key(rec['columns'], case['ck'])
            got = lib(lambda: f.loc[rk, ck])
    else:
        ck = real_key(rec['columns'], case['ck'])
        got = lib(lambda: f[ck])
    classes = ['route:' + route, 'index:' + rec['index']['kind'], 'columns:' + rec['columns']['kind']]
    classes += _key_classes(case['rk'], n, 'row') + _key_classes(case['ck'], m, 'col')
    if expect_raise is not None:
        if isinstance(got, Raised):
            if got.cls in LOOKUP_ERRORS or isinstance(got.exc, (LookupError,)):
                return {'nt': True, 'cls': classes + ['absent->raises']}
            raise Failure('raised:%s' % got.cls, 'absent key (%s) raised %r instead of a lookup error' % (expect_raise, got.exc), got.where)
        raise Failure('no-raise', 'absent key (%s) returned %s' % (expect_raise, short(got)))
    for ixrec, pos, sc in ((rec['index'], rp, rs), (rec['columns'], cp, cs)):
        if ixrec['kind'] == 'ih' and not sc and not gen.is_tree_order([ixrec['labels'][i] for i in pos]):
            raise Discard('ih-selection-order-not-a-tree')
    if isinstance(got, Raised):
        raise Failure('raised:%s' % got.cls, 'selection defined by the model (rows %s cols %s) raised %r' % (rp, cp, got.exc), got.where)
    rname = il[rp[0]] if rs else None
    cname = cl[cp[0]] if cs else None
    obs.LOOSE_MISSING[0] = True
    if rs and cs:
        want = arr_list(cols[cp[0]])[rp[0]]
        if isinstance(got, (sf.Series, sf.Frame)) or not obs._eqv(got, want):
            raise Failure('value', 'element: expected %r got %s' % (want, short(got)))
    elif rs:
        obs.expect_series(got, [cl[j] for j in cp], [arr_list(cols[j])[rp[0]] for j in cp], 'row', name=rname)
    elif cs:
        c = cols[cp[0]]
        obs.expect_series(got, [il[i] for i in rp], [arr_list(c)[i] for i in rp], 'column', name=cname, dtype=c.dtype)
    else:
        wcols = [[arr_list(cols[j])[i] for i in rp] for j in cp]
        obs.expect_frame(got, [il[i] for i in rp], [cl[j] for j in cp], wcols, 'frame', dtypes=[cols[j].dtype for j in cp])
    # non-trivial rule
    bounds = gen.block_bounds(rec['blocks'])
    spans = len(cp) >= 2 and any(min(cp) < b <= max(cp) for b in bounds)
    nt = bool(rp) and bool(cp) and not (_is_null(case['rk']) and _is_null(case['ck'])) and (
        any(c.endswith(('neg-step', 'oob-bound', ':bool', ':list', ':boolarr', ':boolseries', ':datestr', ':dt64coarse', ':dateslice')) for c in classes)
        or (not _is_null(case['rk']) and not _is_null(case['ck'])) or spans
        or rec['index']['kind'] in ('ih', 'date') or rec['columns']['kind'] == 'ih')
    if spans:
        classes.append('spans-block-boundary')
        if any(b.ndim == 2 and b.shape[1] >= 3 for b in rec['blocks']) and cp != sorted(cp):
            classes.append('non-ascending-in-wide-layout')
    return {'nt': nt, 'cls': classes}


def check_series(case):
    rec = case['rec']
    route = case['route']
    s = gen.build_series(rec)
    vals = arr_list(rec['values'])
    il = [canon(x) for x in rec['index']['labels']]
    n = len(il)
    expect_raise = None
    try:
        if route == 'iloc':
            p, sc = gen.positions_of(case['k'], n)
        else:
            p, sc = model_loc(rec['index'], case['k'])
    except (ExpectRaise, IndexError) as e:
        expect_raise = str(e)
    if route == 'iloc':
        got = lib(lambda: s.iloc[case['k']])
    else:
        k = real_key(rec['index'], case['k'])
        got = lib(lambda: s.loc[k]) if route == 'loc' else lib(lambda: s[k])
    classes = ['sroute:' + route, 'sindex:' + rec['index']['kind']] + _key_classes(case['k'], n, 'skey')
    if expect_raise is not None:
        if isinstance(got, Raised):
            if got.cls in LOOKUP_ERRORS or isinstance(got.exc, LookupError):
                return {'nt': True, 'cls': classes + ['absent->raises']}
            raise Failure('raised:%s' % got.cls, 'absent key (%s) raised %r instead of a lookup error' % (expect_raise, got.exc), got.where)
        raise Failure('no-raise', 'absent key (%s) returned %s' % (expect_raise, short(got)))
    if rec['index']['kind'] == 'ih' and not sc and not gen.is_tree_order([rec['index']['labels'][i] for i in p]):
        raise Discard('ih-selection-order-not-a-tree')
    if isinstance(got, Raised):
        raise Failure('raised:%s' % got.cls, 'selection defined by the model (positions %s) raised %r' % (p, got.exc), got.where)
    if sc:
        if isinstance(got, (sf.Series, sf.Frame)) or not eq(got, vals[p[0]]):
            raise Failure('value', 'element: expected %r got %s' % (vals[p[0]], short(got)))
    else:
        obs.expect_series(got, [il[i] for i in p], [vals[i] for i in p], 'series', name=rec.get('name'), dtype=rec['values'].dtype)
    nt = bool(p) and not _is_null(case['k']) and (not sc or rec['index']['kind'] in ('ih', 'date', 'mixed', 'tuple'))
    return {'nt': nt, 'cls': classes}


# ---------------------------------------------------------------------------------------------
# bloc

@st.composite
def bloc_cases(draw):
    rec = draw(gen.frame_recipe(min_rows=1, max_rows=5, min_cols=1, max_cols=5, kinds=KINDS,
                                index_kinds=('auto', 'int', 'str'), column_kinds=('auto', 'int', 'str')))
    n, m = len(rec['index']['labels']), len(rec['columns']['labels'])
    mask = np.array(draw(st.lists(st.booleans(), min_size=n * m, max_size=n * m)), dtype=bool).reshape(n, m)
    return {'rec': rec, 'mask': mask, 'how': draw(st.sampled_from(['array', 'frame', 'frame_permuted']))}


def check_bloc(case):
    rec = case['rec']
    f = gen.build_frame(rec)
    cols = gen.block_columns(rec['blocks'])
    il, cl = [canon(x) for x in rec['index']['labels']], [canon(x) for x in rec['columns']['labels']]
    mask = case['mask']
    if case['how'] == 'array':
        key = mask
    else:
        key = sf.Frame(mask, index=f.index, columns=f.columns)
        if case['how'] == 'frame_permuted':
            key = key.iloc[::-1, ::-1]
    got = lib(lambda: f.bloc[key])
    if isinstance(got, Raised):
        raise Failure('raised:%s' % got.cls, 'bloc raised %r' % got.exc, got.where)
    if not isinstance(got, sf.Series):
        raise Failure('kind', 'bloc returned %s' % short(got))
    want = {}
    for i in range(len(il)):
        for j in range(len(cl)):
            if mask[i, j]:
                want[(il[i], cl[j])] = arr_list(cols[j])[i]
    gl = obs.labels_of(got.index)
    gv = arr_list(got.values)
    if len(gl) != len(want):
        raise Failure('length', 'bloc: expected %d cells got %d (%s)' % (len(want), len(gl), short(gl)))
    for lab, v in zip(gl, gv):
        lab = canon(lab)
        if lab not in want:
            raise Failure('labels', 'bloc: unexpected label %r' % (lab,))
        if not (eq(want[lab], v) or (is_missing(want[lab]) and is_missing(v))):
            raise Failure('value', 'bloc[%r]: expected %r got %r' % (lab, want[lab], v))
    return {'nt': 0 < len(want) < mask.size, 'cls': ['bloc:' + case['how']]}


# ---------------------------------------------------------------------------------------------
# known-finding classifiers

def _keys(case):
    return [k for k in (case.get('rk'), case.get('ck'), case.get('k')) if isinstance(k, dict)]


def _ix_for(case, key):
    rec = case['rec']
    if case.get('k') is key or case.get('rk') is key:
        return rec['index']
    return rec['columns']


def tag(case, f):
    keys = _keys(case)
    # (a) auto index: loc/getitem keys are passed through as positions
    if f.kind == 'no-raise':
        for k in keys:
            ix = _ix_for(case, k)
            if ix['kind'] == 'auto' and k['t'] in ('auto_oob', 'auto_slice', 'absent', 'list_absent'):
                return 'auto-index-loc-passthrough'
    # (a) compound: the absent key was passed through and the other axis is a hierarchical index selected in a
    # non-tree order, whose construction is (rightly) rejected before any lookup error could surface
    if f.kind == 'raised:ErrorInitIndex' and 'absent key' in f.detail:
        for k in keys:
            ix = _ix_for(case, k)
            if ix['kind'] == 'auto' and k['t'] in ('auto_oob', 'auto_slice', 'absent', 'list_absent'):
                return 'auto-index-loc-passthrough'
    # (b) descending label slice with an explicit stop
    if f.kind in ('labels', 'length', 'value', 'shape'):
        for k in keys:
            if k['t'] == 'slice' and k['step'] is not None and k['step'] < 0 and k['stop'] is not None:
                return 'descending-label-slice-drops-stop'
    return None


def lib_positions(ixrec, key, n):
    """Positions the library is *known* to select (known findings (a) and (b) emulated); used only
    to classify compound failures, never as an oracle."""
    if key is None:
        return list(range(n)), False
    if not isinstance(key, dict):
        return gen.positions_of(key, n)
    t = key['t']
    if ixrec['kind'] == 'auto' and t in ('auto_slice', 'auto_oob', 'absent'):
        if t == 'auto_slice':
            stop = key['stop']
            return list(range(*slice(key['start'], None if stop is None else stop + 1).indices(n))), False
        return gen.positions_of(key['v'], n)
    if t == 'slice' and key['step'] is not None and key['step'] < 0 and key['stop'] is not None:
        labels = ixrec['labels']
        s_ = None if key['start'] is None else _pos_of_label(labels, key['start'])
        e_ = _pos_of_label(labels, key['stop'])
        return list(range(*slice(s_, e_ + 1, key['step']).indices(n))), False
    return model_loc(ixrec, key)


def tag_frame(case, f):
    t = tag(case, f)
    if t:
        return t
    rec = case['rec']
    n, m = len(rec['index']['labels']), len(rec['columns']['labels'])
    # (c) row subset x empty column selection
    if f.kind == 'raised:ErrorInitFrame' and f.where.startswith('frame.py'):
        try:
            if case['route'] == 'iloc':
                rp, rs = gen.positions_of(case['rk'], n)
                cp, cs = gen.positions_of(case['ck'], m) if case['ck'] is not None else (list(range(m)), False)
            else:
                rp, rs = lib_positions(rec['index'], case['rk'], n)
                cp, cs = lib_positions(rec['columns'], case['ck'], m)
            if not cp and not cs and not rs and len(rp) != n:
                return 'row-subset-x-empty-columns-raises'
        except Exception:  # noqa: BLE001
            pass
    return None


def enum_slices(tier):
    """Every positional slice over start/stop in [-n-2, n+2] (and None) and step in {None, 1, 2, 3, -1, -2, -3}
    for n <= 5 (quick) / 6 (thorough), applied to a Series, to Frame rows and to Frame columns (one wide block
    plus a 1-D block, so descending slices cross a block boundary)."""
    top = 5 if tier == 'quick' else 6
    for n in range(0, top + 1):
        bounds = [None] + list(range(-n - 2, n + 3))
        for start in bounds:
            for stop in bounds:
                for step in (None, 1, 2, 3, -1, -2, -3):
                    for target in ('series', 'rows', 'cols'):
                        yield {'n': n, 'slice': (start, stop, step), 'target': target}


def check_slice(case):
    n = case['n']
    sl = slice(*case['slice'])
    pos = list(range(n))[sl]
    if case['target'] == 'series':
        s = sf.Series(np.arange(n) * 10, index=['r%d' % i for i in range(n)])
        r = lib(lambda: s.iloc[sl])
        if isinstance(r, Raised):
            raise Failure('raised:%s' % r.cls, 'Series.iloc[%r] (n=%d) raised %r' % (sl, n, r.exc), r.where)
        obs.expect_series(r, ['r%d' % i for i in pos], [i * 10 for i in pos], 'Series.iloc[%r]' % (sl,))
    elif case['target'] == 'rows':
        f = sf.Frame(np.arange(n * 2).reshape(n, 2), index=['r%d' % i for i in range(n)], columns=('a', 'b'))
        r = lib(lambda: f.iloc[sl])
        if isinstance(r, Raised):
            raise Failure('raised:%s' % r.cls, 'Frame.iloc[%r] (n=%d) raised %r' % (sl, n, r.exc), r.where)
        obs.expect_frame(r, ['r%d' % i for i in pos], ['a', 'b'], [[i * 2 for i in pos], [i * 2 + 1 for i in pos]], 'Frame.iloc[%r]' % (sl,))
    else:
        blocks = []
        if n >= 1:
            w = max(n - 1, 1)
            blocks.append(np.arange(2 * w).reshape(2, w))
            if n - w:
                blocks.append(np.array([100.5, 200.5]))
        f = sf.Frame(sf.TypeBlocks.from_blocks([gen.freeze(b) for b in blocks], shape_reference=(2, n)), columns=['c%d' % j for j in range(n)], own_data=True)
        cols = gen.block_columns(blocks)
        r = lib(lambda: f.iloc[:, sl])
        if isinstance(r, Raised):
            raise Failure('raised:%s' % r.cls, 'Frame.iloc[:, %r] (m=%d) raised %r' % (sl, n, r.exc), r.where)
        obs.expect_frame(r, [0, 1], ['c%d' % j for j in pos], [arr_list(cols[j]) for j in pos], 'Frame.iloc[:, %r]' % (sl,), dtypes=[cols[j].dtype for j in pos])
    s0, s1, st_ = case['slice']
    nt = bool(pos) and (st_ is not None and st_ < 0 or (s0 is not None and abs(s0) > n) or (s1 is not None and abs(s1) > n))
    return {'nt': nt, 'cls': ['exhaustive-slice:' + case['target']]}


# ---------------------------------------------------------------------------------------------
# selection on grow-only containers straight after growth (no read in between), differential against a static
# container built afresh with the same content: the addressed rows/columns must be the same

# (Hypothesis favours the first entries of sampled_from: the partial-date and container-shaped keys come first)
GO_KEYS = ('month', 'month_dt64', 'list', 'year', 'pydate', 'month_slice', 'slice', 'bool', 'list_dates_str', 'slice_open', 'contains',
           'label_last', 'label_mid', 'iloc_neg_slice', 'label_first', 'iloc_last')


@st.composite
def go_cases(draw):
    # the choices that decide *what* is exercised are drawn first: Hypothesis extends a random prefix with minimal
    # choices for a share of its examples, which would pin late draws to their first option
    kind = draw(st.sampled_from(['date', 'date', 'str', 'int']))
    key = draw(st.sampled_from(GO_KEYS if kind == 'date' else [k for k in GO_KEYS if k not in ('month', 'month_dt64', 'year', 'pydate', 'month_slice', 'list_dates_str')]))
    route = draw(st.sampled_from(['getitem', 'loc', 'index']))
    how = draw(st.sampled_from(['setitem', 'extend_series', 'index_append']))
    read_before = draw(st.sampled_from(['none', 'values', 'len', 'repr', 'loc']))
    # the grown frame is itself derived from a source frame (without copying its data) two times in five: the source is selected from too
    derive = draw(st.sampled_from([None, 'to_frame_go', None, 'rename', None, 'ctor', 'relabel']))
    i, j, mask = draw(st.integers(0, 20)), draw(st.integers(0, 20)), draw(st.integers(1, 2 ** 7))
    m0 = draw(st.integers(0, 3))
    grow = draw(st.integers(1, 3))
    total = m0 + grow
    if kind == 'date':
        offs = sorted(draw(st.lists(st.integers(0, 75), min_size=total, max_size=total, unique=True)))
        labels = [np.datetime64('2020-01-20', 'D') + np.timedelta64(o, 'D') for o in offs]
    elif kind == 'str':
        labels = sorted(draw(st.lists(st.text(alphabet='abcde', min_size=1, max_size=2), min_size=total, max_size=total, unique=True)))
    else:
        labels = sorted(draw(st.lists(st.integers(-5, 30), min_size=total, max_size=total, unique=True)))
    if draw(st.booleans()):
        labels = draw(st.permutations(labels))
    return {'kind': kind, 'labels': list(labels), 'm0': m0, 'read_before': read_before, 'how': how, 'key': key, 'i': i, 'j': j, 'mask': mask, 'route': route, 'derive': derive}


def _go_key(case, labels):
    kind, k = case['kind'], case['key']
    n = len(labels)
    i, j = case['i'] % n, case['j'] % n
    if k == 'label_last':
        return labels[-1]
    if k == 'label_first':
        return labels[0]
    if k == 'label_mid':
        return labels[i]
    if k == 'list':
        pos = [p for p in range(n) if (case['mask'] >> p) & 1] or [n - 1]
        return [labels[p] for p in pos]
    if k == 'bool':
        return np.array([bool((case['mask'] >> p) & 1) for p in range(n)])
    if k in ('slice', 'slice_open'):
        lo, hi = sorted((i, j))
        return slice(labels[lo], None if k == 'slice_open' else labels[hi])
    if k == 'iloc_last':
        return sf.ILoc[-1]
    if k == 'iloc_neg_slice':
        return sf.ILoc[-(i % n + 1):]
    if k == 'contains':
        return ('contains', labels[-1])
    if kind != 'date':
        return labels[-1]
    lab = labels[-1] if i % 2 else labels[i]
    if k == 'month':
        return str(lab)[:7]
    if k == 'month_dt64':
        return np.datetime64(str(lab)[:7], 'M')
    if k == 'year':
        return str(lab)[:4]
    if k == 'pydate':
        return lab.astype(datetime.date)
    if k == 'month_slice':
        return slice(str(min(labels))[:7], str(max(labels))[:7])
    if k == 'list_dates_str':
        return [str(labels[-1]), str(labels[0])] if n > 1 else [str(labels[-1])]
    return lab


def check_go(case):
    kind, labels, m0 = case['kind'], case['labels'], case['m0']
    n = len(labels)
    ix_cls, ixgo_cls = (sf.IndexDate, sf.IndexDateGO) if kind == 'date' else (sf.Index, sf.IndexGO)
    vals = [np.arange(3) + 10 * q for q in range(n)]
    standalone = case['how'] == 'index_append' or case['route'] == 'index'
    if standalone:
        go = ixgo_cls(labels[:m0])
    else:
        go = sf.FrameGO.from_items(list(zip(labels[:m0], vals[:m0])), index=('r0', 'r1', 'r2'), columns_constructor=ixgo_cls) if m0 else sf.FrameGO(index=('r0', 'r1', 'r2'), columns=ixgo_cls(()))
    src0 = None
    if case.get('derive') and not standalone and m0:
        # `go` is derived from a source frame by a route that shares the data; only the derived frame grows afterwards
        src0 = go if case['derive'] != 'to_frame_go' else go.to_frame()
        go = {'to_frame_go': lambda: src0.to_frame_go(), 'rename': lambda: src0.rename(None), 'ctor': lambda: sf.FrameGO(src0),
              'relabel': lambda: src0.relabel(columns=ixgo_cls(labels[:m0]))}[case['derive']]()
    tgt_ix = go if standalone else go.columns
    rb = case['read_before']
    if rb == 'values':
        tgt_ix.values
    elif rb == 'len':
        len(tgt_ix)
    elif rb == 'repr':
        repr(go)
    elif rb == 'loc' and m0:
        tgt_ix.loc_to_iloc(labels[0])
    for q in range(m0, n):
        if standalone:
            go.append(labels[q])
        elif case['how'] == 'setitem':
            go[labels[q]] = vals[q]
        else:
            go.extend(sf.Series(vals[q], index=go.index, name=labels[q]))
    # no read of the grown container before the selection
    key = _go_key(case, labels)
    if standalone:
        static = ix_cls(labels)
    else:
        static = sf.Frame.from_items(list(zip(labels, vals)), index=('r0', 'r1', 'r2'), columns_constructor=ix_cls)

    def select(c, key=key):
        if isinstance(key, tuple) and key and key[0] == 'contains':
            return key[1] in (c if standalone else c.columns)
        if standalone:
            return c.loc_to_iloc(key) if case['route'] != 'loc' else c.loc[key]
        if case['route'] == 'loc':
            return c.loc[:, key]
        return c[key] if not isinstance(key, sf.ILoc) else c.loc[:, key]
    want = lib(select, static)
    got = lib(select, go)
    what = '%s %s key %s after %s of %d labels onto %d (read before: %s)' % ('index' if standalone else 'FrameGO', case['route'], short(key, 80), case['how'], n - m0, m0, rb)
    if isinstance(want, Raised):
        if not isinstance(got, Raised):
            raise Failure('no-raise', '%s: the static twin raised %s, the grown container returned %s' % (what, want.cls, short(got, 120)))
        return {'nt': False, 'cls': ['go-key:' + case['key'], 'go-both-raise']}
    if isinstance(got, Raised):
        raise Failure('raised:%s' % got.cls, '%s raised %r; the static twin returned %s' % (what, got.exc, short(want, 120)), got.where)

    def norm(x):
        if isinstance(x, (sf.Frame, sf.Series, sf.Index)):
            sn = obs.snap(x)
            return (sn[0],) + tuple(sn[2:])  # without the class name (grow-only vs static)
        if isinstance(x, np.ndarray):
            return ('A', x.tolist())
        if isinstance(x, slice):
            return ('slice', x.start, x.stop, x.step)
        return ('E', canon(x) if not isinstance(x, (list, tuple)) else [canon(e) for e in x])
    if norm(got) != norm(want):
        raise Failure('go-differs', '%s: grown container gives %s, static twin gives %s' % (what, short(norm(got), 200), short(norm(want), 200)))
    # and again after the container has been read (the result must not depend on the read either)
    if not standalone:
        go.columns.values
    else:
        go.values
    got2 = lib(select, go)
    if isinstance(got2, Raised) or norm(got2) != norm(want):
        raise Failure('go-differs', '%s: after a read, grown container gives %s, static twin gives %s' % (what, short(got2, 200), short(norm(want), 200)))
    if src0 is not None:
        # the source the grown frame was derived from still selects as the frame of its own columns does
        key0 = _go_key(case, labels[:m0])
        static0 = sf.Frame.from_items(list(zip(labels[:m0], vals[:m0])), index=('r0', 'r1', 'r2'), columns_constructor=ix_cls)
        want0, got0 = lib(select, static0, key0), lib(select, src0, key0)
        what0 = 'source of a frame derived by %s that grew by %d columns: %s key %s' % (case['derive'], n - m0, case['route'], short(key0, 80))
        if isinstance(want0, Raised) != isinstance(got0, Raised):
            bad = got0 if isinstance(got0, Raised) else want0
            raise Failure('raised:%s' % bad.cls, '%s: %s raised %r, the other returned %s' % (what0, 'the source' if bad is got0 else 'its static twin', bad.exc, short(want0 if bad is got0 else got0, 120)), bad.where)
        if not isinstance(want0, Raised) and norm(got0) != norm(want0):
            raise Failure('go-differs', '%s: the source gives %s, the frame of its own columns gives %s' % (what0, short(norm(got0), 200), short(norm(want0), 200)))
    return {'nt': True, 'cls': ['go-key:' + case['key'], 'go-kind:' + kind, 'go-route:' + ('index' if standalone else case['route']), 'go-read-before:' + rb,
                                'go-derived:%s' % (case.get('derive') if src0 is not None else None)]}


EXHAUSTIVE = {'quick': False, 'thorough': False}


def extra_evidence(tier):
    return {'exhaustive_subdomain': 'slices_exhaustive: every positional slice with start/stop in [-n-2, n+2] or None and step in {None,1,2,3,-1,-2,-3} for n <= %d on Series, Frame rows, Frame columns' % (5 if tier == 'quick' else 6)}


def _hier_cases():
    # per-level selection of the rows / columns of Series and Frames labelled by a hierarchy (the generator and the reference
    # matcher are those of C05, restricted to containers)
    from vf.props.c05 import hloc_cases
    return hloc_cases().filter(lambda c: c['target'] != 'index')


def check_hier(case):
    from vf.props.c05 import check_hloc
    return check_hloc(case)


# ---------------------------------------------------------------------------------------------
# lists of coarser-resolution datetimes on long datetime-typed axes

@st.composite
def coarse_list_cases(draw):
    """A datetime-typed axis of 24..80 labels spread over many periods and a key listing most (or a few) of those periods in the
    coarser unit: every label inside a listed period is selected, no label of a period that is not listed."""
    cls = draw(st.sampled_from(['IndexDate', 'IndexDate', 'IndexYearMonth']))
    target = draw(st.sampled_from(['series', 'frame_cols', 'index', 'series_getitem']))
    form = draw(st.sampled_from(['array', 'list', 'strs']))
    mode = draw(st.sampled_from(['most', 'most', 'few']))
    n = draw(st.sampled_from([60, 40, 24, 80]))
    stride = draw(st.sampled_from([15, 10, 20, 12])) if cls == 'IndexDate' else draw(st.sampled_from([4, 3, 5]))
    start = draw(st.integers(0, 40))
    dropped = draw(st.lists(st.integers(0, 200), min_size=1, max_size=4)) if mode == 'most' else draw(st.lists(st.integers(0, 200), min_size=1, max_size=5))
    absent = draw(st.integers(0, 2))     # periods before the first label, listed although nothing lies inside them
    perm = draw(st.booleans())
    return {'cls': cls, 'target': target, 'form': form, 'mode': mode, 'n': n, 'stride': stride, 'start': start, 'dropped': dropped, 'absent': absent, 'perm': perm}


def check_coarse_lists(case):
    unit, cunit = ('D', 'M') if case['cls'] == 'IndexDate' else ('M', 'Y')
    base = np.datetime64('2001-01-01', unit) + np.timedelta64(case['start'], unit)
    labels = base + (np.arange(case['n']) * case['stride']).astype('m8[%s]' % unit)
    periods = labels.astype('M8[%s]' % cunit)
    present = list(dict.fromkeys(periods.tolist()))
    present = [np.datetime64(x, cunit) for x in present]
    if case['mode'] == 'most':
        drop = {d % len(present) for d in case['dropped']}
        chosen = [x for q, x in enumerate(present) if q not in drop]
    else:
        chosen = [present[d % len(present)] for d in dict.fromkeys(case['dropped'])]
        chosen = list(dict.fromkeys(chosen))
    chosen = [present[0] - np.timedelta64(q + 1, cunit) for q in range(case['absent'])] + chosen
    if case['perm']:
        chosen = chosen[1::2] + chosen[0::2]
    if not chosen:
        raise Discard('empty key')
    key = {'array': lambda: np.array(chosen, dtype='M8[%s]' % cunit), 'list': lambda: list(chosen), 'strs': lambda: [str(x) for x in chosen]}[case['form']]()
    ix = getattr(sf, case['cls'])(labels)
    want = [q for q in range(case['n']) if any(periods[q] == c for c in chosen)]
    what = '%s of %d labels, key of %d %s periods as %s (%s)' % (case['cls'], case['n'], len(chosen), cunit, case['form'], case['target'])
    if case['target'] == 'series':
        r = lib(lambda: sf.Series(np.arange(case['n']), index=ix).loc[key])
    elif case['target'] == 'series_getitem':
        r = lib(lambda: sf.Series(np.arange(case['n']), index=ix)[key])
    elif case['target'] == 'frame_cols':
        r = lib(lambda: sf.Frame(np.arange(case['n'] * 2).reshape(2, case['n']), columns=ix).loc[:, key].iloc[0] // 1)
    else:
        r = lib(lambda: sf.Series(np.arange(case['n']), index=ix).iloc[ix.loc_to_iloc(key)])
    if isinstance(r, Raised):
        raise Failure('raised:%s' % r.cls, '%s raised %r' % (what, r.exc), r.where)
    if not isinstance(r, sf.Series):
        raise Failure('dimension', '%s returned %s' % (what, type(r).__name__))
    got_pos = [int(v) for v in arr_list(r.values)]
    got_labels = [np.datetime64(x, unit) for x in arr_list(r.index.values)]
    if any(labels[p] != l for p, l in zip(got_pos, got_labels)) or len(got_pos) != len(got_labels):
        raise Failure('pairing', '%s: a value is no longer paired with its label' % what)
    if sorted(got_pos) != want:
        extra = [str(labels[p]) for p in got_pos if p not in want]
        lost = [str(labels[p]) for p in want if p not in got_pos]
        raise Failure('positions', '%s: %d labels selected, %d expected; outside the listed periods: %s; missing: %s' % (what, len(got_pos), len(want), short(extra, 120), short(lost, 120)))
    # a list selector orders the matches by the list: the labels of the first listed period (in index order), then those of the second ...
    want_order = [q for c in chosen for q in range(case['n']) if periods[q] == c]
    if got_pos != want_order:
        raise Failure('order', '%s: positions %s expected %s (key order)' % (what, short(got_pos), short(want_order)))
    long_key = len(chosen) >= 10 * case['n'] ** 0.145
    return {'nt': len(want) < case['n'] and len(chosen) >= 2,
            'cls': ['coarse:' + case['cls'], 'coarse-form:' + case['form'], 'coarse-target:' + case['target'], 'coarse-key:' + ('long' if long_key else 'short'),
                    'coarse-absent:%d' % case['absent']]}


SUBS = [
    Sub('hier_selection', _hier_cases(), check_hier, quick=2400, thorough=16000,
        rule='Series / Frame selection on a hierarchical axis (HLoc with labels, lists, slices incl. stepped and descending, masks; tuples; ILoc) vs per-level matcher'),
    Sub('frame', frame_cases(), check_frame, quick=10000, thorough=64000, tag=tag_frame,
        rule='Frame iloc/loc/getitem vs list model'),
    Sub('series', series_cases(), check_series, quick=10000, thorough=64000, tag=tag,
        rule='Series iloc/loc/getitem vs list model'),
    Sub('bloc', bloc_cases(), check_bloc, quick=2000, thorough=8000,
        rule='Frame.bloc vs {(row,col): value} mapping'),
    Sub('go_selection', go_cases(), check_go, quick=6000, thorough=32000,
        rule='selection on grow-only frames / indices straight after growth (16 key forms incl. partial dates) vs the same selection on a static twin'),
    Sub('coarse_lists', coarse_list_cases(), check_coarse_lists, quick=1600, thorough=12000,
        rule='lists / arrays of coarser-resolution datetimes (months on a daily axis, years on a monthly one; 2..40 periods, most or few of those present) on axes of 24..80 labels select exactly the labels inside the listed periods'),
    Sub('slices_exhaustive', None, check_slice, quick=0, thorough=0, enum=enum_slices,
        rule='complete enumeration of positional slices on small axes (exhaustive sub-domain)'),
]
