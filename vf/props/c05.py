"""C05 — hierarchical index: tree and table views agree; per-level selection is exact.

views:  construction route x optional IndexHierarchyGO history (append / extend with reads that
        materialise caches in between) -> every view describes the model list of tuples.
hloc:   per-level selectors vs a recursive reference over the tuple list (a list selector orders
        the matches of its level by the list); Series / Frame rows selected with HLoc.
"""
import numpy as np
from hypothesis import strategies as st

from vf import gen, obs
from vf.base import Discard, Failure, Raised, arr_list, canon, eq, lib, sf, short
from vf.harness import Sub
from vf.props.c02 import check_index, construct, base as c02_base, absent_for

PID = 'C05'
RULE = ('tree-shaped tuple lists (depth 2-3, ragged, repeated inner labels, str/int/date levels) x construction route x GO history; '
        'per-level selectors (label, list, slice, all, innermost bool, whole-key bool, full tuple, list of tuples, ILoc); '
        'non-trivial = ragged tree and a selector other than a full tuple, or a read after growth')
ASSUMPTIONS = ['selectors matching nothing, label-slice endpoints absent from a visited subtree, and bool masks at outer depths are outside the claim (discarded, counted)',
               'datetime64 levels use IndexDate via index_constructors']


def views_agree(ih, model, what):
    check_index(ih, model, what)
    n = len(model)
    depth = ih.depth

    def need(c, kind, msg):
        if not c:
            raise Failure(kind, '%s: %s' % (what, msg))

    need(ih.shape == (n, depth), 'shape', 'shape %s expected (%d,%d)' % (ih.shape, n, depth))
    if n:
        need(depth == len(model[0]), 'depth', 'depth %d' % depth)
    for d in range(depth):
        col = arr_list(ih.values_at_depth(d))
        need(len(col) == n and all(eq(canon(c), canon(m[d])) for c, m in zip(col, model)), 'values_at_depth',
             'values_at_depth(%d) %s expected %s' % (d, short(col), short([m[d] for m in model])))
        need(not ih.values_at_depth(d).flags.writeable, 'writeable', 'values_at_depth(%d) writeable' % d)
    if n:
        # label widths at depth 0: runs of equal outer labels
        runs = []
        for m in model:
            if runs and eq(canon(runs[-1][0]), canon(m[0])):
                runs[-1][1] += 1
            else:
                runs.append([m[0], 1])
        lw = lib(lambda: list(ih.label_widths_at_depth(0)))
        if isinstance(lw, Raised):
            raise Failure('raised:%s' % lw.cls, 'label_widths_at_depth raised %r' % lw.exc, lw.where)
        need(len(lw) == len(runs) and all(eq(canon(a[0]), canon(b[0])) and a[1] == b[1] for a, b in zip(lw, runs)), 'label_widths',
             'label_widths_at_depth(0) %s expected %s' % (short(lw), short(runs)))
        fl = lib(ih.flat)
        if isinstance(fl, Raised):
            raise Failure('raised:%s' % fl.cls, 'flat() raised %r' % fl.exc, fl.where)
        need(fl.depth == 1 and len(fl) == n and all(eq(canon(a), canon(b)) for a, b in zip(list(fl), model)), 'flat', 'flat() %s' % short(list(fl)))
        fr = lib(ih.to_frame)
        if isinstance(fr, Raised):
            raise Failure('raised:%s' % fr.cls, 'to_frame() raised %r' % fr.exc, fr.where)
        need(fr.shape == (n, depth), 'to_frame', 'to_frame shape %s' % (fr.shape,))
        for d, col in enumerate(obs.frame_cols(fr)):
            need(all(eq(canon(c), canon(m[d])) for c, m in zip(arr_list(col), model)), 'to_frame', 'to_frame column %d %s' % (d, short(col)))


# ---------------------------------------------------------------------------------------------
# views + GO history

STEPS = ('append_leaf', 'append_outer', 'append_earlier', 'append_dup', 'extend_new', 'extend_shared', 'extend_partial', 'read', 'to_static', 'copy')


@st.composite
def view_cases(draw):
    b = draw(c02_base().filter(lambda b: b['kind'] == 'ih'))
    steps = draw(st.lists(st.fixed_dictionaries({'s': st.sampled_from(STEPS), 'i': st.integers(0, 30), 'j': st.integers(0, 30),
                                                 'read': st.sampled_from(['values', 'len', 'iter', 'lookup', 'none', 'values_at_depth']),
                                                 'quiet': st.booleans()}), max_size=8))
    return {'base': b, 'steps': steps}


def _new_label_like(x, v):
    if isinstance(x, tuple):
        return (_new_label_like(x[0], v), 0)
    if isinstance(x, str):
        return 'n%d' % v
    if isinstance(x, np.datetime64):
        return np.datetime64(19000 + v, 'D')
    if isinstance(x, (bool, np.bool_)):
        return 900 + v
    return 900 + v


def check_views(case):
    from vf.props import c02 as _c02
    del _c02.DEFERRED[:]   # (findings that C02 lists and reports at the end of its own cases are not re-reported here)
    b = case['base']
    ih = lib(construct, b)
    if isinstance(ih, Raised):
        raise Failure('raised:%s' % ih.cls, 'construction %s raised %r' % (b['route'], ih.exc), ih.where)
    model = list(b['labels'])
    if b['route'] == 'reorder':
        model = [next(m for m in model if eq(canon(m), o)) for o in obs.labels_of(ih)]
    classes = ['route:' + b['route'], 'depth:%d' % ih.depth, 'go' if b['go'] else 'static']
    views_agree(ih, model, 'constructed')
    if b.get('_sources'):
        # built from grow-only component indices: the hierarchy holds what it was given at construction, whatever they do later
        for src in b.pop('_sources'):
            src.append(9990)
        views_agree(ih, model, 'constructed(from_index_items) after its grow-only component indices grew')
        classes.append('component-sources-grown')
    if b['go'] and model and not any(isinstance(x, (np.datetime64, tuple)) for m in model for x in m) and len(case['steps']) % 3 == 0:
        # a grow-only hierarchy that starts without labels: an extend it refuses must leave it as it was, and appending the labels
        # one by one must arrive at the same views
        e0 = lib(lambda: sf.IndexHierarchyGO.from_labels((), depth_reference=ih.depth))
        if not isinstance(e0, Raised):
            r0 = lib(e0.extend, sf.IndexHierarchy.from_labels(model))
            if isinstance(r0, Raised):
                st0 = lib(lambda: (len(e0), list(e0), tuple(model[0]) in e0))
                if isinstance(st0, Raised) or st0[0] != 0 or st0[1] or st0[2]:
                    raise Failure('not-all-or-nothing', 'extend refused by an empty grow-only hierarchy (%r) left it changed: %s' % (r0.exc, short(st0)))
                for m in model:
                    a0 = lib(e0.append, tuple(m))
                    if isinstance(a0, Raised):
                        raise Failure('raised:%s' % a0.cls, 'append(%r) to a hierarchy grown from empty raised %r' % (m, a0.exc), a0.where)
            views_agree(e0, model, 'grown from an empty hierarchy')
            classes.append('from-empty')
    frozen = []  # (static copy, model at that time)
    grown = reads_after_growth = 0
    if b['go']:
        for st_ in case['steps']:
            s = st_['s']
            depth = ih.depth
            n = len(model)
            # a single read (possibly the first one since the last growth); what it returns is judged at once
            rd = st_['read']
            if rd == 'values':
                got = lib(lambda: [tuple(canon(x) for x in row) for row in ih.values.tolist()] if len(model) else [])
                want = [tuple(canon(x) for x in m) for m in model]
            elif rd == 'len':
                got, want = lib(lambda: len(ih)), len(model)
            elif rd == 'iter':
                got, want = lib(lambda: [tuple(canon(x) for x in t) for t in ih]), [tuple(canon(x) for x in m) for m in model]
            elif rd == 'lookup' and model:
                got, want = lib(lambda: ih.loc_to_iloc(tuple(model[-1]))), len(model) - 1
            elif rd == 'values_at_depth':
                got, want = lib(lambda: [canon(x) for x in arr_list(ih.values_at_depth(depth - 1))]), [canon(m[depth - 1]) for m in model]
            else:
                got = want = None
            if isinstance(got, Raised):
                raise Failure('raised:%s' % got.cls, 'read %s after %d growth steps raised %r' % (rd, grown, got.exc), got.where)
            if rd == 'values' and got is not None and len(got) == len(want):
                ok = all(len(a) == len(b) and all(eq(x, y) for x, y in zip(a, b)) for a, b in zip(got, want))
            elif isinstance(want, list) and got is not None:
                ok = len(got) == len(want) and all((eq(a, b) if not isinstance(a, tuple) else (len(a) == len(b) and all(eq(x, y) for x, y in zip(a, b)))) for a, b in zip(got, want))
            else:
                ok = got == want
            if not ok:
                raise Failure('stale-read', 'read %s as the first observation after growth returned %s, the labels are %s' % (rd, short(got, 300), short(want, 300)))
            if not model:
                break
            before = list(model)
            if s == 'append_leaf':
                lab = model[-1][:-1] + (_new_label_like(model[-1][-1], st_['i']),)
                if any(eq(canon(lab), canon(m)) for m in model):
                    continue
                r = lib(ih.append, lab)
                if isinstance(r, Raised):
                    raise Failure('raised:%s' % r.cls, 'append(%r) (new leaf under the last parent) raised %r' % (lab, r.exc), r.where)
                model.append(lab)
                grown += 1
            elif s == 'append_outer':
                lab = (_new_label_like(model[0][0], st_['i']),) + model[st_['j'] % n][1:]
                if any(eq(canon(lab[0]), canon(m[0])) for m in model):
                    continue
                r = lib(ih.append, lab)
                if isinstance(r, Raised):
                    raise Failure('raised:%s' % r.cls, 'append(%r) (new outer label) raised %r' % (lab, r.exc), r.where)
                model.append(lab)
                grown += 1
            elif s in ('append_earlier', 'append_dup'):
                if s == 'append_dup':
                    lab = model[st_['i'] % n]
                else:
                    src = model[st_['i'] % n]
                    lab = src[:-1] + (_new_label_like(src[-1], st_['j']),)
                    if any(eq(canon(lab), canon(m)) for m in model) or gen.is_tree_order(model + [lab]):
                        continue
                snap = obs.snap(ih)
                r = lib(ih.append, lab)
                if not isinstance(r, Raised):
                    raise Failure('no-raise', '%s: append(%r) accepted on %s -> %s' % (s, lab, short(before), short(obs.labels_of(ih))))
                if obs.snap(ih) != snap:
                    raise Failure('mutated', 'rejected append(%r) changed the index' % (lab,))
                classes.append('rejected:' + s)
            elif s in ('extend_new', 'extend_shared', 'extend_partial'):
                outer = _new_label_like(model[0][0], st_['i']) if s == 'extend_new' else model[st_['i'] % n][0]
                if s == 'extend_new' and any(eq(canon(outer), canon(m[0])) for m in model):
                    continue
                inner = model[st_['j'] % n][1:]
                labs = [(outer,) + inner]
                l2 = (outer,) + inner[:-1] + (_new_label_like(inner[-1], st_['j'] + 40),)
                if not eq(canon(l2), canon(labs[0])):
                    labs.append(l2)
                if s == 'extend_partial':
                    # a fresh outer label first, then an existing one: must be rejected as a whole
                    fresh = _new_label_like(model[0][0], st_['i'] + 50)
                    if any(eq(canon(fresh), canon(m[0])) for m in model):
                        continue
                    labs = [(fresh,) + inner] + labs
                try:
                    ctors = [t._IMMUTABLE_CONSTRUCTOR if not t.STATIC else t for t in ih.index_types.values]
                    other = sf.IndexHierarchy.from_labels(labs, index_constructors=ctors)
                except Exception:  # noqa: BLE001
                    continue
                if s == 'extend_new':
                    r = lib(ih.extend, other)
                    if isinstance(r, Raised):
                        raise Failure('raised:%s' % r.cls, 'extend(%s) raised %r' % (short(labs), r.exc), r.where)
                    model.extend(labs)
                    grown += 1
                else:
                    snap = obs.snap(ih)
                    r = lib(ih.extend, other)
                    if not isinstance(r, Raised):
                        raise Failure('no-raise', 'extend with an existing outer label %r accepted' % (outer,))
                    after = lib(obs.snap, ih)
                    if isinstance(after, Raised) or after != snap:
                        raise Failure('mutated', 'rejected extend(%s) left the index changed or unreadable (%s)' % (short(labs), short(after)))
                    classes.append('rejected:' + s)
            elif s == 'to_static':
                frozen.append((sf.IndexHierarchy(ih), list(model)))
                continue
            elif s == 'copy':
                frozen.append((ih.copy(), list(model)))
                continue
            else:
                pass
            if st_.get('quiet') and s in ('append_leaf', 'append_outer', 'extend_new') and len(model) != len(before):
                # leave the grown index unobserved: the next step (another append, a static copy) meets whatever
                # lazily rebuilt state the growth left behind
                classes.append('unobserved-growth')
                continue
            views_agree(ih, model, 'after %s' % s)
            if grown:
                reads_after_growth += 1
            for fz, fm in frozen:
                views_agree(fz, fm, 'earlier static/copy after %s' % s)
        views_agree(ih, model, 'at end')
        for fz, fm in frozen:
            views_agree(fz, fm, 'static/copy at end')
    ragged = len({sum(1 for m in model if eq(canon(m[0]), canon(o))) for o in [m[0] for m in model]}) > 1
    return {'nt': (ragged and len(model) >= 3) or reads_after_growth > 0, 'cls': classes + (['grown'] if grown else [])}


# ---------------------------------------------------------------------------------------------
# per-level selection

@st.composite
def level_selector(draw, labels_at_depth, innermost, n):
    """Selector recipe for one depth, given all labels occurring at that depth."""
    pool = []
    for x in labels_at_depth:
        if not any(eq(canon(x), canon(p)) for p in pool):
            pool.append(x)
    kinds = ['all', 'label', 'label', 'list', 'list', 'slice']
    if innermost:
        kinds.append('bool')
        kinds.append('rslice')
        kinds.append('sslice')
    k = draw(st.sampled_from(kinds))
    if k == 'rslice':
        # a descending slice with an open stop at the innermost depth: from a label (or the last one) down to the first
        # of each visited parent (an explicit stop of a descending label slice is a listed C04 finding)
        return {'k': 'rslice', 'a': draw(st.one_of(st.none(), st.sampled_from(pool)))}
    if k == 'sslice':
        # a stepped slice at the innermost depth: from a label (or the first one) onwards, every second / third label of
        # each visited parent
        return {'k': 'sslice', 'a': draw(st.one_of(st.none(), st.sampled_from(pool))), 'step': draw(st.sampled_from([2, 3, 2]))}
    if k == 'all':
        return {'k': 'all'}
    if k == 'label':
        return {'k': 'label', 'v': draw(st.sampled_from(pool))}
    if k == 'list':
        v = draw(st.lists(st.sampled_from(pool), min_size=1, max_size=len(pool), unique_by=lambda x: repr(canon(x))))
        return {'k': 'list', 'v': v}
    if k == 'slice':
        a = draw(st.one_of(st.none(), st.sampled_from(pool)))
        b = draw(st.one_of(st.none(), st.sampled_from(pool)))
        return {'k': 'slice', 'a': a, 'b': b}
    return {'k': 'bool', 'v': np.array(draw(st.lists(st.booleans(), min_size=n, max_size=n)), dtype=bool)}


@st.composite
def hloc_cases(draw):
    n = draw(st.integers(2, 12))
    # depth 4 one time in four (offsets accumulate over three levels of parents there)
    labels = draw(gen.tree_labels_n(n, depth=draw(st.sampled_from([2, 3, 4, 3]))))
    depth = len(labels[0])
    mode = draw(st.sampled_from(['hloc', 'hloc', 'hloc', 'tuple', 'tuples', 'mask', 'iloc', 'partial']))
    case = {'labels': labels, 'mode': mode, 'target': draw(st.sampled_from(['index', 'series', 'frame', 'frame_cols']))}
    if mode in ('hloc', 'partial'):
        sels = [draw(level_selector([t[d] for t in labels], d == depth - 1, n)) for d in range(depth)]
        if mode == 'partial':
            sels = sels[:draw(st.integers(1, depth - 1))]
        case['sels'] = sels
    elif mode == 'tuple':
        case['pos'] = draw(st.integers(0, n - 1))
    elif mode == 'tuples':
        case['poss'] = sorted(draw(st.lists(st.integers(0, n - 1), min_size=1, max_size=n, unique=True)))
        if draw(st.booleans()):
            case['poss'] = case['poss'][::-1]
    elif mode == 'mask':
        case['mask'] = np.array(draw(st.lists(st.booleans(), min_size=n, max_size=n)), dtype=bool)
    else:
        case['ikey'] = draw(gen.iloc_key(n))
    return case


def model_hloc(labels, sels):
    """Positions selected by per-depth selectors, in the statement's order."""
    depth = len(labels[0])
    sels = list(sels) + [{'k': 'all'}] * (depth - len(sels))
    multiple = any(s['k'] in ('list', 'slice', 'all', 'bool', 'rslice', 'sslice') for s in sels)

    def rec(items, d):
        # items: list of (position, tuple) sharing the prefix of length d
        order = []
        groups = {}
        for p, t in items:
            k = repr(canon(t[d]))
            if k not in groups:
                groups[k] = []
                order.append((k, t[d]))
            groups[k].append((p, t))
        s = sels[d]
        keys = [k for k, _ in order]
        if s['k'] == 'all':
            chosen = keys
        elif s['k'] == 'label':
            k = repr(canon(s['v']))
            chosen = [k] if k in groups else []
        elif s['k'] == 'list':
            chosen = [repr(canon(v)) for v in s['v'] if repr(canon(v)) in groups]
        elif s['k'] == 'slice':
            ia = 0
            ib = len(keys) - 1
            if s['a'] is not None:
                if repr(canon(s['a'])) not in groups:
                    raise Discard('slice-endpoint-absent-in-visited-subtree')
                ia = keys.index(repr(canon(s['a'])))
            if s['b'] is not None:
                if repr(canon(s['b'])) not in groups:
                    raise Discard('slice-endpoint-absent-in-visited-subtree')
                ib = keys.index(repr(canon(s['b'])))
            chosen = keys[ia:ib + 1]
        elif s['k'] == 'rslice':
            ia = len(keys) - 1
            if s['a'] is not None:
                if repr(canon(s['a'])) not in groups:
                    raise Discard('slice-endpoint-absent-in-visited-subtree')
                ia = keys.index(repr(canon(s['a'])))
            chosen = keys[:ia + 1][::-1]
        elif s['k'] == 'sslice':
            ia = 0
            if s['a'] is not None:
                if repr(canon(s['a'])) not in groups:
                    raise Discard('slice-endpoint-absent-in-visited-subtree')
                ia = keys.index(repr(canon(s['a'])))
            chosen = keys[ia::s['step']]
        elif s['k'] == 'bool':
            out = []
            for p, t in items:
                if s['v'][p]:
                    out.append(p)
            return out
        out = []
        for k in chosen:
            if d == depth - 1:
                out.extend(p for p, _ in groups[k])
            else:
                out.extend(rec(groups[k], d + 1))
        return out
    pos = rec(list(enumerate(labels)), 0)
    return pos, (not multiple)


def _real_sel(s):
    if s['k'] == 'all':
        return slice(None)
    if s['k'] == 'label':
        return s['v']
    if s['k'] == 'list':
        return list(s['v'])
    if s['k'] == 'slice':
        return slice(s['a'], s['b'])
    if s['k'] == 'rslice':
        return slice(s['a'], None, -1)
    if s['k'] == 'sslice':
        return slice(s['a'], None, s['step'])
    return s['v']


def _norm_iloc(k, n):
    if isinstance(k, (int, np.integer)):
        return [int(k)], True
    if isinstance(k, slice):
        return list(range(*k.indices(n))), False
    if isinstance(k, np.ndarray) and k.dtype == bool:
        return [i for i, b in enumerate(k.tolist()) if b], False
    return [int(x) for x in k], False


def check_hloc(case):
    labels = case['labels']
    n = len(labels)
    depth = len(labels[0])
    ih = gen.build_index({'kind': 'ih', 'labels': labels})
    mode = case['mode']
    cl = [canon(t) for t in labels]
    if mode in ('hloc', 'partial'):
        pos, scalar = model_hloc(labels, case['sels'])
        if not pos:
            raise Discard('selector-matches-nothing')
        key = sf.HLoc[tuple(_real_sel(s) for s in case['sels'])]
    elif mode == 'tuple':
        pos, scalar = [case['pos']], True
        key = labels[case['pos']]
    elif mode == 'tuples':
        pos, scalar = list(case['poss']), False
        key = [labels[p] for p in pos]
    elif mode == 'mask':
        pos, scalar = [i for i, b in enumerate(case['mask'].tolist()) if b], False
        key = case['mask']
    else:
        pos, scalar = gen.positions_of(case['ikey'], n)
        key = sf.ILoc[case['ikey']]
    classes = ['mode:' + mode, 'depth:%d' % depth, 'target:' + case['target']]
    if mode in ('hloc', 'partial'):
        classes += ['sel%d:%s' % (d, s['k']) for d, s in enumerate(case['sels'])]
    # (1) loc_to_iloc
    g = lib(ih.loc_to_iloc, key)
    if isinstance(g, Raised):
        raise Failure('raised:%s' % g.cls, 'loc_to_iloc(%s) raised %r; model positions %s' % (short(key), g.exc, pos), g.where)
    gp, gs = _norm_iloc(g, n)
    gp = [p % n for p in gp]
    if gp != pos:
        raise Failure('positions', 'loc_to_iloc(%s) -> %s expected %s (labels %s)' % (short(key), gp, pos, short(cl)))
    if mode == 'hloc' and len(case['sels']) == depth:
        # one selector more than there are depths: no tuple of the index matches such a key
        over = sf.HLoc[tuple(_real_sel(s) for s in case['sels']) + ('zz-beyond',)]
        g2 = lib(ih.loc_to_iloc, over)
        if not isinstance(g2, Raised):
            raise Failure('no-raise', 'loc_to_iloc(%s) with %d selectors on %d depths -> %s' % (short(over.key), depth + 1, depth, short(g2)))
        if not isinstance(g2.exc, LookupError):
            raise Failure('raised:%s' % g2.cls, 'loc_to_iloc(%s) with a selector beyond the depth raised %r, not a lookup error' % (short(over.key), g2.exc), g2.where)
    want_labels = [cl[p] for p in pos]
    tree_ok = gen.is_tree_order([labels[p] for p in pos])
    target = case['target']
    if target == 'index':
        r = lib(lambda: ih.loc[key])
        if scalar and not isinstance(r, Raised):
            if not eq(canon(tuple(r)), want_labels[0]):
                raise Failure('labels', 'ih.loc[%s] -> %r expected %r' % (short(key), r, want_labels[0]))
        elif isinstance(r, Raised):
            if not tree_ok and (r.cls.startswith('ErrorInit')):
                raise Discard('ih-selection-order-not-a-tree')
            raise Failure('raised:%s' % r.cls, 'ih.loc[%s] raised %r' % (short(key), r.exc), r.where)
        else:
            obs.expect_labels(r, want_labels, 'ih.loc[%s]' % short(key))
    else:
        vals = np.arange(n) * 10
        if target == 'series':
            s = sf.Series(vals, index=ih)
            r = lib(lambda: s.loc[key])
        elif target == 'frame':
            f = sf.Frame(np.column_stack([vals, vals + 1]), index=ih, columns=('p', 'q'))
            r = lib(lambda: f.loc[key] if not isinstance(key, (tuple, list)) else f.loc[key, :])
        else:
            f = sf.Frame(np.vstack([vals, vals + 1]), index=('p', 'q'), columns=ih)
            r = lib(lambda: f.loc[:, key])
        if isinstance(r, Raised):
            if not tree_ok and r.cls.startswith('ErrorInit'):
                raise Discard('ih-selection-order-not-a-tree')
            raise Failure('raised:%s' % r.cls, '%s.loc[%s] raised %r' % (target, short(key), r.exc), r.where)
        want_vals = [int(vals[p]) for p in pos]
        if scalar:
            if target == 'series':
                if not eq(r, want_vals[0]):
                    raise Failure('value', 'series.loc[%s] -> %r expected %r' % (short(key), r, want_vals[0]))
            else:
                obs.expect_series(r, ['p', 'q'], [want_vals[0], want_vals[0] + 1], '%s row' % target, name=want_labels[0])
        else:
            if target == 'series':
                obs.expect_series(r, want_labels, want_vals, 'series.loc[%s]' % short(key))
            elif target == 'frame':
                obs.expect_frame(r, want_labels, ['p', 'q'], [want_vals, [v + 1 for v in want_vals]], 'frame.loc[%s]' % short(key))
            else:
                obs.expect_frame(r, ['p', 'q'], want_labels, [[v, v + 1] for v in want_vals], 'frame.loc[:, %s]' % short(key))
    outer_counts = {}
    for t in cl:
        outer_counts[t[0]] = outer_counts.get(t[0], 0) + 1
    ragged = len(set(outer_counts.values())) > 1 or len(outer_counts) > 1
    return {'nt': ragged and mode != 'tuple', 'cls': classes}


# ---------------------------------------------------------------------------------------------
# hierarchies whose innermost indices are auto-integer indices (what Series/Frame.from_concat_items builds from
# containers without explicit labels): per-level selection must stay inside each member

@st.composite
def auto_leaf_cases(draw):
    form = draw(st.sampled_from(['label_int', 'label_slice', 'all_int', 'all_list', 'label_list', 'tuple', 'all_slice']))
    lens = draw(st.lists(st.integers(1, 4), min_size=2, max_size=4))
    q = draw(st.integers(0, len(lens) - 1))
    inb = draw(st.integers(0, 7)) < 7  # keys inside the bounds of every visited member seven times out of eight
    hi = (min(lens) if form.startswith('all') else lens[q]) - 1
    top = hi if inb else max(lens) + 1
    i = draw(st.integers(0, max(top, 0)))
    j = draw(st.integers(i, max(top, i)))
    return {'lens': lens, 'form': form, 'q': q, 'i': i, 'j': j, 'open_stop': draw(st.integers(0, 3)) == 3, 'target': draw(st.sampled_from(['index', 'series']))}


def check_auto_leaf(case):
    lens, form, q, i, j = case['lens'], case['form'], case['q'], case['i'], case['j']
    names = ['m%d' % k for k in range(len(lens))]
    members = [sf.Series(np.arange(n) + 100 * k) for k, n in enumerate(lens)]
    s = sf.Series.from_concat_items(zip(names, members))
    ih = s.index
    offs = [sum(lens[:k]) for k in range(len(lens))]
    HLoc = sf.HLoc

    def inside(k, p):
        return 0 <= p < lens[k]
    expect_absent = False
    if form == 'label_int':
        key, want, scalar = HLoc[names[q], i], [offs[q] + i], True
        expect_absent = not inside(q, i)
    elif form == 'tuple':
        key, want, scalar = (names[q], i), [offs[q] + i], True
        expect_absent = not inside(q, i)
    elif form == 'label_slice':
        stop = None if case['open_stop'] else j
        key = HLoc[names[q], i:stop]
        want = [offs[q] + p for p in range(i, lens[q] if stop is None else min(j, lens[q] - 1) + 1)]
        scalar = False
        # (a bound beyond the member: the tuples that match are those of the member between the bounds; none when the start is beyond)
        expect_absent = not want
    elif form == 'label_list':
        ps = sorted({i, j})
        # (a list selector matches the labels of it that the member holds, as it does for members with explicit labels)
        key, want, scalar = HLoc[names[q], ps], [offs[q] + p for p in ps if inside(q, p)], False
        expect_absent = not want
    elif form == 'all_int':
        key, want, scalar = HLoc[:, i], [offs[k] + i for k in range(len(lens)) if inside(k, i)], False
        expect_absent = not want
    elif form == 'all_list':
        ps = sorted({i, j})
        key, scalar = HLoc[:, ps], False
        want = [offs[k] + p for k in range(len(lens)) for p in ps if inside(k, p)]
        expect_absent = not want
    else:
        stop = None if case['open_stop'] else j
        key, scalar = HLoc[:, i:stop], False
        want = [offs[k] + p for k in range(len(lens)) for p in range(i, lens[k] if stop is None else min(j, lens[k] - 1) + 1)]
        expect_absent = not want
    what = 'members of lengths %s, key %s' % (lens, short(getattr(key, 'key', key)))
    r = lib(ih.loc_to_iloc, key)

    def positions(x):
        if isinstance(x, (int, np.integer)):
            return [int(x)]
        if isinstance(x, slice):
            return list(range(*x.indices(len(ih))))
        x = np.asarray(x)
        return np.flatnonzero(x).tolist() if x.dtype == bool else [int(v) for v in x.tolist()]
    if expect_absent:
        # positions outside a member are not labels of it: an error, or (for multi-member keys) nothing selected
        if not isinstance(r, Raised) and positions(r):
            raise Failure('no-raise', '%s: a position outside the member resolved to %s' % (what, short(r)))
        return {'nt': False, 'cls': ['auto-leaf:' + form, 'auto-leaf:absent']}
    if isinstance(r, Raised):
        raise Failure('raised:%s' % r.cls, '%s raised %r' % (what, r.exc), r.where)
    got = positions(r)
    if got != want:
        raise Failure('positions', '%s -> %s expected %s' % (what, got, want))
    if case['target'] == 'series':
        sel = lib(lambda: s[key])
        if isinstance(sel, Raised):
            raise Failure('raised:%s' % sel.cls, 'Series[%s] raised %r' % (what, sel.exc), sel.where)
        vals = [sel] if not isinstance(sel, sf.Series) else sel.values.tolist()
        if [int(v) for v in vals] != [int(s.values[p]) for p in want]:
            raise Failure('value', 'Series[%s] -> %s expected rows %s' % (what, short(vals), want))
    return {'nt': len(want) >= 1, 'cls': ['auto-leaf:' + form]}


def tag_auto_leaf(case, f):
    return None


SUBS = [
    Sub('views', view_cases(), check_views, quick=4800, thorough=32000,
        rule='all views of an IndexHierarchy (after any GO history) describe the model tuple list'),
    Sub('auto_leaf', auto_leaf_cases(), check_auto_leaf, quick=2000, thorough=16000, tag=tag_auto_leaf,
        rule='hierarchies with auto-integer innermost indices (from_concat_items): HLoc / tuple keys vs member-bounded positions'),
    Sub('hloc', hloc_cases(), check_hloc, quick=10000, thorough=64000,
        rule='per-level selection vs recursive tuple-list reference; Series/Frame rows by HLoc'),
]
