"""C06 — index set algebra and label alignment of binary operators.

setops:  union / intersection / difference of generated index pairs (and n-ary forms) contain
         exactly the labels set algebra prescribes, each once; identical operands keep order.
binop:   Series x Series, Frame x Frame, Frame x Series: result labels = union on each aligned
         axis; cells = NumPy op on model-aligned arrays; metamorphic invariance under label
         permutation of either operand; equal indices keep order and NumPy's result dtype.
"""
import operator as op_mod

import numpy as np
from hypothesis import strategies as st

from vf import gen, obs
from vf.base import Discard, Failure, Raised, arr_list, canon, eq, is_missing, lib, sf, short
from vf.harness import Sub
from vf.props.c02 import same_multiset

PID = 'C06'
RULE = ('index pairs/triples (flat int/str/float/date/tuple/mixed, hierarchical) overlapping, disjoint, permuted, identical, empty x union/intersection/difference; '
        'Series x Series, Frame x Frame, Frame x Series over numeric/bool/str dtypes x arithmetic/comparison/logical operators (and reflected scalar forms); '
        'non-trivial = label sets neither equal nor disjoint, or a permutation applied, or object-dtype labels')
ASSUMPTIONS = ['order of a set-operation result over non-identical operands is not compared (unspecified)',
               'cells are judged by NumPy applied to model-aligned arrays (missing -> NaN as reindex does); dtype pairings whose NumPy evaluation raises are discarded',
               'logical operators only with equal label sets (a misaligned bool operand becomes an object array NumPy cannot combine)']

OPS = {'add': op_mod.add, 'sub': op_mod.sub, 'mul': op_mod.mul, 'truediv': op_mod.truediv, 'floordiv': op_mod.floordiv, 'mod': op_mod.mod,
       'pow': op_mod.pow, 'eq': op_mod.eq, 'ne': op_mod.ne, 'lt': op_mod.lt, 'le': op_mod.le, 'gt': op_mod.gt, 'ge': op_mod.ge,
       'and': op_mod.and_, 'or': op_mod.or_, 'xor': op_mod.xor}
ARITH = ('add', 'sub', 'mul', 'truediv', 'floordiv', 'mod')
LOGICAL = ('and', 'or', 'xor')


# ---------------------------------------------------------------------------------------------
# set operations

@st.composite
def setop_cases(draw):
    kind = draw(st.sampled_from(['int', 'str', 'float', 'date', 'tuple', 'mixed', 'ih', 'ih']))
    # decisive choices first (late draws are pinned to their first option for a share of Hypothesis's examples)
    op = draw(st.sampled_from(['union', 'intersection', 'difference']))
    rel = draw(st.sampled_from(['random', 'random', 'identical', 'permuted', 'disjoint', 'subset']))
    as_container = draw(st.sampled_from(['index', 'index', 'array', 'list', 'index_obj']))  # (index_obj: the same labels held in an object-dtype Index)
    if kind == 'ih':
        n = draw(st.integers(1, 8))
        pool = draw(gen.tree_labels_n(n))
    else:
        n = draw(st.integers(0, 8))
        pool = draw(gen.flat_labels(n, kind))
    k = draw(st.integers(2, 3))
    operands = []
    for q in range(k):
        if rel == 'identical':
            pos = list(range(n))
        elif rel == 'permuted':
            pos = list(draw(st.permutations(list(range(n)))))
        elif rel == 'disjoint':
            pos = [p for p in range(n) if p % k == q]
        elif rel == 'subset':
            pos = list(range(n)) if q == 0 else [p for p in range(n) if draw(st.booleans())]
        else:
            pos = [p for p in draw(st.permutations(list(range(n)))) if draw(st.booleans())]
        if kind == 'ih':
            pos = sorted(pos)  # keep tree order
            if not pos:
                pos = [0]
        operands.append(pos)
    return {'kind': kind, 'pool': pool, 'operands': operands, 'rel': rel, 'op': op, 'as_container': as_container}


def check_setop(case):
    kind, pool = case['kind'], case['pool']
    lists = [[pool[p] for p in pos] for pos in case['operands']]
    if kind == 'ih' and not all(gen.is_tree_order(l) for l in lists):
        raise Discard('non-tree operand')
    idx = [lib(gen.build_index, {'kind': kind, 'labels': l, 'depth': len(pool[0]) if kind == 'ih' else 1}) for l in lists]
    if any(isinstance(i, Raised) for i in idx):
        raise Discard('constructor rejected operand')
    op = case['op']
    others = idx[1:] if op != 'difference' else idx[1:2]
    if case['as_container'] == 'index_obj':
        if kind in ('int', 'str', 'float'):
            others = [sf.Index(list(o), dtype=object) for o in others]
    elif case['as_container'] != 'index' and kind not in ('ih', 'tuple', 'mixed', 'date'):
        others = [(o.values if case['as_container'] == 'array' else list(o)) for o in others]
    r = lib(lambda: getattr(idx[0], op)(*others))
    if isinstance(r, Raised):
        raise Failure('raised:%s' % r.cls, '%s of %s raised %r' % (op, short(lists), r.exc), r.where)
    sets = [[canon(x) for x in l] for l in lists]
    used = sets if op != 'difference' else sets[:2]

    def member(x, s):
        return any(eq(x, y) for y in s)
    if op == 'union':
        want = []
        for s in used:
            for x in s:
                if not member(x, want):
                    want.append(x)
    elif op == 'intersection':
        want = [x for x in used[0] if all(member(x, s) for s in used[1:])]
    else:
        want = [x for x in used[0] if not member(x, used[1])]
    got = obs.labels_of(r)
    if not same_multiset(got, want):
        raise Failure('set', '%s(%s) -> %s expected (as a set) %s' % (op, short(lists), short(got), short(want)))
    for i, x in enumerate(got):
        if any(eq(x, y) for y in got[:i]):
            raise Failure('duplicate', '%s result repeats %r: %s' % (op, x, short(got)))
    identical = all(len(s) == len(used[0]) and all(eq(a, b) for a, b in zip(s, used[0])) for s in used[1:])
    if identical and op in ('union', 'intersection') and case['as_container'] in ('index', 'index_obj'):
        if not all(eq(a, b) for a, b in zip(got, used[0])):
            raise Failure('order', '%s of identical operands reordered: %s vs %s' % (op, short(got), short(used[0])))
    if op == 'difference' and False:
        pass
    overlapping = any(member(x, used[1]) for x in used[0]) and not identical
    return {'nt': (overlapping or case['rel'] == 'permuted' or kind in ('mixed', 'tuple')) and len(used[0]) > 0,
            'cls': ['set:' + op, 'kind:' + kind, 'rel:' + case['rel'], 'identical' if identical else 'differ']}



# ---------------------------------------------------------------------------------------------
# hierarchies built by from_product (their levels share Index objects) against a hierarchy of the same shape that differs in
# one inner label: set algebra and operators must still pair by label

@st.composite
def product_cases(draw):
    ch = {'what': draw(st.sampled_from(['union', 'intersection', 'difference', 'series_op', 'frame_cols_op', 'equals'])),
          'swap': draw(st.booleans()), 'route_b': draw(st.sampled_from(['from_labels', 'from_product_same', 'from_labels_same']))}
    outer = draw(st.lists(st.sampled_from(['a', 'b', 'c', 'd']), min_size=2, max_size=3, unique=True))
    inner = draw(st.lists(st.integers(1, 6), min_size=2, max_size=3, unique=True))
    return dict({'outer': sorted(outer), 'inner': inner, 'g': draw(st.integers(0, len(outer) - 1)), 'k': draw(st.integers(0, len(inner) - 1))}, **ch)


def check_product(case):
    import itertools
    outer, inner = case['outer'], case['inner']
    la = list(itertools.product(outer, inner))
    same = case['route_b'] != 'from_labels'
    lb = list(la)
    if not same:
        # one inner label under outer label g replaced by a label no one else has (the shape stays the same)
        p = case['g'] * len(inner) + case['k']
        lb[p] = (outer[case['g']], 90 + case['k'])
    a = sf.IndexHierarchy.from_product(outer, inner)
    b = sf.IndexHierarchy.from_product(outer, inner) if case['route_b'] == 'from_product_same' else sf.IndexHierarchy.from_labels(lb)
    if case['swap']:
        a, b, la, lb = b, a, lb, la
    ca, cb = [canon(x) for x in la], [canon(x) for x in lb]
    what = case['what']
    classes = ['prod:' + what, 'prod-b:' + case['route_b'], 'swapped' if case['swap'] else 'product-left', 'g:last' if case['g'] == len(outer) - 1 else 'g:inner']

    def member(x, s):
        return any(eq(x, y) for y in s)
    if what in ('union', 'intersection', 'difference'):
        r = lib(lambda: getattr(a, what)(b))
        if isinstance(r, Raised):
            raise Failure('raised:%s' % r.cls, '%s of a product-built hierarchy raised %r' % (what, r.exc), r.where)
        want = {'union': ca + [x for x in cb if not member(x, ca)], 'intersection': [x for x in ca if member(x, cb)],
                'difference': [x for x in ca if not member(x, cb)]}[what]
        got = obs.labels_of(r)
        if not same_multiset(got, want):
            raise Failure('set', '%s(%s, %s) -> %s expected (as a set) %s' % (what, short(la), short(lb), short(got), short(want)))
    elif what == 'equals':
        r1, r2 = lib(lambda: a.equals(b)), lib(lambda: b.equals(a))
        if isinstance(r1, Raised) or isinstance(r2, Raised):
            bad = r1 if isinstance(r1, Raised) else r2
            raise Failure('raised:%s' % bad.cls, 'equals raised %r' % bad.exc, bad.where)
        if bool(r1) != same or bool(r2) != same:
            raise Failure('set', 'equals(%s, %s) -> %r / %r expected %r' % (short(la), short(lb), r1, r2, same))
    else:
        va, vb = np.arange(len(la)) + 1, (np.arange(len(lb)) + 1) * 100
        if what == 'series_op':
            x, y = sf.Series(va, index=a), sf.Series(vb, index=b)
            r = lib(lambda: x + y)
        else:
            x = sf.Frame(np.vstack([va, va]), index=('p', 'q'), columns=a)
            y = sf.Frame(np.vstack([vb, vb]), index=('p', 'q'), columns=b)
            r = lib(lambda: x + y)
        if isinstance(r, Raised):
            raise Failure('raised:%s' % r.cls, '%s on product-built labels raised %r' % (what, r.exc), r.where)
        da = {repr(k): int(v) for k, v in zip(ca, va)}
        db = {repr(k): int(v) for k, v in zip(cb, vb)}
        labs = obs.labels_of(r.index if what == 'series_op' else r.columns)
        vals = arr_list(r.values) if what == 'series_op' else arr_list(r.values[0])
        want_labels = ca + [k for k in cb if not member(k, ca)]
        if not same_multiset(labs, want_labels):
            raise Failure('labels', '%s: result labels %s expected (as a set) %s' % (what, short(labs), short(want_labels)))
        for k, v in zip(labs, vals):
            if repr(k) in da and repr(k) in db:
                if not eq(v, da[repr(k)] + db[repr(k)]):
                    raise Failure('value', '%s: label %r holds %r expected %r + %r' % (what, k, v, da[repr(k)], db[repr(k)]))
            elif not is_missing(v):
                raise Failure('value', '%s: label %r is held by one operand only but the result holds %r' % (what, k, v))
    return {'nt': not same, 'cls': classes}

# ---------------------------------------------------------------------------------------------
# binary operators

NUM_KINDS = ('int64', 'float64', 'int32', 'uint8', 'bool')


@st.composite
def series_operand(draw, pool, kind):
    n = len(pool)
    pos = [p for p in draw(st.permutations(list(range(n)))) if draw(st.booleans())]
    vals = draw(st.lists(gen.elements(kind, missing=(kind == 'float64')), min_size=len(pos), max_size=len(pos)))
    return {'labels': [pool[p] for p in pos], 'values': gen.to_array(kind, vals)}


@st.composite
def series_cases(draw):
    lk = draw(st.sampled_from(['int', 'str', 'date', 'ih', 'mixed']))
    opn = draw(st.sampled_from(sorted(OPS)))  # decisive choices first
    rel = draw(st.sampled_from(['random', 'random', 'same', 'permuted']))
    n = draw(st.sampled_from([4, 3, 2, 1, 5, 6, 7]))
    pool = draw(gen.tree_labels_n(n)) if lk == 'ih' else draw(gen.flat_labels(n, lk))
    if opn in LOGICAL:
        ka = kb = 'bool'
    else:
        ka = draw(st.sampled_from(NUM_KINDS))
        kb = draw(st.sampled_from(NUM_KINDS))
    a = draw(series_operand(pool, ka))
    b = draw(series_operand(pool, kb))
    if lk == 'ih':
        for x in (a, b):
            order = sorted(range(len(x['labels'])), key=lambda i: pool.index(x['labels'][i]))
            x['labels'] = [x['labels'][i] for i in order]
            x['values'] = x['values'][order]
    if rel in ('same', 'permuted') or opn in LOGICAL:
        perm = list(range(len(a['labels']))) if (rel == 'same' or lk == 'ih') else list(draw(st.permutations(list(range(len(a['labels']))))))
        vals = draw(st.lists(gen.elements(kb, missing=(kb == 'float64')), min_size=len(perm), max_size=len(perm)))
        b = {'labels': [a['labels'][p] for p in perm], 'values': gen.to_array(kb, vals)}
    return {'lk': lk, 'pool': pool, 'a': a, 'b': b, 'op': opn, 'perm_a': draw(st.randoms(use_true_random=False)).random() < 0.5,
            'seed': draw(st.integers(0, 1000))}


def _align(labels_union, labels, values):
    """Model of reindex(union): array aligned to labels_union with NaN where absent."""
    m = {}
    for l, v in zip(labels, arr_list(values)):
        m[_hk(l)] = v
    missing = [(_hk(l) not in m) for l in labels_union]
    if not any(missing):
        out = np.array([m[_hk(l)] for l in labels_union], dtype=values.dtype) if len(labels_union) else np.empty(0, dtype=values.dtype)
        return out, missing
    if values.dtype.kind == 'b':
        out = np.empty(len(labels_union), dtype=object)
        for i, l in enumerate(labels_union):
            out[i] = m.get(_hk(l), np.nan)
        return out, missing
    return np.array([m.get(_hk(l), np.nan) for l in labels_union], dtype=np.float64), missing


def _hk(l):
    c = canon(l)
    if isinstance(c, np.datetime64):
        return ('dt', str(c))
    import datetime as _dt
    if isinstance(c, _dt.date) and not isinstance(c, _dt.datetime):
        return ('dt', c.isoformat())
    if isinstance(c, tuple):
        return tuple(_hk(x) for x in c)
    return c


def _mk_series(lk, pool, rec, name=None):
    depth = len(pool[0]) if lk == 'ih' else 1
    ix = gen.build_index({'kind': lk, 'labels': rec['labels'], 'depth': depth})
    return sf.Series(rec['values'], index=ix, name=name)


def _permute(rec, seed):
    n = len(rec['labels'])
    rng = np.random.RandomState(seed)
    p = rng.permutation(n)
    return {'labels': [rec['labels'][i] for i in p], 'values': rec['values'][p]}


def check_series(case):
    lk, pool, a, b, opn = case['lk'], case['pool'], case['a'], case['b'], case['op']
    fn = OPS[opn]
    sa = lib(_mk_series, lk, pool, a)
    sb = lib(_mk_series, lk, pool, b)
    if isinstance(sa, Raised) or isinstance(sb, Raised):
        raise Discard('constructor rejected operand')
    same_seq = len(a['labels']) == len(b['labels']) and all(eq(canon(x), canon(y)) for x, y in zip(a['labels'], b['labels']))
    same_set = len(a['labels']) == len(b['labels']) and all(any(eq(canon(x), canon(y)) for y in b['labels']) for x in a['labels'])
    if opn in LOGICAL and not same_set:
        raise Discard('logical operator over different label sets')
    union = list(a['labels']) + [l for l in b['labels'] if not any(eq(canon(l), canon(x)) for x in a['labels'])]
    al_a, miss_a = _align(union, a['labels'], a['values'])
    al_b, miss_b = _align(union, b['labels'], b['values'])
    with np.errstate(all='ignore'):
        try:
            want = fn(al_a, al_b)
        except Exception:  # noqa: BLE001 - NumPy cannot combine these: outside the claim
            raise Discard('numpy cannot combine %s %s %s' % (al_a.dtype, opn, al_b.dtype))
        r = lib(lambda: fn(sa, sb))
    if isinstance(r, Raised):
        raise Failure('raised:%s' % r.cls, 'Series %s Series raised %r (NumPy evaluates the aligned arrays)' % (opn, r.exc), r.where)
    if not isinstance(r, sf.Series):
        raise Failure('kind', 'Series %s Series returned %s' % (opn, short(r)))
    got_labels = obs.labels_of(r.index)
    if not same_multiset(got_labels, [canon(x) for x in union]):
        raise Failure('labels', '%s: result labels %s expected union %s' % (opn, short(got_labels), short(union)))
    gm = {}
    for l, v in zip(got_labels, arr_list(r.values)):
        gm[_hk(l)] = v
    for i, l in enumerate(union):
        g, w = gm[_hk(l)], arr_list(want)[i]
        if not (eq(g, w) or (is_missing(g) and is_missing(w))):
            raise Failure('value', '%s at label %r: got %r expected %r (a=%r b=%r)' % (opn, l, g, w, arr_list(al_a)[i], arr_list(al_b)[i]))
        if (miss_a[i] or miss_b[i]) and opn in ARITH and not is_missing(g):
            raise Failure('value', '%s at label %r present in one operand only: got %r, expected the missing marker' % (opn, l, g))
    if same_seq:
        if not all(eq(x, canon(y)) for x, y in zip(got_labels, a['labels'])):
            raise Failure('order', '%s over equal indices reordered labels: %s vs %s' % (opn, short(got_labels), short(a['labels'])))
        if r.values.dtype != want.dtype:
            raise Failure('dtype', '%s over equal indices: dtype %s, NumPy gives %s' % (opn, r.values.dtype, want.dtype))
    # metamorphic: permuting the labels of either operand leaves the label->value mapping unchanged
    perm_applied = False
    if lk != 'ih' and (len(a['labels']) > 1 or len(b['labels']) > 1):
        pa = _permute(a, case['seed']) if case['perm_a'] else a
        pb = _permute(b, case['seed'] + 1)
        with np.errstate(all='ignore'):
            r2 = lib(lambda: fn(_mk_series(lk, pool, pa), _mk_series(lk, pool, pb)))
        if isinstance(r2, Raised):
            raise Failure('raised:%s' % r2.cls, '%s over permuted operands raised %r' % (opn, r2.exc), r2.where)
        gm2 = {_hk(l): v for l, v in zip(obs.labels_of(r2.index), arr_list(r2.values))}
        if set(gm2) != set(gm) or not all(eq(gm2[k], gm[k]) or (is_missing(gm2[k]) and is_missing(gm[k])) for k in gm):
            raise Failure('metamorphic', '%s: mapping changed under label permutation: %s vs %s' % (opn, short(gm), short(gm2)))
        perm_applied = True
    overlap = any(any(eq(canon(x), canon(y)) for y in b['labels']) for x in a['labels'])
    nt = (overlap and not same_set) or (same_set and not same_seq) or perm_applied or lk in ('mixed',)
    return {'nt': nt and len(union) > 0, 'cls': ['sop:' + opn, 'labels:' + lk, 'same-seq' if same_seq else ('same-set' if same_set else 'differ'),
                                             'dt:%s/%s' % (a['values'].dtype, b['values'].dtype)]}


# ---------------------------------------------------------------------------------------------
# frames

@st.composite
def frame_cases(draw):
    opn = draw(st.sampled_from([o for o in sorted(OPS) if o not in LOGICAL]))  # decisive choices first
    other = draw(st.sampled_from(['frame', 'series_T', 'series', 'same', 'seq_T', 'frame']))
    ni, nc = draw(st.sampled_from([3, 2, 4, 1, 5])), draw(st.sampled_from([3, 2, 4, 1, 5]))
    ipool = draw(gen.flat_labels(ni, draw(st.sampled_from(['int', 'str']))))
    cpool = draw(gen.flat_labels(nc, draw(st.sampled_from(['str', 'int']))))

    def operand():
        ri = [p for p in draw(st.permutations(list(range(ni)))) if draw(st.booleans())]
        ci = [p for p in draw(st.permutations(list(range(nc)))) if draw(st.booleans())]
        blks = draw(gen.blocks(len(ri), len(ci), kinds=('int64', 'float64', 'int32', 'bool'), missing=True))
        return {'ri': ri, 'ci': ci, 'blocks': blks}
    a = operand()
    if other == 'same':
        blks = draw(gen.blocks(len(a['ri']), len(a['ci']), kinds=('int64', 'float64', 'int32', 'bool'), missing=True))
        b = {'ri': list(a['ri']), 'ci': list(a['ci']), 'blocks': blks}
    elif other == 'series':
        ci = [p for p in draw(st.permutations(list(range(nc)))) if draw(st.booleans())]
        kind = draw(st.sampled_from(['int64', 'float64']))
        b = {'ci': ci, 'values': draw(gen.column(kind, len(ci)))}
    elif other == 'seq_T':
        # an unlabelled sequence on the LEFT of Frame.via_T (the reflected operator): one element per row, by position
        kind = draw(st.sampled_from(['int64', 'float64']))
        b = {'seq': draw(gen.column(kind, len(a['ri']), missing=False)), 'left_is': draw(st.sampled_from(['list', 'tuple']))}
    elif other == 'series_T':
        # a Series applied along the index through Frame.via_T; its labels are row labels (often all of them, permuted,
        # so that the aligned frame is as tall as it is wide)
        ri = [p for p in draw(st.permutations(list(range(ni)))) if not draw(st.booleans()) or draw(st.booleans())]
        kind = draw(st.sampled_from(['int64', 'float64']))
        b = {'ri': ri, 'values': draw(gen.column(kind, len(ri)))}
    else:
        b = operand()
    return {'ipool': ipool, 'cpool': cpool, 'a': a, 'b': b, 'other': other, 'op': opn}


def _frame_of(case, o):
    idx = [case['ipool'][p] for p in o['ri']]
    cols = [case['cpool'][p] for p in o['ci']]
    tb = sf.TypeBlocks.from_blocks([gen.freeze(x) for x in o['blocks']], shape_reference=(len(idx), len(cols)))
    return sf.Frame(tb, index=idx, columns=cols, own_data=True), idx, cols


def _col_aligned(rows, labels_rows, col_arr):
    """Aligned 1-D array of a frame column over the union rows (None if the column is absent)."""
    if col_arr is None:
        return np.full(len(rows), np.nan), [True] * len(rows)
    return _align(rows, labels_rows, col_arr)


def check_frame(case):
    fn = OPS[case['op']]
    fa, ia, ca = _frame_of(case, case['a'])
    cols_a = gen.block_columns(case['a']['blocks'])
    if case['other'] == 'series':
        cb = [case['cpool'][p] for p in case['b']['ci']]
        sb = sf.Series(case['b']['values'], index=cb)
        with np.errstate(all='ignore'):
            r = lib(lambda: fn(fa, sb))
        rows = list(ia)
        ib = rows
        cols = list(ca) + [c for c in cb if not any(eq(canon(c), canon(x)) for x in ca)]
        s_al, s_miss = _align(cols, cb, case['b']['values'])
    elif case['other'] == 'seq_T':
        if case['op'] not in ('add', 'sub', 'mul', 'truediv', 'floordiv'):
            raise Discard('reflected via_T forms exist for + - * / // only')
        seq = case['b']['seq']
        left = arr_list(seq) if case['b']['left_is'] == 'list' else tuple(arr_list(seq))
        if not len(ia) or not len(ca):
            raise Discard('empty frame')
        with np.errstate(all='ignore'):
            r = lib(lambda: fn(left, fa.via_T))
        rows, cols, ib, cb = list(ia), list(ca), list(ia), list(ca)
        sT_al, sT_miss = np.array(seq), [False] * len(rows)
    elif case['other'] == 'series_T':
        ib = [case['ipool'][p] for p in case['b']['ri']]
        sb = sf.Series(case['b']['values'], index=ib)
        with np.errstate(all='ignore'):
            r = lib(lambda: fn(fa.via_T, sb))
        rows = list(ia) + [x for x in ib if not any(eq(canon(x), canon(y)) for y in ia)]
        cols = list(ca)
        cb = cols
        sT_al, sT_miss = _align(rows, ib, case['b']['values'])
    else:
        fb, ib, cb = _frame_of(case, case['b'])
        cols_b = gen.block_columns(case['b']['blocks'])
        with np.errstate(all='ignore'):
            r = lib(lambda: fn(fa, fb))
        rows = list(ia) + [x for x in ib if not any(eq(canon(x), canon(y)) for y in ia)]
        cols = list(ca) + [c for c in cb if not any(eq(canon(c), canon(x)) for x in ca)]
    # model: per result column, NumPy on the two aligned column arrays
    wants = []
    for j, c in enumerate(cols):
        ja = next((q for q, x in enumerate(ca) if eq(canon(x), canon(c))), None)
        al_a, miss_a = _col_aligned(rows, ia, cols_a[ja] if ja is not None else None)
        if case['other'] == 'series':
            al_b = np.array([arr_list(s_al)[j]] * len(rows), dtype=s_al.dtype) if len(rows) else np.empty(0, dtype=s_al.dtype)
            miss_b = [s_miss[j]] * len(rows)
        elif case['other'] in ('series_T', 'seq_T'):
            al_b, miss_b = sT_al, sT_miss
        else:
            jb = next((q for q, x in enumerate(cb) if eq(canon(x), canon(c))), None)
            al_b, miss_b = _col_aligned(rows, ib, cols_b[jb] if jb is not None else None)
        with np.errstate(all='ignore'):
            try:
                wants.append(((fn(al_b, al_a) if case['other'] == 'seq_T' else fn(al_a, al_b)), miss_a, miss_b))
            except Exception:  # noqa: BLE001 - NumPy cannot combine this column pair: outside the claim
                raise Discard('numpy cannot combine %s %s %s' % (al_a.dtype, case['op'], al_b.dtype))
    if isinstance(r, Raised):
        raise Failure('raised:%s' % r.cls, 'Frame %s %s raised %r (NumPy evaluates every aligned column pair)' % (case['op'], case['other'], r.exc), r.where)
    if not isinstance(r, sf.Frame):
        raise Failure('kind', 'Frame %s %s returned %s' % (case['op'], case['other'], short(r)))
    gr, gc = obs.labels_of(r.index), obs.labels_of(r.columns)
    if not same_multiset(gr, [canon(x) for x in rows]) or not same_multiset(gc, [canon(x) for x in cols]):
        raise Failure('labels', 'result labels %s x %s expected unions %s x %s' % (short(gr), short(gc), short(rows), short(cols)))
    rcols = obs.frame_cols(r)
    rpos = {_hk(x): i for i, x in enumerate(gr)}
    for j, c in enumerate(cols):
        gj = next(q for q, x in enumerate(gc) if eq(x, canon(c)))
        want, miss_a, miss_b = wants[j]
        for i, rr in enumerate(rows):
            g = arr_list(rcols[gj])[rpos[_hk(rr)]]
            w = arr_list(want)[i]
            if not (eq(g, w) or (is_missing(g) and is_missing(w)) or _close(g, w)):
                note = ''
                if case['other'] not in ('series', 'series_T', 'seq_T') and _consolidated_explains(fn, rows, cols, ia, ca, cols_a, ib, cb, cols_b, j, i, g):
                    note = ' [consolidated-dtype-explains]'
                raise Failure('value', '%s at (%r,%r): got %r expected %r%s' % (case['op'], rr, c, g, w, note))
            if (miss_a[i] or miss_b[i]) and case['op'] in ARITH and not is_missing(g):
                raise Failure('value', '%s at (%r,%r) present in one operand only: got %r, expected the missing marker' % (case['op'], rr, c, g))
    same = case['other'] in ('same',) or (case['other'] == 'frame' and ia == ib and ca == cb)
    if same:
        if not all(eq(x, canon(y)) for x, y in zip(gr, ia)) or not all(eq(x, canon(y)) for x, y in zip(gc, ca)):
            raise Failure('order', 'operands with equal indices: result labels reordered')
    overlap = len(rows) > len(ia) or len(cols) > len(ca)
    return {'nt': (overlap or case['other'] == 'same') and len(rows) > 0 and len(cols) > 0, 'cls': ['fop:' + case['op'], 'other:' + case['other']]}


def _consolidated_explains(fn, rows, cols, ia, ca, cols_a, ib, cb, cols_b, j, i, got):
    """Classification aid only: does evaluating the cell at the *row dtype* each operand gets when its
    aligned columns are consolidated into one .values array reproduce the observed value?"""
    from static_frame.core.util import resolve_dtype_iter
    try:
        def side(labels_rows, labels_cols, colarrs):
            arrs = []
            for c in cols:
                q = next((k for k, x in enumerate(labels_cols) if eq(canon(x), canon(c))), None)
                arrs.append(_col_aligned(rows, labels_rows, colarrs[q] if q is not None else None)[0])
            dt = resolve_dtype_iter(a.dtype for a in arrs)
            return arrs[j].astype(dt)
        xa, xb = side(ia, ca, cols_a), side(ib, cb, cols_b)
        with np.errstate(all='ignore'):
            w2 = arr_list(fn(xa, xb))[i]
        return eq(got, w2) or (is_missing(got) and is_missing(w2))
    except Exception:  # noqa: BLE001
        return False


def _close(g, w):
    try:
        return abs(g - w) <= 1e-9 * max(abs(g), abs(w), 1e-300)
    except Exception:  # noqa: BLE001
        return False


def _numpy_rejects(case, fn):
    cols_a = gen.block_columns(case['a']['blocks'])
    other = gen.block_columns(case['b']['blocks']) if case['other'] != 'series' else [case['b']['values']]
    for x in cols_a:
        for y in other:
            try:
                with np.errstate(all='ignore'):
                    fn(np.zeros(1, dtype=np.result_type(x.dtype, np.float64) if x.dtype.kind != 'b' else object), np.zeros(1, dtype=y.dtype))
            except Exception:  # noqa: BLE001
                return True
    return False


def tag(case, f):
    # union/intersection/difference over labels mixing NumPy scalars with tuples: sorted() raises ValueError
    if f.kind == 'raised:ValueError' and case.get('kind') == 'mixed' and 'truth value' in f.detail:
        return 'set-op-sorted-valueerror-on-tuple-vs-scalar'
    return None


# ---------------------------------------------------------------------------------------------
# scalars and unlabelled sequences on either side of the operator (forward and reflected forms)

SCALAR_OPS = ('add', 'sub', 'mul', 'truediv', 'floordiv', 'mod', 'pow', 'eq', 'lt', 'ge')


@st.composite
def scalar_cases(draw):
    kind = draw(st.sampled_from(['series', 'frame', 'frame_go', 'index', 'series_he']))
    op = draw(st.sampled_from(SCALAR_OPS))
    side = draw(st.sampled_from(['reflected', 'forward']))
    operand = draw(st.sampled_from(['int', 'float', 'list', 'int']))
    scalar = draw(st.sampled_from([2, 3, 7, -2, 20])) if operand != 'float' else draw(st.sampled_from([2.5, 0.5, -1.5, 20.0]))
    n = draw(st.integers(1, 5))
    dts = [draw(st.sampled_from(['int64', 'float64', 'int64'])) for _ in range(3)]
    cols = []
    for dt in dts:
        vals = draw(st.lists(st.integers(1, 9) if dt == 'int64' else st.sampled_from([0.5, 1.5, 3.0, 7.0, 2.25, 6.5]), min_size=n, max_size=n))
        cols.append(np.array(vals, dtype=dt))
    lvals = draw(st.lists(st.integers(1, 6), min_size=n, max_size=n))
    return {'kind': kind, 'op': op, 'side': side, 'operand': operand, 'scalar': scalar, 'n': n, 'cols': cols, 'list': lvals, 'wide': draw(st.booleans())}


def check_scalar(case):
    kind, op, n = case['kind'], case['op'], case['n']
    fn = OPS[op]
    cols = [gen.freeze(c.copy()) for c in case['cols']]
    if kind in ('frame', 'frame_go') and case['operand'] == 'list':
        raise Discard('a list against a Frame is matched against rows or columns: outside this clause')
    if case['side'] == 'reflected' and op in ('mod', 'pow'):
        raise Discard('the containers define no reflected % and ** (a loud TypeError, not a wrong answer)')
    if kind == 'series_he' and op == 'eq':
        raise Discard('== on the hashable classes is equals(), not an element-wise operator')
    other = case['list'] if case['operand'] == 'list' else case['scalar']
    if kind in ('series', 'series_he'):
        c = getattr(sf, 'Series' if kind == 'series' else 'SeriesHE')(cols[0], index=['r%d' % q for q in range(n)], name='s')
        srcs = [cols[0]]
    elif kind == 'index':
        lab = np.array(sorted(set(arr_list(cols[0]))), dtype=cols[0].dtype)   # labels are distinct
        if case['operand'] == 'list':
            other = case['list'][:len(lab)] + [1] * max(0, len(lab) - len(case['list']))
        c = sf.Index(lab)
        srcs = [lab]
    else:
        # neighbouring columns of one dtype share a 2-D block when `wide` is set
        if case['wide'] and cols[0].dtype == cols[1].dtype:
            blocks = [np.column_stack([cols[0], cols[1]]), cols[2]]
        elif case['wide'] and cols[1].dtype == cols[2].dtype:
            blocks = [cols[0], np.column_stack([cols[1], cols[2]])]
        else:
            blocks = list(cols)
        c = (sf.FrameGO if kind == 'frame_go' else sf.Frame)(sf.TypeBlocks.from_blocks([gen.freeze(b) for b in blocks]), index=['r%d' % q for q in range(n)], columns=('a', 'b', 'c'), name='f')
        srcs = cols
    oarr = np.array(other) if isinstance(other, list) else other
    what = '%s %s %s' % ((repr(other), op, kind) if case['side'] == 'reflected' else (kind, op, repr(other)))
    with np.errstate(all='ignore'):
        try:
            want = [fn(oarr, a) if case['side'] == 'reflected' else fn(a, oarr) for a in srcs]
        except Exception as e:  # noqa: BLE001
            raise Discard('NumPy does not evaluate this pairing: %s' % type(e).__name__)
        r = lib(lambda: fn(other, c) if case['side'] == 'reflected' else fn(c, other))
    if isinstance(r, Raised):
        raise Failure('raised:%s' % r.cls, '%s raised %r (NumPy evaluates it)' % (what, r.exc), r.where)
    if kind == 'index':
        if not isinstance(r, np.ndarray):
            raise Failure('class', '%s returned %s' % (what, type(r).__name__))
        got = [r]
    elif kind in ('series', 'series_he'):
        if not isinstance(r, sf.Series):
            raise Failure('class', '%s returned %s' % (what, type(r).__name__))
        if obs.labels_of(r.index) != ['r%d' % q for q in range(n)]:
            raise Failure('labels', '%s: labels %s' % (what, short(obs.labels_of(r.index))))
        got = [r.values]
    else:
        if not isinstance(r, sf.Frame):
            raise Failure('class', '%s returned %s' % (what, type(r).__name__))
        if obs.labels_of(r.index) != ['r%d' % q for q in range(n)] or obs.labels_of(r.columns) != ['a', 'b', 'c']:
            raise Failure('labels', '%s: labels %s x %s' % (what, short(obs.labels_of(r.index)), short(obs.labels_of(r.columns))))
        got = obs.frame_cols(r)
    for j, (g, w) in enumerate(zip(got, want)):
        gl, wl = arr_list(g), arr_list(w)
        if len(gl) != len(wl) or any(not (eq(x, y) or (is_missing(x) and is_missing(y))) for x, y in zip(gl, wl)):
            raise Failure('value', '%s: column %d holds %s, %s applied to the values gives %s' % (what, j, short(gl), op, short(wl)))
        if np.asarray(g).dtype.kind != np.asarray(w).dtype.kind:
            raise Failure('dtype', '%s: column %d has dtype %s, NumPy gives %s' % (what, j, np.asarray(g).dtype, np.asarray(w).dtype))
    return {'nt': True, 'cls': ['scalar:' + kind, 'scalar-op:' + op, 'scalar-side:' + case['side'], 'scalar-operand:' + case['operand']]}


# ---------------------------------------------------------------------------------------------
# operands labelled by the same instants held in unlike datetime units (IndexDate against an index of second resolution)

@st.composite
def unit_cases(draw):
    op = draw(st.sampled_from(['add', 'sub', 'mul']))
    fine_cls = draw(st.sampled_from(['IndexSecond', 'Index[s]', 'IndexNanosecond']))
    order = draw(st.sampled_from(['ab', 'ba']))
    days = draw(st.lists(st.integers(0, 9), min_size=1, max_size=5, unique=True))
    sub = draw(st.lists(st.sampled_from(days), min_size=1, max_size=len(days), unique=True))
    va = draw(st.lists(st.integers(1, 9), min_size=len(days), max_size=len(days)))
    vb = draw(st.lists(st.integers(1, 9), min_size=len(sub), max_size=len(sub)))
    return {'op': op, 'fine_cls': fine_cls, 'order': order, 'days': days, 'sub': sub, 'va': va, 'vb': vb}


def check_units(case):
    fn = OPS[case['op']]
    d0 = np.datetime64('2020-01-01', 'D')
    la = [d0 + np.timedelta64(k, 'D') for k in case['days']]
    lb = [d0 + np.timedelta64(k, 'D') for k in case['sub']]
    a = sf.Series(case['va'], index=sf.IndexDate(la))
    fine = np.array(lb, dtype='M8[D]').astype('M8[ns]' if case['fine_cls'] == 'IndexNanosecond' else 'M8[s]')
    ixb = {'IndexSecond': lambda: sf.IndexSecond(fine), 'Index[s]': lambda: sf.Index(fine), 'IndexNanosecond': lambda: sf.IndexNanosecond(fine)}[case['fine_cls']]()
    b = sf.Series(case['vb'], index=ixb)
    x, y = (a, b) if case['order'] == 'ab' else (b, a)
    what = 'Series labelled by IndexDate %s %s Series labelled by %s (operands in order %s)' % (short([str(l) for l in la]), case['op'], case['fine_cls'], case['order'])
    r = lib(lambda: fn(x, y))
    if isinstance(r, Raised):
        if r.cls.startswith('ErrorInit'):
            raise Discard('the union of the two label sets is refused: %s' % r.cls)
        raise Failure('raised:%s' % r.cls, '%s raised %r' % (what, r.exc), r.where)
    ma = {int(k): v for k, v in zip(case['days'], case['va'])}
    mb = {int(k): v for k, v in zip(case['sub'], case['vb'])}
    got = {}
    for lab, v in zip(r.index.values.tolist() if r.index.values.dtype.kind != 'M' else list(r.index.values), arr_list(r.values)):
        day = int((np.datetime64(lab).astype('M8[D]') - d0) / np.timedelta64(1, 'D'))
        if day in got:
            raise Failure('labels', '%s: the instant of day %d appears twice in the result' % (what, day))
        got[day] = v
    if set(got) != set(ma) | set(mb):
        raise Failure('labels', '%s: result days %s expected %s' % (what, sorted(got), sorted(set(ma) | set(mb))))
    for day, v in got.items():
        if day in ma and day in mb:
            w = fn(ma[day], mb[day]) if case['order'] == 'ab' else fn(mb[day], ma[day])
            if not eq(v, w):
                raise Failure('value', '%s: day %d holds %r, the operands hold %r and %r there' % (what, day, v, ma[day], mb[day]))
        elif not is_missing(v):
            raise Failure('value', '%s: day %d is held by one operand only and holds %r' % (what, day, v))
    return {'nt': len(case['days']) >= 2, 'cls': ['units:' + case['fine_cls'], 'units-order:' + case['order']]}


SUBS = [
    Sub('setops', setop_cases(), check_setop, quick=8000, thorough=48000, tag=tag,
        rule='set algebra of indices'),
    Sub('series_binop', series_cases(), check_series, quick=8000, thorough=48000, tag=tag,
        rule='Series op Series vs NumPy on model-aligned arrays; metamorphic label permutation'),
    Sub('frame_binop', frame_cases(), check_frame, quick=3200, thorough=24000, tag=tag,
        rule='Frame op Frame / Series vs cell-wise model'),
    Sub('product_trees', product_cases(), check_product, quick=1600, thorough=8000, tag=tag,
        rule='hierarchies built by from_product vs a same-shaped hierarchy differing in one inner label: set algebra, equals, Series / Frame operators pair by label'),
    Sub('scalar_forms', scalar_cases(), check_scalar, quick=2400, thorough=16000, tag=tag,
        rule='a scalar or unlabelled list on either side (forward and reflected + - * / // % ** == < >=) of a Series / SeriesHE / Frame / FrameGO / Index: labels kept, every cell is the operator applied to the value in that order'),
    Sub('datetime_units', unit_cases(), check_units, quick=1600, thorough=8000, tag=tag,
        rule='Series labelled by IndexDate against a Series labelled by the same instants at second / nanosecond resolution, labels in generated orders, both operand orders: values pair by instant'),
]
