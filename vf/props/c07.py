"""C07 — no lossy coercion when values of different types meet.

Provenance oracle: for every merging operation the harness knows which supplied element each
output cell must hold; stored == supplied (NaN-aware), and the value class (bool / integer /
inexact / str / bytes / datetime / timedelta / None) is unchanged, except integer -> inexact when
the value is exactly representable.  Columns the operation does not address keep their dtype.
"""
import numpy as np
from hypothesis import strategies as st

from vf import gen, obs
from vf.base import Discard, Failure, Raised, arr_list, canon, eq, is_missing, lib, sf, short, typeclass
from vf.harness import Sub

PID = 'C07'
RULE = ('ordered pairs of dtype kinds (28 kinds: bool, int/uint widths, float widths, complex, <U/S widths, datetime64/timedelta64 units, object) '
        'x 34 merging operations (reindex/shift fill, concat, assign, fillna, overlay, insert, from_records/_dict_records/_items, GO growth, row/values consolidation, Index append/fillna...) '
        'with boundary elements (dtype limits, ints > 2**53, NaN/None/NaT, max-width strings); '
        'non-trivial = the two kinds differ and the merged array holds elements from both sources')
ASSUMPTIONS = ['str with bytes is outside the claim (statement)', 'tuples only as single fill/assign elements',
               'integer -> inexact is allowed iff the stored value == the supplied integer exactly; narrower -> wider within a class is allowed']

KINDS = tuple(k for k in gen.KINDS_WIDE)
MISSING_OK = ('float16', 'float32', 'float64', 'complex64', 'complex128', 'object', 'M8[Y]', 'M8[M]', 'M8[D]', 'M8[h]', 'M8[s]', 'M8[ns]', 'm8[D]', 'm8[s]')

OPS = ('f_fillna_dir1', 's_reindex', 's_shift', 's_concat', 's_insert', 's_assign_el', 's_assign_arr', 's_assign_series', 's_assign_series_partial', 'f_assign_series_partial', 's_fillna', 's_fillna_series', 's_overlay', 's_from_items', 's_from_list',
       'f_reindex', 'f_shift', 'f_concat0', 'f_concat1', 'f_assign_el', 'f_assign_arr', 'f_assign_series', 'f_assign_bloc', 'f_fillna', 'f_fillna_sided',
       'f_row', 'f_values', 'f_iter_array1', 'f_from_records', 'f_from_records_mixed', 'f_from_dict_records', 'f_from_items', 'f_insert', 'f_overlay',
       'go_setitem', 'go_extend', 'ix_append', 'ix_fillna', 'f_relabel_shift', 'f_unset_index', 'f_pivot_stack', 'f_pivot_unstack', 'f_pivot_unstack_ragged',
       'go_values', 'go_iter_array1', 'go_iter_tuple1', 'go_transpose', 'f_assign_frame_rows')


def _str_or_bytes(k):
    return 'str' if k.startswith('<U') else ('bytes' if k.startswith('S') else None)


@st.composite
def cases(draw):
    op = draw(st.sampled_from(OPS))  # decisive choices first (late draws are pinned to their first option for a share of the examples)
    i, j, tuple_el = draw(st.integers(0, 7)), draw(st.integers(0, 7)), draw(st.booleans())
    ka = draw(st.sampled_from(KINDS))
    kb = draw(st.sampled_from(KINDS))
    if draw(st.integers(0, 2)) == 2:
        # one case in three pairs two dtypes of one kind (float32 with float64, datetime64[D] with [s], <U1 with <U8 ...): the
        # pairings where a value fits the kind of its destination but not its width or unit
        kb = draw(st.sampled_from([k for k in KINDS if gen.np_dtype(k).kind == gen.np_dtype(ka).kind]))
    if {_str_or_bytes(ka), _str_or_bytes(kb)} == {'str', 'bytes'}:
        kb = ka
    n = draw(st.integers(1, 4))
    curated = draw(st.integers(0, 7)) == 7
    if curated:
        # one case in eight: a partly missing narrow column meets values of the same kind that only the wider dtype / finer unit holds
        op = draw(st.sampled_from(('f_overlay', 's_overlay', 'f_fillna', 's_fillna_series', 'f_assign_series', 's_assign_series')))
        ka, kb, odd = draw(st.sampled_from([('float32', 'float64', 0.1), ('float16', 'float64', 70000.0), ('M8[D]', 'M8[s]', np.datetime64('2019-05-05T10:20:30')),
                                            ('m8[D]', 'm8[s]', np.timedelta64(90, 's')), ('complex64', 'complex128', 0.1 + 0.3j), ('float32', 'float64', 1e-9)]))
        n = draw(st.integers(2, 4))
    a = draw(st.lists(gen.elements(ka, missing=True, boundary=True), min_size=n, max_size=n))
    b = draw(st.lists(gen.elements(kb, missing=True, boundary=True), min_size=n, max_size=n))
    if curated:
        miss = {'f': float('nan'), 'c': complex('nan'), 'M': np.datetime64('NaT'), 'm': np.timedelta64('NaT')}[gen.np_dtype(ka).kind]
        a = [miss] + [x for x in a[1:]]
        if all(is_missing(x) for x in a[1:]):
            a[-1] = draw(gen.elements(ka, missing=False))
        b = [odd] + b[1:]
    return {'op': op, 'ka': ka, 'kb': kb, 'a': gen.to_array(ka, a), 'b': gen.to_array(kb, b), 'i': i, 'j': j, 'tuple_el': tuple_el}


def _el(arr, i):
    """A single element of an array as the Python/NumPy scalar a user would supply."""
    x = arr_list(arr)[i % len(arr)]
    return x


def _ok_class(stored, supplied):
    cs, cp = typeclass(stored), typeclass(supplied)
    if cs == cp:
        return True
    if cp == 'integer' and cs == 'inexact':
        return True  # value equality is checked separately and exactly
    if cp == 'none' and cs == 'none':
        return True
    return False


def _cmp(stored, supplied, where, cells):
    cells.append((stored, supplied, where))


def _verify(cells, dtypes):
    for stored, supplied, where in cells:
        ms, mp = is_missing(stored), is_missing(supplied)
        if mp:
            if not ms:
                raise Failure('value', '%s: supplied missing %r, stored %r' % (where, supplied, stored))
            # a missing marker may change representation only within "missing" of the target class;
            # None must stay None (it compares equal only to None)
            if supplied is None and stored is not None:
                raise Failure('none-coerced', '%s: supplied None, stored %r' % (where, stored))
            continue
        if ms:
            raise Failure('value', '%s: supplied %r, stored missing %r' % (where, supplied, stored))
        if not eq(stored, supplied):
            raise Failure('value', '%s: supplied %r (%s), stored %r (%s)' % (where, supplied, type(supplied).__name__, stored, type(stored).__name__))
        if isinstance(supplied, (str, bytes, np.str_, np.bytes_)) and len(stored) != len(supplied):
            raise Failure('truncated', '%s: supplied %r, stored %r' % (where, supplied, stored))
        if not _ok_class(stored, supplied):
            raise Failure('class', '%s: supplied %r (%s), stored %r (%s)' % (where, supplied, typeclass(supplied), stored, typeclass(stored)))
    for got, want, where in dtypes:
        if got != want:
            raise Failure('untouched-dtype', '%s: dtype %s became %s' % (where, want, got))


def _series_cells(s, expect, what, cells):
    vals = arr_list(s.values)
    if len(vals) != len(expect):
        raise Failure('length', '%s: %d values for %d expected' % (what, len(vals), len(expect)))
    for k, (g, w) in enumerate(zip(vals, expect)):
        _cmp(g, w, '%s[%d]' % (what, k), cells)


def check(case):
    op, a, b = case['op'], case['a'], case['b']
    n = len(a)
    i, j = case['i'], case['j']
    la, lb = arr_list(a), arr_list(b)
    cells, dts = [], []
    allel = la + lb
    if any(isinstance(x, (bytes, np.bytes_)) for x in allel) and any(isinstance(x, (str, np.str_)) for x in allel):
        raise Discard('str meets bytes (outside the claim)')
    eb = _el(b, i)
    if case['tuple_el'] and op in ('s_reindex', 's_shift', 'f_reindex', 'f_shift'):
        eb = (1, 'a')
    idx = list(range(n))
    need_missing_a = op in ('s_fillna', 's_fillna_series', 'f_fillna', 'f_fillna_sided', 's_overlay', 'f_overlay', 'ix_fillna')
    if need_missing_a and case['ka'] not in MISSING_OK:
        raise Discard('kind cannot hold a missing value')

    def run():
        if op == 's_reindex':
            s = sf.Series(a, index=idx)
            r = s.reindex(idx[::-1] + [n, n + 1], fill_value=eb)
            _series_cells(r, la[::-1] + [eb, eb], op, cells)
        elif op == 's_shift':
            k = (i % (2 * n + 1)) - n
            r = sf.Series(a).shift(k, fill_value=eb)
            exp = ([eb] * min(k, n) + la[:max(n - k, 0)]) if k >= 0 else (la[-k:] + [eb] * min(-k, n))
            _series_cells(r, exp[:n], op, cells)
        elif op == 's_concat':
            r = sf.Series.from_concat((sf.Series(a, index=['a%d' % q for q in idx]), sf.Series(b, index=['b%d' % q for q in idx])))
            _series_cells(r, la + lb, op, cells)
        elif op == 's_insert':
            # a Series of another dtype inserted before / after a position: both sets of values are kept as they are
            p = i % n
            sa = sf.Series(a, index=['a%d' % q for q in idx])
            sb = sf.Series(b, index=['b%d' % q for q in idx])
            after = bool(j % 2)
            r = (sa.insert_after if after else sa.insert_before)(sf.ILoc[p] if j % 4 < 2 else 'a%d' % p, sb)
            at = p + 1 if after else p
            _series_cells(r, la[:at] + lb + la[at:], op, cells)
        elif op == 's_assign_el':
            p = i % n
            r = sf.Series(a).assign.iloc[p](eb)
            _series_cells(r, la[:p] + [eb] + la[p + 1:], op, cells)
        elif op == 's_assign_arr':
            pos = sorted({i % n, j % n})
            r = sf.Series(a).assign.iloc[pos](b[:len(pos)])
            exp = list(la)
            for q, p in enumerate(pos):
                exp[p] = lb[q]
            _series_cells(r, exp, op, cells)
        elif op == 's_assign_series':
            pos = sorted({i % n, j % n})
            val = sf.Series(b[:len(pos)], index=pos[::-1])
            r = sf.Series(a).assign.iloc[pos](val)
            exp = list(la)
            for q, p in enumerate(pos[::-1]):
                exp[p] = lb[q]
            _series_cells(r, exp, op, cells)
        elif op in ('s_assign_series_partial', 'f_assign_series_partial'):
            # the assigned Series (kind A) covers every target label but one; the uncovered one takes fill_value (kind B)
            if n < 2:
                raise Discard('needs two targets')
            covered = idx[:-1][::-1]
            val = sf.Series(a[:len(covered)][::-1].copy(), index=covered)
            if op == 's_assign_series_partial':
                r = sf.Series(a, index=idx).assign.loc[idx](val, fill_value=eb)
                _series_cells(r, la[:n - 1] + [eb], op, cells)
            else:
                f = sf.Frame.from_items((('x', a), ('u', b)), index=idx)
                r = f.assign['x'](val, fill_value=eb)
                _series_cells(r['x'], la[:n - 1] + [eb], op + '.x', cells)
                dts.append((r['u'].dtype, b.dtype, op + ' untouched column u'))
        elif op == 's_fillna':
            r = sf.Series(a).fillna(eb)
            _series_cells(r, [eb if is_missing(x) else x for x in la], op, cells)
        elif op == 's_fillna_series':
            r = sf.Series(a, index=idx).fillna(sf.Series(b, index=idx[::-1]))
            _series_cells(r, [lb[n - 1 - q] if is_missing(x) else x for q, x in enumerate(la)], op, cells)
        elif op == 's_overlay':
            r = sf.Series.from_overlay((sf.Series(a, index=idx), sf.Series(b, index=idx)))
            _series_cells(r, [lb[q] if is_missing(x) else x for q, x in enumerate(la)], op, cells)
        elif op == 's_from_items':
            r = sf.Series.from_items(list(zip(['a%d' % q for q in idx], la)) + list(zip(['b%d' % q for q in idx], lb)))
            _series_cells(r, la + lb, op, cells)
        elif op == 's_from_list':
            r = sf.Series(la + lb)
            _series_cells(r, la + lb, op, cells)
        elif op in ('f_reindex', 'f_shift', 'f_assign_el', 'f_assign_arr', 'f_assign_series', 'f_assign_bloc', 'f_fillna', 'f_fillna_sided', 'f_insert'):
            # frame: column 'x' of kind A (addressed) and column 'u' of kind B (untouched where stated)
            f = sf.Frame.from_items((('x', a), ('u', b)), index=idx)
            if op == 'f_reindex':
                r = f.reindex(index=idx[::-1] + [n], fill_value=eb)
                _series_cells(r['x'], la[::-1] + [eb], op + '.x', cells)
                _series_cells(r['u'], lb[::-1] + [eb], op + '.u', cells)
            elif op == 'f_shift':
                r = f.shift(1, fill_value=eb)
                _series_cells(r['x'], ([eb] + la)[:n], op + '.x', cells)
                _series_cells(r['u'], ([eb] + lb)[:n], op + '.u', cells)
            elif op == 'f_assign_el':
                p = i % n
                r = f.assign.loc[p, 'x'](eb)
                _series_cells(r['x'], la[:p] + [eb] + la[p + 1:], op + '.x', cells)
                _series_cells(r['u'], lb, op + '.u', cells)
                dts.append((r['u'].dtype, b.dtype, op + ' untouched column u'))
            elif op == 'f_assign_arr':
                r = f.assign['x'](b)
                _series_cells(r['x'], lb, op + '.x', cells)
                _series_cells(r['u'], lb, op + '.u', cells)
                dts.append((r['u'].dtype, b.dtype, op + ' untouched column u'))
            elif op == 'f_assign_series':
                r = f.assign['x'](sf.Series(b, index=idx[::-1]))
                _series_cells(r['x'], lb[::-1], op + '.x', cells)
                dts.append((r['u'].dtype, b.dtype, op + ' untouched column u'))
            elif op == 'f_assign_bloc':
                mask = np.zeros((n, 2), dtype=bool)
                mask[i % n, 0] = True
                r = f.assign.bloc[mask](eb)
                p = i % n
                _series_cells(r['x'], la[:p] + [eb] + la[p + 1:], op + '.x', cells)
                _series_cells(r['u'], lb, op + '.u', cells)
                dts.append((r['u'].dtype, b.dtype, op + ' untouched column u'))
            elif op == 'f_fillna':
                g = sf.Frame.from_items((('x', a), ('u', a)), index=idx)
                r = g.fillna(eb)
                _series_cells(r['x'], [eb if is_missing(x) else x for x in la], op + '.x', cells)
            elif op == 'f_fillna_sided':
                g = sf.Frame.from_items((('x', a),), index=idx)
                r = g.fillna_leading(eb)
                exp = list(la)
                for q in range(n):
                    if is_missing(la[q]):
                        exp[q] = eb
                    else:
                        break
                _series_cells(r['x'], exp, op + '.x', cells)
            else:
                ins = sf.Series(b[:max(n - 1, 1)], index=idx[:max(n - 1, 1)], name='ins')
                r = f.insert_after('x', ins, fill_value=_el(a, j))
                exp = lb[:max(n - 1, 1)] + [_el(a, j)] * (n - max(n - 1, 1))
                _series_cells(r['ins'], exp, op + '.ins', cells)
                dts.append((r['x'].dtype, a.dtype, op + ' untouched column x'))
                dts.append((r['u'].dtype, b.dtype, op + ' untouched column u'))
        elif op == 'f_fillna_dir1':
            # a directional fill along the rows carries an element of one column into the missing cell of its neighbour:
            # block B (1-D) next to a two-column 2-D block of kind A whose near column has a missing cell
            if case['ka'] not in MISSING_OK:
                raise Discard('kind cannot hold a missing value')
            p = i % n
            a1 = a.copy()
            a1[p] = {'f': np.nan, 'c': np.nan, 'M': np.datetime64('NaT'), 'm': np.timedelta64('NaT'), 'O': None}[a.dtype.kind]
            blk = np.empty((n, 2), dtype=a.dtype)
            blk[:, 0], blk[:, 1] = a1, a
            forward = bool(j % 2)
            blocks = [b, blk] if forward else [blk[:, ::-1].copy(), b]
            f = sf.Frame(sf.TypeBlocks.from_blocks([gen.freeze(x) for x in blocks]), index=idx)
            r = f.fillna_forward(axis=1) if forward else f.fillna_backward(axis=1)
            rows_in = [[lb[q], arr_list(a1)[q], la[q]] if forward else [la[q], arr_list(a1)[q], lb[q]] for q in range(n)]
            rc = [arr_list(c) for c in obs.frame_cols(r)]
            for q in range(n):
                seq = rows_in[q] if forward else rows_in[q][::-1]
                out, carry, have = [], None, False
                for x in seq:
                    if is_missing(x):
                        out.append(carry if have else x)
                    else:
                        carry, have = x, True
                        out.append(x)
                out = out if forward else out[::-1]
                for col in range(3):
                    _cmp(rc[col][q], out[col], '%s[%d,%d]' % (op, q, col), cells)
        elif op == 'f_concat0':
            f1 = sf.Frame.from_items((('x', a),), index=['a%d' % q for q in idx])
            f2 = sf.Frame.from_items((('x', b),), index=['b%d' % q for q in idx])
            r = sf.Frame.from_concat((f1, f2))
            _series_cells(r['x'], la + lb, op, cells)
        elif op == 'f_concat1':
            f1 = sf.Frame.from_items((('x', a),), index=idx)
            f2 = sf.Frame.from_items((('y', b),), index=[q + 1 for q in idx])
            r = sf.Frame.from_concat((f1, f2), axis=1, fill_value=eb)
            _series_cells(r['x'], la + [eb], op + '.x', cells)
            _series_cells(r['y'], [eb] + lb, op + '.y', cells)
        elif op in ('f_row', 'f_values', 'f_iter_array1'):
            f = sf.Frame.from_items((('x', a), ('y', b)), index=idx)
            p = i % n
            if op == 'f_row':
                _series_cells(f.iloc[p], [la[p], lb[p]], op, cells)
            elif op == 'f_values':
                v = f.values
                for q in range(n):
                    _cmp(arr_list(v[q])[0], la[q], '%s[%d,0]' % (op, q), cells)
                    _cmp(arr_list(v[q])[1], lb[q], '%s[%d,1]' % (op, q), cells)
            else:
                rows = list(f.iter_array(axis=1))
                _cmp(arr_list(rows[p])[0], la[p], '%s[%d,0]' % (op, p), cells)
                _cmp(arr_list(rows[p])[1], lb[p], '%s[%d,1]' % (op, p), cells)
        elif op == 'f_from_records':
            r = sf.Frame.from_records(list(zip(la, lb)), columns=('x', 'y'))
            _series_cells(r['x'], la, op + '.x', cells)
            _series_cells(r['y'], lb, op + '.y', cells)
        elif op == 'f_from_records_mixed':
            r = sf.Frame.from_records([(x,) for x in la] + [(y,) for y in lb], columns=('x',))
            _series_cells(r['x'], la + lb, op + '.x', cells)
        elif op == 'f_from_dict_records':
            r = sf.Frame.from_dict_records([{'x': x} for x in la] + [{'y': y} for y in lb], fill_value=eb)
            _series_cells(r['x'], la + [eb] * n, op + '.x', cells)
            _series_cells(r['y'], [eb] * n + lb, op + '.y', cells)
        elif op == 'f_from_items':
            r = sf.Frame.from_items((('x', la), ('y', lb)))
            _series_cells(r['x'], la, op + '.x', cells)
            _series_cells(r['y'], lb, op + '.y', cells)
        elif op == 'f_overlay':
            f1 = sf.Frame.from_items((('x', a),), index=idx)
            f2 = sf.Frame.from_items((('x', b),), index=idx)
            r = sf.Frame.from_overlay((f1, f2))
            _series_cells(r['x'], [lb[q] if is_missing(x) else x for q, x in enumerate(la)], op, cells)
        elif op == 'go_setitem':
            f = sf.FrameGO.from_items((('x', a),), index=idx)
            f['y'] = sf.Series(b[:max(n - 1, 1)], index=idx[:max(n - 1, 1)])
            if n - max(n - 1, 1) == 0:
                _series_cells(f['y'], lb, op + '.y', cells)
            else:
                _series_cells(f['y'].iloc[:n - 1], lb[:n - 1], op + '.y', cells)
            dts.append((f['x'].dtype, a.dtype, op + ' untouched column x'))
        elif op == 'f_assign_frame_rows':
            # a Frame value whose columns have unlike dtypes (one of them the target's own), written onto some of the rows of two
            # columns that share one 2-D block of the target
            if n < 2:
                raise Discard('needs two rows')
            tgt = sf.Frame(gen.freeze(np.column_stack([a, a])) if a.dtype != object else gen.freeze(np.array([[x, x] for x in la], dtype=object).reshape(n, 2)),
                           index=idx, columns=('x', 'y'))
            rows = idx[:n - 1] if i % 2 else idx[1:]
            sel = slice(0, n - 1) if i % 2 else slice(1, n)
            val = sf.Frame.from_items((('x', gen.freeze(a[sel])), ('y', gen.freeze(b[sel]))), index=rows)
            r = tgt.assign.loc[rows, ['x', 'y']](val) if i % 3 else tgt.assign.iloc[sel, [0, 1]](val)
            keep_pos = n - 1 if i % 2 else 0
            _series_cells(r['x'], la, op + '.x', cells)
            exp_y = list(lb)
            exp_y[keep_pos] = la[keep_pos]
            _series_cells(r['y'], exp_y, op + '.y', cells)
        elif op in ('go_values', 'go_iter_array1', 'go_iter_tuple1', 'go_transpose'):
            # rows consolidated from a frame that was grown after construction (its row dtype is kept up incrementally)
            f = sf.FrameGO.from_items((('x', a),), index=idx)
            f['y'] = b
            p = i % n
            if op == 'go_values':
                v = f.values
                for q in range(n):
                    _cmp(arr_list(v[q])[0], la[q], '%s[%d,0]' % (op, q), cells)
                    _cmp(arr_list(v[q])[1], lb[q], '%s[%d,1]' % (op, q), cells)
            else:
                if op == 'go_iter_array1':
                    row = arr_list(list(f.iter_array(axis=1))[p])
                elif op == 'go_iter_tuple1':
                    row = arr_list(np.array(list(f.iter_series(axis=1))[p].values))
                else:
                    row = arr_list(f.transpose().iloc[:, p].values)
                _cmp(row[0], la[p], '%s[%d,0]' % (op, p), cells)
                _cmp(row[1], lb[p], '%s[%d,1]' % (op, p), cells)
        elif op == 'go_extend':
            f = sf.FrameGO.from_items((('x', a),), index=idx)
            f.extend(sf.Frame.from_items((('y', b),), index=[q + 1 for q in idx]), fill_value=eb)
            _series_cells(f['y'], [eb] + lb[:n - 1], op + '.y', cells)
            dts.append((f['x'].dtype, a.dtype, op + ' untouched column x'))
        elif op == 'ix_append':
            uniq = []
            for x in la:
                if not is_missing(x) and not any(eq(x, y) for y in uniq):
                    uniq.append(x)
            if not uniq or is_missing(eb) or any(eq(eb, y) for y in uniq):
                raise Discard('labels not unique / missing')
            ix = sf.IndexGO(gen.to_array(case['ka'], uniq))
            ix.append(eb)
            got = arr_list(ix.values)
            for q, (g, w) in enumerate(zip(got, uniq + [eb])):
                _cmp(g, w, '%s[%d]' % (op, q), cells)
        elif op == 'ix_fillna':
            uniq = []
            for x in la:
                if is_missing(x) or not any(eq(x, y) for y in uniq if not is_missing(y)):
                    uniq.append(x)
            if sum(1 for x in uniq if is_missing(x)) != 1 or is_missing(eb) or any(eq(eb, y) for y in uniq if not is_missing(y)):
                raise Discard('needs exactly one missing label and a fresh fill')
            ix = sf.Index(gen.to_array(case['ka'], uniq))
            r = ix.fillna(eb)
            for q, (g, w) in enumerate(zip(arr_list(r.values), [eb if is_missing(x) else x for x in uniq])):
                _cmp(g, w, '%s[%d]' % (op, q), cells)
        elif op in ('f_pivot_stack', 'f_pivot_unstack'):
            # two columns of unlike dtypes under one outer label are merged into one column (stack) and taken apart again
            # (unstack): every value is kept as it is, in either order of the two
            first, second = (a, b) if j % 2 == 0 else (b, a)
            f = sf.Frame.from_items(zip((('g', 0), ('g', 1)), (first, second)), index=['r%d' % q for q in idx], columns_constructor=sf.IndexHierarchy.from_labels)
            r = f.pivot_stack(1)
            src = {('r%d' % q, 0): arr_list(first)[q] for q in idx}
            src.update({('r%d' % q, 1): arr_list(second)[q] for q in idx})
            labs = [tuple(canon(x) for x in t) for t in r.index]
            if sorted(labs) != sorted(src):
                raise Failure('value', '%s: stacked row labels %r' % (op, labs))
            if op == 'f_pivot_stack':
                _series_cells(r.iloc[:, 0], [src[l] for l in labs], op, cells)
            else:
                u = r.pivot_unstack(1)
                for c, t in enumerate(u.columns):
                    rl = [canon(x) for x in u.index]
                    _series_cells(u.iloc[:, c], [src[(x, int(t[1]))] for x in rl], op + '[%r]' % (int(t[1]),), cells)
        elif op == 'f_pivot_unstack_ragged':
            # rows labelled (r0, 0), (r0, 1), (r1, 1): unstacking the inner depth needs the fill value for (r1, 0) only; the column
            # of inner label 1 is complete, receives no fill and keeps its values and its dtype
            if n < 3:
                raise Discard('needs three rows')
            src = a[:3]
            f = sf.Frame.from_items((('v', src),), index=sf.IndexHierarchy.from_labels([('r0', 0), ('r0', 1), ('r1', 1)]))
            r = f.pivot_unstack(1, fill_value=eb)
            cols = {int(t[1]): c for c, t in enumerate(r.columns)}
            rows = [canon(x) for x in r.index]
            if sorted(cols) != [0, 1] or sorted(rows) != ['r0', 'r1']:
                raise Failure('value', '%s: labels %r x %r' % (op, list(r.index), list(r.columns)))
            la3 = arr_list(src)
            want0 = {'r0': la3[0], 'r1': eb}
            want1 = {'r0': la3[1], 'r1': la3[2]}
            _series_cells(r.iloc[:, cols[0]], [want0[x] for x in rows], op + '[0]', cells)
            _series_cells(r.iloc[:, cols[1]], [want1[x] for x in rows], op + '[1]', cells)
            dts.append((r.iloc[:, cols[1]].dtype, a.dtype, op + ' column of the complete inner label'))
        elif op in ('f_relabel_shift', 'f_unset_index'):
            uniq = []
            for x in la:
                if not is_missing(x) and not any(eq(x, y) for y in uniq):
                    uniq.append(x)
            if len(uniq) < 1:
                raise Discard('no usable labels')
            f = sf.Frame.from_items((('y', b[:len(uniq)]),), index=sf.Index(gen.to_array(case['ka'], uniq), name='k'))
            r = f.unset_index() if op == 'f_unset_index' else f.relabel_shift_out(0, axis=0)
            _series_cells(r.iloc[:, 0], uniq, op + '.labels-as-column', cells)
            _series_cells(r['y'], lb[:len(uniq)], op + '.y', cells)
            dts.append((r['y'].dtype, b.dtype, op + ' untouched column y'))
        else:
            raise AssertionError(op)

    r = lib(run)
    if isinstance(r, Raised):
        if isinstance(r.exc, (Failure, Discard)):
            raise r.exc
        # a loud rejection is not a *silent* lossy coercion: counted, not a violation of this property
        raise Discard('operation raised %s' % r.cls)
    _verify(cells, dts)
    merged = case['ka'] != case['kb']
    return {'nt': merged and len(cells) >= 2, 'cls': ['op:' + op, 'pair:%s|%s' % (gen.np_dtype(case['ka']).kind, gen.np_dtype(case['kb']).kind)]}


# ---------------------------------------------------------------------------------------------
# known-finding classifiers

LIST_OPS = ('s_from_list', 's_from_items', 'f_from_records_mixed', 'f_from_items', 'f_from_dict_records', 'f_from_records')


_CLS = {'int': 'integer', 'bool_': 'bool', 'float': 'inexact', 'complex': 'inexact', 'bytes_': 'bytes', 'str_': 'str',
        'timedelta64': 'timedelta', 'datetime64': 'datetime', 'NoneType': 'none'}
# what np.array() does to a heterogeneous Python iterable that the library does not guard (supplied -> stored)
_NP_COERCIONS = {('bool', 'integer'), ('bool', 'inexact'), ('bool', 'timedelta'), ('bool', 'bytes'), ('integer', 'bytes'), ('inexact', 'bytes'),
                 ('integer', 'timedelta'), ('timedelta', 'datetime')}


def _coerced_pair(case, f):
    """Is this failure one of the recorded NumPy coercions of a heterogeneous Python iterable?"""
    import re
    m = re.search(r'supplied .*? \((\w+)\), stored .* \((\w+)\)\s*$', f.detail, re.S)
    if not m:
        # an integer / timedelta that np.array() turned into the NaT of the iterable's timedelta64 / datetime64 elements
        m2 = re.search(r"supplied (.+?), stored missing np\.(timedelta64|datetime64)\('NaT'", f.detail)
        if m2:
            want = {'timedelta64': 'timedelta', 'datetime64': 'datetime'}[m2.group(2)]
            its = _iterable_for(case, f)
            return any(typeclass(x) == want for x in its) and len({typeclass(x) for x in its if x is not None}) >= 2
        # a missing float/complex stored as its text in a bytes array
        return bool(re.search(r"supplied missing \(?nan.*, stored b'", f.detail)) and any(typeclass(x) == 'bytes' for x in _iterable_for(case, f))

    def cls(n):
        n = _CLS.get(n, n)
        if n.startswith(('int', 'uint')):
            return 'integer'
        if n.startswith(('float', 'complex')):
            return 'inexact'
        return n
    if len({typeclass(x) for x in _iterable_for(case, f) if x is not None}) < 2:
        return False  # a homogeneous iterable: not this finding
    return (cls(m.group(1)), cls(m.group(2))) in _NP_COERCIONS


def _iterable_for(case, f):
    """The elements of the Python iterable that produced the failing cell (LIST_OPS only)."""
    la, lb = arr_list(case['a']), arr_list(case['b'])
    if case['op'] in ('f_from_records', 'f_from_items', 'f_from_dict_records'):
        where = f.detail.split('[')[0]
        col = la if where.endswith('.x') else lb
        if case['op'] == 'f_from_dict_records':
            col = col + [_el(case['b'], case['i'])]
        return col
    return la + lb


def _big_int(x):
    return isinstance(x, (int, np.integer)) and not isinstance(x, (bool, np.bool_, np.timedelta64)) and abs(int(x)) > 2 ** 53


def tag(case, f):
    d = f.detail
    ka, kb = gen.np_dtype(case['ka']), gen.np_dtype(case['kb'])
    kinds = {ka.kind, kb.kind}
    elems = arr_list(case['a']) + arr_list(case['b'])
    # (a) 64-bit integers beyond 2**53 resolved with float (or int64 with uint64) become float64
    # (array-level dtype resolution, or int64-with-uint64 inside an all-integer iterable; in a Python iterable the library
    # guards big Python ints meeting a float by building an object array, so a big int lost next to a float is *not* this finding)
    if f.kind == 'value' and (case['op'] not in LIST_OPS or not any(typeclass(x) == 'inexact' for x in _iterable_for(case, f))) and any(_big_int(x) for x in elems) and ('(int), stored' in d or '(int64), stored' in d or '(uint64), stored' in d) \
            and (d.rstrip().endswith('(float)') or d.rstrip().endswith('(float64)') or d.rstrip().endswith('(complex)') or d.rstrip().endswith('(complex128)')):
        return 'int64-beyond-2**53-promoted-to-float'
    # (c) datetime64/timedelta64 finer than microseconds merged into an object array becomes a Python int
    if f.kind in ('class', 'value') and any(k.kind in 'Mm' and k.name.endswith(('[ns]', '[ps]', '[fs]', '[as]')) for k in (ka, kb)) and ('(integer)' in d or 'int)' in d):
        return 'datetime64-ns-becomes-int-in-object-array'
    # (d) a bytes *element* is taken for an iterable of values by assign / fillna
    if case['op'] in ('s_assign_el', 'f_assign_el', 'f_assign_bloc', 's_fillna', 'f_fillna', 'f_fillna_sided') and 'ndarray' in d and isinstance(_el(case['b'], case['i']), (bytes, np.bytes_)):
        return 'bytes-element-treated-as-iterable'
    # (b) heterogeneous Python iterables handed to np.array(): bool/number/bytes/datetime coerced into one another
    # (only the pairings the finding records: bool with number, bool/number with bytes, int with timedelta64,
    # timedelta64 with datetime64)
    if case['op'] in LIST_OPS and f.kind in ('class', 'value') and _coerced_pair(case, f):
        return 'python-iterable-of-mixed-types-coerced-by-numpy'
    return None


def is_missing_fill(case):
    return any(is_missing(x) for x in arr_list(case['a']) + arr_list(case['b']))


# ---------------------------------------------------------------------------------------------
# Python iterables of guarded element types (ints of every magnitude, floats, str, None): the library
# inspects such iterables element by element before handing them to NumPy; every order is generated

ITER_POOL = [0, 3, -7, 2 ** 31, 10 ** 15, 10 ** 15 + 1, 2 ** 53, 2 ** 53 + 1, -(2 ** 53) - 1, 2 ** 60 + 1, 2 ** 63 - 1, -(2 ** 63), 2 ** 63, 2 ** 64 - 1,
             1.5, -0.25, 1e300, float('nan'), 2.0, 'a', 'bcd', '', None, 1 + 2j]  # (tuples are outside the quantification: single-element interfaces only)
ITER_ROUTES = ('series', 'series_from_items', 'frame_from_records', 'frame_from_items', 'frame_from_dict_records', 'series_assign', 'frame_from_fields',
               'index', 'series_generator', 'frame_from_element_rows')


@st.composite
def iter_cases(draw):
    # weighted towards ints and floats; a run of ints followed or preceded by a float is the interesting shape
    pool_i = st.sampled_from([x for x in ITER_POOL if type(x) is int])
    pool_f = st.sampled_from([x for x in ITER_POOL if type(x) in (float, complex)])
    pool_o = st.sampled_from([x for x in ITER_POOL if type(x) not in (int, float, complex)])
    el = st.one_of(pool_i, pool_i, pool_i, pool_f, pool_f, pool_o)
    route = draw(st.sampled_from(ITER_ROUTES))
    elems = draw(st.lists(el, min_size=2, max_size=6))
    return {'elems': elems, 'route': route, 'op': 'iter'}


def check_iter(case):
    elems = list(case['elems'])
    route = case['route']
    n = len(elems)
    cells = []
    if route == 'index' and len({repr(canon(x)) if not is_missing(x) else 'nan' for x in elems}) != n:
        raise Discard('duplicate labels')
    if route == 'index' and any(is_missing(x) for x in elems):
        raise Discard('missing label')

    def run():
        if route == 'series':
            r = sf.Series(elems)
        elif route == 'series_generator':
            r = sf.Series((x for x in elems), index=range(n))
        elif route == 'series_from_items':
            r = sf.Series.from_items(zip(range(n), elems))
        elif route == 'frame_from_records':
            r = sf.Frame.from_records([(x, 0) for x in elems], columns=('x', 'y'))['x']
        elif route == 'frame_from_items':
            r = sf.Frame.from_items((('x', elems),))['x']
        elif route == 'frame_from_dict_records':
            r = sf.Frame.from_dict_records([{'x': x} for x in elems])['x']
        elif route == 'frame_from_fields':
            r = sf.Frame.from_fields([elems], columns=('x',))['x']
        elif route == 'frame_from_element_rows':
            r = sf.Frame.from_records([elems], columns=range(n)).iloc[0]
        elif route == 'series_assign':
            r = sf.Series(np.zeros(n, dtype=object)).assign.iloc[:](elems)
        else:
            r = sf.Series(np.zeros(n), index=sf.Index(elems)).index
        if route == 'index':
            vals = list(r)
            if len(vals) != n:
                raise Failure('length', 'index of %d labels from %d elements' % (len(vals), n))
            for k, (g, w) in enumerate(zip(vals, elems)):
                _cmp(g, w, 'iter:%s[%d]' % (route, k), cells)
        elif route == 'frame_from_element_rows':
            vals = arr_list(r.values)
            for k, (g, w) in enumerate(zip(vals, elems)):
                _cmp(g, w, 'iter:%s[%d]' % (route, k), cells)
        else:
            _series_cells(r, elems, 'iter:' + route, cells)
    r = lib(run)
    if isinstance(r, Raised):
        if isinstance(r.exc, Failure):
            raise r.exc
        raise Discard('constructor raised loudly: %s' % r.cls)
    _verify(cells, [])
    kinds = {typeclass(x) for x in elems}
    big = any(type(x) is int and abs(x) > 2 ** 53 for x in elems)
    return {'nt': len(kinds) >= 2 or big, 'cls': ['iter:' + route, 'iter-big-int' if big else 'iter-small', 'iter-classes:%d' % len(kinds)]}


def tag_iter(case, f):
    """Only what the recorded findings state: an all-integer iterable reaching beyond int64 (NumPy gives float64), and
    NumPy's coercion among unguarded classes (none of which is in this pool except complex/float with nothing)."""
    elems = case['elems']
    d = f.detail
    if f.kind == 'value' and all(type(x) is int for x in elems) and any(abs(x) >= 2 ** 63 for x in elems) and d.rstrip().endswith(('(float)', '(float64)')):
        return 'int64-beyond-2**53-promoted-to-float'
    # a row read across an int64 column and a float column is array-level dtype resolution (the recorded finding), not
    # the element-wise inspection of an iterable
    if f.kind == 'value' and case['route'] == 'frame_from_element_rows' and any(_big_int(x) for x in elems) \
            and any(typeclass(x) == 'inexact' for x in elems) and d.rstrip().endswith(('(float)', '(float64)', '(complex)', '(complex128)')):
        return 'int64-beyond-2**53-promoted-to-float'
    return None


SUBS = [
    Sub('merge', cases(), check, quick=16000, thorough=160000, tag=tag,
        rule='provenance of every output cell of a merging operation over a kind pair'),
    Sub('iterables', iter_cases(), check_iter, quick=10000, thorough=64000, tag=tag_iter,
        rule='Python iterables of ints of every magnitude / floats / complex / str / None in every order through 10 constructor routes; every stored element equals the supplied one'),
]
