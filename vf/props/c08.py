"""C08 — functional update interfaces change only what they address.

Model: the recipe's columns; expected result = copy with exactly the addressed cells replaced
(labelled values aligned by label, fill where the value lacks the label), rows/columns removed
(drop), Boolean True exactly at addressed cells (mask), only addressed dtypes / labels / names /
inserted columns changed.  The container the interface was called on must be left as it was.
"""
import numpy as np
from hypothesis import strategies as st

from vf import gen, obs
from vf.base import Discard, Failure, Raised, arr_list, canon, eq, is_missing, lib, sf, short
from vf.harness import Sub

PID = 'C08'
RULE = ('Frame/Series recipes (all layouts) x interface in {assign (iloc/loc/getitem/bloc; element, 1-D/2-D array, Series, Frame with partial or permuted labels, apply), '
        'drop, mask, masked_array, astype, relabel, rename, insert_before/after} x generated keys on one or both axes; '
        'non-trivial = the key addresses a strict non-empty subset of cells spanning >= 2 blocks or part of a block')
ASSUMPTIONS = ['unlabelled array values are generated with ascending keys only (the column order of an unsorted key is documented as irrelevant in assignment)',
               'a Series value is generated only for one-dimensional selections']

KINDS = ('bool', 'int64', 'float64', '<U3', 'object', 'M8[D]', 'int32', 'm8[D]')
NEWVAL = {'int': 77, 'float': 2.25, 'str': 'zz', 'bool': True, 'none': None, 'nan': float('nan'), 'big': 2 ** 40,
          # a duration and a date: each is of the other's "NaT kind" without being storable in its column
          'td': np.timedelta64(3, 'D'), 'dt': np.datetime64('2021-03-04')}


def _asc_key(draw, n):
    kind = draw(st.sampled_from(['int', 'slice', 'list', 'bool', 'null']))
    if n == 0:
        return slice(None)
    if kind == 'int':
        return draw(st.integers(0, n - 1))
    if kind == 'slice':
        a = draw(st.integers(0, n))
        b = draw(st.integers(a, n))
        return slice(a, b, draw(st.sampled_from([None, 1, 2])))
    if kind == 'list':
        return sorted(draw(st.lists(st.integers(0, n - 1), min_size=1, max_size=n, unique=True)))
    if kind == 'bool':
        return np.array(draw(st.lists(st.booleans(), min_size=n, max_size=n)), dtype=bool)
    return slice(None)


@st.composite
def frame_cases(draw):
    # decisive choices first (Hypothesis pins late draws to their first option for a share of its examples); sizes,
    # data and keys afterwards
    iface = draw(st.sampled_from(['assign', 'assign', 'assign', 'drop', 'mask', 'masked_array', 'astype', 'relabel', 'rename', 'insert', 'assign_bloc']))
    route = draw(st.sampled_from(['iloc', 'loc', 'getitem']))
    go = draw(st.integers(0, 3)) == 3  # a grow-only source one time in four
    ch = {'vk': draw(st.sampled_from(['element', 'element', 'array', 'series', 'frame', 'frame', 'apply'])),
          'el': draw(st.sampled_from(sorted(NEWVAL))), 'vdt': draw(st.sampled_from(['int64', 'float64', '<U2', 'bool', 'object'])),
          'fill': draw(st.sampled_from([None, 'default', -1, 'ff'])), 'keep': draw(st.integers(0, 2 ** 12)),
          'dt': draw(st.sampled_from(['int64', 'float64', 'object', 'bool', '<U8', 'float32', 'complex128'])),
          'aform': draw(st.sampled_from(['std', 'map', 'std', 'seq'])), 'dspec': draw(st.sampled_from(['str', 'npdtype', 'type'])),
          'how': draw(st.sampled_from(['func', 'dict', 'list', 'auto'])), 'axis': draw(st.sampled_from(['index', 'columns', 'both'])),
          'name': draw(st.sampled_from(['nn', None, ('a', 1), 0])), 'iname': draw(st.sampled_from(['__skip__', 'in', None])),
          'after': draw(st.booleans()), 'ivk': draw(st.sampled_from(['series', 'frame'])),
          'bv': draw(st.sampled_from(['element', 'array', 'frame', 'frame', 'series'])),
          'vdts': draw(st.lists(st.sampled_from(['int64', 'float64', 'bool', '<U2', 'object']), min_size=1, max_size=4)),
          'series_axis': draw(st.booleans())}
    # rows labelled by a (named) hierarchy where only the columns are addressed: column drops through getitem, astype, rename
    hier_rows = iface in ('drop', 'astype', 'rename') and route == 'getitem' and draw(st.booleans())
    rec = draw(gen.frame_recipe(min_rows=1, max_rows=5, min_cols=1, max_cols=6, kinds=KINDS,
                                index_kinds=('ih',) if hier_rows else ('auto', 'int', 'str', 'date'), column_kinds=('auto', 'int', 'str')))
    n, m = len(rec['index']['labels']), len(rec['columns']['labels'])
    case = {'rec': rec, 'iface': iface, 'route': route, 'go': go}
    if iface == 'assign':
        vk = ch['vk']
        case['vk'] = vk
        if vk in ('array',):
            case['rk'], case['ck'] = _asc_key(draw, n), _asc_key(draw, m)
        elif vk == 'frame':
            # a Frame value needs a two-dimensional selection
            case['rk'], case['ck'] = draw(gen.iloc_key(n, allow_scalar=False)), draw(gen.iloc_key(m, allow_scalar=False))
        elif vk == 'series':
            # a Series value needs a one-dimensional selection: exactly one scalar key
            if ch['series_axis']:
                case['rk'], case['ck'] = draw(st.integers(-n, n - 1)), draw(gen.iloc_key(m, allow_scalar=False))
            else:
                case['rk'], case['ck'] = draw(gen.iloc_key(n, allow_scalar=False)), draw(st.integers(-m, m - 1))
        else:
            case['rk'], case['ck'] = draw(gen.iloc_key(n)), draw(gen.iloc_key(m))
        case['el'], case['vdt'], case['keep'], case['fill'] = ch['el'], ch['vdt'], ch['keep'], ch['fill']
    elif iface in ('drop', 'mask', 'masked_array'):
        case['rk'], case['ck'] = draw(st.one_of(st.none(), gen.iloc_key(n))), draw(st.one_of(st.none(), gen.iloc_key(m)))
    elif iface == 'astype':
        case['ck'] = draw(st.one_of(st.none(), gen.iloc_key(m)))
        case['dt'], case['aform'], case['dspec'] = ch['dt'], ch['aform'], ch['dspec']
        # one time in three (when the layout allows it): the first and the last column of a wide block that already has the
        # requested dtype, together with every column of the blocks after it
        start = 0
        for b in rec['blocks']:
            w = 1 if b.ndim == 1 else b.shape[1]
            if b.ndim == 2 and w >= 3 and start + w < m and str(b.dtype) in ('int64', 'float64', 'bool', 'object', 'float32', 'complex128'):
                if draw(st.integers(0, 2)) == 2:
                    case['ck'], case['dt'], case['aform'] = [start, start + w - 1] + list(range(start + w, m)), str(b.dtype), 'std'
                break
            start += w
    elif iface == 'relabel':
        case['how'], case['axis'], case['keep'] = ch['how'], ch['axis'], ch['keep']
    elif iface == 'rename':
        case['name'], case['iname'] = ch['name'], ch['iname']
    elif iface == 'insert':
        case['pos'] = draw(st.integers(0, m - 1))
        case['after'], case['vk'], case['vdt'], case['keep'] = ch['after'], ch['ivk'], ch['vdt'], ch['keep']
        case['fill'] = ch['fill'] if ch['fill'] is not None else 'default'
    else:
        case['mask'] = np.array(draw(st.lists(st.booleans(), min_size=n * m, max_size=n * m)), dtype=bool).reshape(n, m)
        case['el'], case['bv'], case['vdts'], case['keep'] = ch['el'], ch['bv'], ch['vdts'], ch['keep']
    return case


def _vals(k, dt, seed=0):
    if dt == '<U2':
        return [('k%d' % ((seed + i) % 10)) for i in range(k)]
    if dt == 'bool':
        return [((seed + i) % 2) == 0 for i in range(k)]
    if dt == 'object':
        return [[None, 'x', 3, 2.5][(seed + i) % 4] for i in range(k)]
    if dt == 'float64':
        return [float(i + seed) + 0.5 for i in range(k)]
    return [i + seed + 100 for i in range(k)]


def _arr(vals, dt):
    return gen.to_array(dt if dt != 'object' else 'object', vals)


def _key_for_route(route, axis_labels, key, pos, scalar):
    """Translate a positional key into the route's key space."""
    if route == 'iloc':
        return key
    if scalar:
        return axis_labels[pos[0]]
    if isinstance(key, slice) and key == slice(None):
        return key
    if isinstance(key, np.ndarray) and key.dtype == bool:
        return key
    return [axis_labels[p] for p in pos]


def check_frame(case):
    rec = case['rec']
    f = gen.build_frame(rec, sf.FrameGO if case.get('go') else None)
    snap0 = obs.snap(f)
    cols = gen.block_columns(rec['blocks'])
    model = [arr_list(c) for c in cols]
    il, cl = [canon(x) for x in rec['index']['labels']], [canon(x) for x in rec['columns']['labels']]
    ilr, clr = list(f.index), list(f.columns)
    n, m = len(il), len(cl)
    iface = case['iface']
    route = case['route']
    classes = ['iface:' + iface, 'route:' + route]
    exp_cols = [list(c) for c in model]
    exp_il, exp_cl = list(il), list(cl)
    exp_dt = [c.dtype for c in cols]
    untouched = set(range(m))
    addressed_cells = 0
    name_expect = rec.get('name')

    def sel(rk, ck):
        rp, rs = (list(range(n)), False) if rk is None else gen.positions_of(rk, n)
        cp, cs = (list(range(m)), False) if ck is None else gen.positions_of(ck, m)
        return rp, rs, cp, cs

    if iface == 'assign':
        rp, rs, cp, cs = sel(case['rk'], case['ck'])
        if route == 'getitem':
            rp, rs = list(range(n)), False
        vk = case['vk']
        if not rp or not cp:
            raise Discard('empty selection')
        rkey = _key_for_route(route, ilr, case['rk'], rp, rs)
        ckey = _key_for_route(route, clr, case['ck'], cp, cs)
        if route == 'getitem':
            target = f.assign[ckey]
        elif route == 'loc':
            target = f.assign.loc[rkey, ckey]
        else:
            target = f.assign.iloc[rkey, ckey]
        fill_kw = {} if case['fill'] == 'default' else {'fill_value': case['fill']}
        fillv = float('nan') if case['fill'] == 'default' else case['fill']
        if vk == 'element':
            v = NEWVAL[case['el']]
            for j in cp:
                for i in rp:
                    exp_cols[j][i] = v
            r = lib(lambda: target(v))
        elif vk == 'array':
            if rs and cs:
                raise Discard('array value for an element selection')
            if rs or cs:
                k = len(cp) if rs else len(rp)
                vals = _vals(k, case['vdt'], 3)
                a = _arr(vals, case['vdt'])
                q = 0
                for j in cp:
                    for i in rp:
                        exp_cols[j][i] = arr_list(a)[q]
                        q += 1
            else:
                vals = _vals(len(rp) * len(cp), case['vdt'], 3)
                a = _arr(vals, case['vdt']).reshape(len(rp), len(cp))
                for qi, i in enumerate(rp):
                    for qj, j in enumerate(cp):
                        exp_cols[j][i] = arr_list(a[qi])[qj]
            r = lib(lambda: target(a))
        elif vk == 'series':
            if rs == cs:
                raise Discard('series value needs a one-dimensional selection')
            axis_labels, apos = (clr, cp) if rs else (ilr, rp)
            if rec['index' if cs else 'columns']['kind'] == 'date':
                pass
            keep = [p for q, p in enumerate(apos) if (case['keep'] >> q) & 1][::-1]
            vals = _vals(len(keep), case['vdt'], 5)
            vlabels = [axis_labels[p] for p in keep] + (['__absent__'] if not isinstance(axis_labels[0] if axis_labels else 0, (np.datetime64,)) and rec['index' if cs else 'columns']['kind'] in ('str',) else [])
            vals_full = vals + ([_vals(1, case['vdt'], 9)[0]] if len(vlabels) > len(keep) else [])
            ix = sf.IndexDate(vlabels) if (vlabels and isinstance(vlabels[0], np.datetime64)) else sf.Index(vlabels)
            val = sf.Series(_arr(vals_full, case['vdt']), index=ix)
            got = dict(zip(keep, arr_list(_arr(vals_full, case['vdt']))))
            for j in cp:
                for i in rp:
                    p = j if rs else i
                    exp_cols[j][i] = got.get(p, fillv)
            r = lib(lambda: target(val, **fill_kw))
        elif vk == 'frame':
            if rs or cs:
                raise Discard('frame value needs a two-dimensional selection')
            keep_r = [p for q, p in enumerate(rp) if (case['keep'] >> q) & 1][::-1] or list(rp)
            keep_c = [p for q, p in enumerate(cp) if (case['keep'] >> (q + 6)) & 1] or list(cp)
            data = {}
            items = []
            vdts = ['int64', 'float64', 'bool', '<U2', 'object']
            for qj, j in enumerate(keep_c):
                # the value's columns differ in dtype (several value blocks may feed one target block)
                if case.get('vdts'):
                    vdt = case['vdts'][qj % len(case['vdts'])]
                else:
                    vdt = case['vdt'] if (case['keep'] >> 11) & 1 else vdts[(vdts.index(case['vdt']) + qj) % len(vdts)]
                vals = _vals(len(keep_r), vdt, qj)
                arr = _arr(vals, vdt)
                items.append((clr[j], arr))
                for qi, i in enumerate(keep_r):
                    data[(i, j)] = arr_list(arr)[qi]
            rix = [ilr[p] for p in keep_r]
            val = sf.Frame.from_items(items, index=sf.IndexDate(rix) if isinstance(rix[0], np.datetime64) else rix)
            for j in cp:
                for i in rp:
                    exp_cols[j][i] = data.get((i, j), fillv)
            r = lib(lambda: target(val, **fill_kw))
        else:
            for j in cp:
                for i in rp:
                    exp_cols[j][i] = is_missing(model[j][i])
            r = lib(lambda: target.apply(lambda x: x.isna() if hasattr(x, 'isna') else (x is None or x != x)))
        for j in cp:
            untouched.discard(j)
            exp_dt[j] = None
        addressed_cells = len(rp) * len(cp)
        classes.append('value:' + vk)
    elif iface == 'assign_bloc':
        mask = case['mask']
        bv = case.get('bv', 'element')
        addressed_cells = int(mask.sum())
        if not addressed_cells:
            raise Discard('empty mask')
        data = None
        if bv == 'element':
            v = NEWVAL[case['el']]
        elif bv == 'array':
            # an array of the container's shape: the cells under the mask are taken from it
            vdt = case['vdts'][0]
            arr = _arr(_vals(n * m, vdt, 3), vdt).reshape(n, m)
            v = arr
            data = {(i, j): arr_list(arr[:, j])[i] for i in range(n) for j in range(m)}
        elif bv == 'frame':
            # a Frame aligned by label: rows reversed, rows/columns possibly missing, per-column dtypes;
            # masked cells the value does not cover stay as they are
            keep_r = [i for i in range(n) if (case['keep'] >> i) & 1][::-1] or list(range(n))[::-1]
            keep_c = [j for j in range(m) if (case['keep'] >> (j + 6)) & 1] or list(range(m))
            if (case['keep'] >> 5) & 1:
                keep_c = keep_c[::-1]
            data = {}
            items = []
            for qj, j in enumerate(keep_c):
                vdt = case['vdts'][qj % len(case['vdts'])]
                arr = _arr(_vals(len(keep_r), vdt, qj), vdt)
                items.append((clr[j], arr))
                for qi, i in enumerate(keep_r):
                    data[(i, j)] = arr_list(arr)[qi]
            rix = [ilr[p] for p in keep_r]
            v = sf.Frame.from_items(items, index=sf.IndexDate(rix) if isinstance(rix[0], np.datetime64) else rix)
        else:
            # a Series keyed by (row label, column label), as a bloc selection returns it, in scrambled order
            coords = [(i, j) for i in range(n) for j in range(m) if mask[i, j]]
            coords = coords[::-1] if (case['keep'] & 1) else coords[1:] + coords[:1]
            vdt = case['vdts'][0]
            arr = _arr(_vals(len(coords), vdt, 7), vdt)
            data = dict(zip(coords, arr_list(arr)))
            if any(isinstance(x, tuple) for x in ilr) or any(isinstance(x, tuple) for x in clr):
                raise Discard('tuple labels inside coordinate tuples')
            ixl = [(ilr[i], clr[j]) for (i, j) in coords]
            v = sf.Series(arr, index=sf.Index(ixl) if len(ixl) else None)
        for j in range(m):
            hit = False
            for i in range(n):
                if mask[i, j]:
                    if data is None:
                        exp_cols[j][i] = v
                        hit = True
                    elif (i, j) in data:
                        exp_cols[j][i] = data[(i, j)]
                        hit = True
            if mask[:, j].any():
                untouched.discard(j)
                exp_dt[j] = None
        classes.append('bloc-value:' + bv)
        # the key is the caller's own writeable array: the interface may not change it, and applying the same delegate a second
        # time addresses the same cells
        mask_w = np.array(mask, dtype=bool)
        key = mask_w if route != 'loc' else sf.Frame(mask, index=f.index, columns=f.columns)
        delegate = f.assign.bloc[key]
        r = lib(lambda: delegate(v))
        if not isinstance(r, Raised):
            if not np.array_equal(mask_w, mask):
                raise Failure('key-mutated', 'assign.bloc[key](%s value) changed the Boolean key array it was given: %s -> %s' % (bv, mask.tolist(), mask_w.tolist()))
            r_again = lib(lambda: delegate(v))
            if isinstance(r_again, Raised) or obs.snap(r_again) != obs.snap(r):
                raise Failure('key-mutated', 'assign.bloc[key](%s value) applied twice gives two results: %s then %s' % (bv, short(obs.snap(r), 200), short(r_again if isinstance(r_again, Raised) else obs.snap(r_again), 200)))
    elif iface in ('drop', 'mask', 'masked_array'):
        rp, rs, cp, cs = sel(case['rk'], case['ck'])
        if route == 'getitem':
            rp, rs = list(range(n)), False
            case_rk = None
        else:
            case_rk = case['rk']
        rkey = slice(None) if case_rk is None else _key_for_route(route, ilr, case_rk, rp, rs)
        ckey = slice(None) if case['ck'] is None else _key_for_route(route, clr, case['ck'], cp, cs)
        node = getattr(f, iface)
        if iface == 'drop':
            # a key that is given addresses what is dropped; an axis without a key is not addressed
            if case_rk is None and case['ck'] is None:
                raise Discard('drop without a key')
            if case_rk is None:
                gkey = _key_for_route('loc', clr, case['ck'], cp, cs)
                call = lambda: node[gkey]
            elif case['ck'] is None:
                call = (lambda: node.loc[rkey]) if route == 'loc' else (lambda: node.iloc[_key_for_route('iloc', ilr, case_rk, rp, rs)])
            else:
                call = (lambda: node.loc[rkey, ckey]) if route == 'loc' else (lambda: node.iloc[case_rk, case['ck']])
        elif route == 'getitem':
            call = lambda: node[ckey]
        elif route == 'loc':
            call = lambda: node.loc[rkey, ckey]
        else:
            call = lambda: node.iloc[rkey, ckey]
        addressed_cells = len(rp) * len(cp)
        if iface == 'drop':
            drop_r = set(rp) if case_rk is not None else set()
            drop_c = set(cp) if case['ck'] is not None else set()
            keep_r = [i for i in range(n) if i not in drop_r]
            keep_c = [j for j in range(m) if j not in drop_c]
            exp_il = [il[i] for i in keep_r]
            exp_cl = [cl[j] for j in keep_c]
            exp_cols = [[model[j][i] for i in keep_r] for j in keep_c]
            exp_dt = [cols[j].dtype for j in keep_c]
            addressed_cells = (len(drop_r) or 0) + (len(drop_c) or 0)
            r = lib(call)
            if not keep_r or not keep_c:
                # an axis dropped completely: shape (0, k) / (k, 0); still compare labels
                pass
        else:
            exp_cols = [[(i in set(rp) and j in set(cp)) for i in range(n)] for j in range(m)]
            exp_dt = [np.dtype(bool)] * m
            r = lib(call)
            if iface == 'masked_array' and not isinstance(r, Raised):
                ma = r
                if not isinstance(ma, np.ma.MaskedArray) or ma.shape != (n, m):
                    raise Failure('kind', 'masked_array returned %s' % short(ma))
                for j in range(m):
                    for i in range(n):
                        if bool(ma.mask[i, j]) != exp_cols[j][i]:
                            raise Failure('mask', 'masked_array mask[%d,%d]=%s expected %s' % (i, j, ma.mask[i, j], exp_cols[j][i]))
                        if not (eq(ma.data[i, j], model[j][i]) or (is_missing(ma.data[i, j]) and is_missing(model[j][i]))):
                            raise Failure('value', 'masked_array data[%d,%d]=%r expected %r' % (i, j, ma.data[i, j], model[j][i]))
                if obs.snap(f) != snap0:
                    raise Failure('mutated', 'masked_array changed its source')
                return {'nt': 0 < addressed_cells < n * m, 'cls': classes}
    elif iface == 'astype':
        cp = list(range(m)) if case['ck'] is None else gen.positions_of(case['ck'], m)[0]
        if not cp:
            raise Discard('empty selection')
        aform = case.get('aform', 'std')
        if aform == 'map' and rec['columns']['kind'] == 'ih':
            aform = 'std'
        rot = ['float64', 'int64', 'float32', 'object', 'complex128', 'bool', '<U8']
        base = rot.index(case['dt'])
        # the mapping / sequence forms give every addressed column a dtype of its own
        col_dt = {j: (rot[(base + q) % len(rot)] if aform in ('map', 'seq') else case['dt']) for q, j in enumerate(sorted(set(cp)))}
        for j in cp:
            try:
                with np.errstate(all='ignore'):
                    conv = cols[j].astype(col_dt[j])
            except Exception:  # noqa: BLE001
                raise Discard('NumPy cannot convert the column')
            exp_cols[j] = arr_list(conv)
            exp_dt[j] = conv.dtype
            untouched.discard(j)
        addressed_cells = len(cp) * n
        # the dtype is given as a string, as a np.dtype object or as a Python / NumPy type
        def _spec(dt):
            if case.get('dspec') == 'npdtype':
                return np.dtype(dt)
            if case.get('dspec') == 'type':
                return {'int64': int, 'float64': float, 'object': object, 'bool': bool, 'float32': np.float32, 'complex128': complex}.get(dt, dt)
            return dt
        spec = _spec(case['dt'])
        classes.append('astype:%s/%s' % (aform, case.get('dspec', 'str')))
        if aform == 'map':
            # the call form with a mapping label -> dtype (only the listed columns change)
            r = lib(lambda: f.astype({clr[j]: _spec(col_dt[j]) for j in cp}))
        elif aform == 'seq':
            # the call form with one specifier per column, None for the columns left alone
            r = lib(lambda: f.astype([_spec(col_dt[j]) if j in col_dt else None for j in range(m)]))
        elif case['ck'] is None:
            r = lib(lambda: f.astype(spec))
        else:
            ckey = _key_for_route('iloc' if route == 'iloc' else 'loc', clr, case['ck'], cp, isinstance(case['ck'], (int, np.integer)))
            r = lib(lambda: f.astype[sf.ILoc[case['ck']] if route == 'iloc' else ckey](spec))
    elif iface == 'relabel':
        def mapped(labels, real):
            if case['how'] == 'func':
                return [('r', x) if not isinstance(x, tuple) else ('r',) + x for x in labels], (lambda x: ('r', x) if not isinstance(x, tuple) else ('r',) + x)
            if case['how'] == 'dict':
                d = {real[q]: 'm%d' % q for q in range(len(real)) if (case['keep'] >> q) & 1}
                return [('m%d' % q) if (case['keep'] >> q) & 1 else labels[q] for q in range(len(labels))], d
            if case['how'] == 'list':
                return ['L%d' % q for q in range(len(labels))], ['L%d' % q for q in range(len(labels))]
            return list(range(len(labels))), sf.IndexAutoFactory
        kw = {}
        if case['axis'] in ('index', 'both'):
            exp_il, kw['index'] = mapped(il, ilr)
        if case['axis'] in ('columns', 'both'):
            exp_cl, kw['columns'] = mapped(cl, clr)
        if any(isinstance(x, np.datetime64) for x in (il + cl)) and case['how'] in ('func', 'dict'):
            raise Discard('date labels through func/dict relabel')
        r = lib(lambda: f.relabel(**kw))
        addressed_cells = 1
    elif iface == 'rename':
        name_expect = case['name']
        kw = {}
        if case['iname'] != '__skip__':
            kw['index'] = case['iname']
        # (the columns name is set in half of the cases, the container name left alone in a quarter)
        cname = ('cn', 2) if (n + m) % 2 else '__skip__'
        if cname != '__skip__':
            kw['columns'] = cname
        if (n * 3 + m) % 4 == 0 and kw:
            name_expect = rec.get('name')
            r = lib(lambda: f.rename(**kw))
        else:
            r = lib(lambda: f.rename(case['name'], **kw))
        addressed_cells = 1
    elif iface == 'insert':
        p = case['pos']
        keep_r = [q for q in range(n) if (case['keep'] >> q) & 1][::-1]
        fill_kw = {} if case['fill'] == 'default' else {'fill_value': case['fill']}
        fillv = float('nan') if case['fill'] == 'default' else case['fill']
        new_cols, new_labels = [], []
        k = 1 if case['vk'] == 'series' else 2
        items = []
        for q in range(k):
            vals = _vals(len(keep_r), case['vdt'], q)
            arr = _arr(vals, case['vdt'])
            col = [fillv] * n
            for qi, i in enumerate(keep_r):
                col[i] = arr_list(arr)[qi]
            new_cols.append(col)
            new_labels.append('__ins%d__' % q if rec['columns']['kind'] == 'str' else 9000 + q)
            items.append((new_labels[-1], arr))
        rix = [ilr[i] for i in keep_r]
        if not rix:
            raise Discard('empty insert value')
        vix = sf.IndexDate(rix) if isinstance(rix[0], np.datetime64) else sf.Index(rix)
        if case['vk'] == 'series':
            val = sf.Series(items[0][1], index=vix, name=new_labels[0])
        else:
            val = sf.Frame.from_items(items, index=vix)
        at = p + 1 if case['after'] else p
        exp_cl = cl[:at] + [canon(x) for x in new_labels] + cl[at:]
        exp_cols = exp_cols[:at] + new_cols + exp_cols[at:]
        exp_dt = exp_dt[:at] + [None] * k + exp_dt[at:]
        # positional keys also in their negative form (counted from the end)
        key = clr[p] if route != 'iloc' else (sf.ILoc[p] if case['keep'] % 2 else sf.ILoc[p - m])
        r = lib(lambda: (f.insert_after if case['after'] else f.insert_before)(key, val, **fill_kw))
        addressed_cells = k * n
        untouched = set()
    else:
        raise AssertionError(iface)

    if isinstance(r, Raised):
        raise Failure('raised:%s' % r.cls, '%s via %s raised %r' % (iface, route, r.exc), r.where)
    if obs.snap(f) != snap0:
        raise Failure('mutated', '%s changed the container it was called on' % iface)
    if r is f and iface not in ('rename', 'relabel', 'drop', 'astype') and addressed_cells:
        pass
    obs.LOOSE_MISSING[0] = True
    # (the name of a mask result is a listed finding: it is judged last, so that labels, values and dtypes are still checked)
    obs.expect_frame(r, exp_il, exp_cl, exp_cols, iface, dtypes=None, name='__skip__' if iface == 'mask' else name_expect)
    got_cols = obs.frame_cols(r)
    if iface not in ('insert',):
        for j, dt in enumerate(exp_dt):
            if dt is not None and got_cols[j].dtype != dt:
                # str width may widen when a block is rebuilt; kind must hold
                if dt.kind in 'US' and got_cols[j].dtype.kind == dt.kind:
                    continue
                raise Failure('untouched-dtype' if iface in ('assign', 'assign_bloc') else 'dtype',
                              '%s: column %d dtype %s expected %s' % (iface, j, got_cols[j].dtype, dt))
    else:
        for j, dt in enumerate(exp_dt):
            if dt is not None and got_cols[j].dtype != dt:
                raise Failure('untouched-dtype', 'insert: column %d dtype %s expected %s' % (j, got_cols[j].dtype, dt))
    if iface in ('assign', 'assign_bloc', 'drop', 'mask', 'astype', 'insert') and isinstance(r, sf.Frame):
        # the names of the two axes are not addressed by these interfaces
        for axn, a, b in (('index', f.index, r.index), ('columns', f.columns, r.columns)):
            if obs.canon_name(a.name) != obs.canon_name(b.name):
                raise Failure('axis-name', '%s: the %s name %r became %r' % (iface, axn, a.name, b.name))
    if iface == 'rename' and case['iname'] != '__skip__':
        if not eq(obs.canon_name(r.index.name), canon(case['iname'])):
            raise Failure('name', 'rename(index=%r): index name %r' % (case['iname'], r.index.name))
    if iface == 'rename':
        want_cn = obs.canon_name(f.columns.name) if cname == '__skip__' else canon(cname)
        if not eq(obs.canon_name(r.columns.name), want_cn):
            raise Failure('name', 'rename(%s): columns name %r expected %r' % (sorted(kw), r.columns.name, want_cn))
        if case['iname'] == '__skip__' and obs.canon_name(r.index.name) != obs.canon_name(f.index.name):
            raise Failure('name', 'rename(%s): index name %r became %r' % (sorted(kw), f.index.name, r.index.name))
    if iface == 'mask' and not eq(obs.canon_name(r.name), canon(name_expect)):
        raise Failure('name', '%s: expected name %r got %r' % (iface, name_expect, r.name))
    if case.get('go') and isinstance(r, sf.FrameGO) and r is not f and r.columns.depth == 1:
        # the source was grow-only: the result must not share growable state with it (neither direction)
        fresh = ['__g1__', '__g2__'] if rec['columns']['kind'] == 'str' else [90001, 90002]
        if not any(eq(canon(x), fresh[0]) or eq(canon(x), fresh[1]) for x in list(r.columns) + list(f.columns)):
            g1 = lib(r.__setitem__, fresh[0], 0)
            if isinstance(g1, Raised):
                raise Failure('raised:%s' % g1.cls, 'growing the result of %s raised %r' % (iface, g1.exc), g1.where)
            sf_after = lib(obs.snap, f)
            if isinstance(sf_after, Raised) or sf_after != snap0:
                raise Failure('mutated', 'growing the result of %s changed the container it was called on: columns %s' % (iface, short(list(f.columns))))
            rs = obs.snap(r)
            g2 = lib(f.__setitem__, fresh[1], 1)
            if isinstance(g2, Raised):
                raise Failure('raised:%s' % g2.cls, 'growing the source after %s raised %r' % (iface, g2.exc), g2.where)
            rs2 = lib(obs.snap, r)
            if isinstance(rs2, Raised) or rs2 != rs:
                raise Failure('mutated', 'growing the source after %s changed the result: columns %s' % (iface, short(list(r.columns))))
            classes.append('go-growth-checked')
    bounds = gen.block_bounds(rec['blocks'])
    nt = 0 < addressed_cells < max(n * m, 2) and (len(rec['blocks']) >= 2 or any(b.ndim == 2 and b.shape[1] >= 2 for b in rec['blocks']))
    return {'nt': bool(nt), 'cls': classes}


@st.composite
def frame_value_cases(draw):
    """Frame-valued assignment into frames with wide 2-D blocks, the value's columns of independently drawn dtypes."""
    rec = draw(gen.frame_recipe(min_rows=2, max_rows=5, min_cols=2, max_cols=6, kinds=('int64', 'float64', 'bool', '<U3', 'int32'),
                                index_kinds=('auto', 'int', 'str'), column_kinds=('auto', 'int', 'str')))
    n, m = len(rec['index']['labels']), len(rec['columns']['labels'])
    return {'rec': rec, 'iface': 'assign', 'route': draw(st.sampled_from(['iloc', 'loc'])), 'vk': 'frame',
            'rk': draw(gen.iloc_key(n, allow_scalar=False)), 'ck': draw(gen.iloc_key(m, allow_scalar=False)),
            'el': 'int', 'vdt': 'int64', 'vdts': draw(st.lists(st.sampled_from(['int64', 'float64', 'bool', '<U2', 'object']), min_size=1, max_size=4)),
            'keep': draw(st.integers(0, 2 ** 12)), 'fill': draw(st.sampled_from(['default', -1, 'ff', None]))}


# ---------------------------------------------------------------------------------------------
# Series

@st.composite
def series_cases(draw):
    iface = draw(st.sampled_from(['assign', 'insert', 'assign', 'drop', 'mask', 'astype', 'relabel', 'rename']))  # decisive choice first
    rec = draw(gen.series_recipe(min_size=1, max_size=7, kinds=KINDS, index_kinds=('auto', 'int', 'str', 'date', 'ih') if iface != 'insert' else ('int', 'str', 'int', 'str', 'date')))
    n = len(rec['index']['labels'])
    case = {'rec': rec, 'iface': iface, 'route': draw(st.sampled_from(['iloc', 'loc'])), 'k': draw(gen.iloc_key(n)),
            'vk': draw(st.sampled_from(['element', 'array', 'series', 'apply'])), 'el': draw(st.sampled_from(sorted(NEWVAL))),
            'vdt': draw(st.sampled_from(['int64', 'float64', '<U2', 'bool', 'object'])), 'keep': draw(st.integers(0, 2 ** 8)),
            'dt': draw(st.sampled_from(['int64', 'float64', 'object', 'bool', '<U8'])), 'name': draw(st.sampled_from(['nn', None, ('a', 1)])),
            'fill': draw(st.sampled_from(['default', -1, 'ff']))}
    if case['vk'] == 'array' and iface == 'assign':
        case['k'] = _asc_key(draw, n)
    return case


def check_series(case):
    rec = case['rec']
    s = gen.build_series(rec)
    snap0 = obs.snap(s)
    vals = arr_list(rec['values'])
    il = [canon(x) for x in rec['index']['labels']]
    ilr = list(s.index)
    n = len(il)
    iface, route = case['iface'], case['route']
    p, sc = gen.positions_of(case['k'], n)
    if rec['index']['kind'] == 'ih':
        key = sf.ILoc[case['k']] if route == 'loc' else case['k']
    else:
        key = _key_for_route(route, ilr, case['k'], p, sc)
    node = lambda nm: (getattr(s, nm).loc if route == 'loc' else getattr(s, nm).iloc)
    exp_vals, exp_il, exp_name, exp_dt = list(vals), list(il), rec.get('name'), rec['values'].dtype
    classes = ['s-iface:' + iface, 's-route:' + route]
    if iface == 'assign':
        if not p:
            raise Discard('empty selection')
        vk = case['vk']
        exp_dt = None
        fill_kw = {} if case['fill'] == 'default' else {'fill_value': case['fill']}
        fillv = float('nan') if case['fill'] == 'default' else case['fill']
        if vk == 'element' or sc:
            v = NEWVAL[case['el']]
            for i in p:
                exp_vals[i] = v
            r = lib(lambda: node('assign')[key](v))
        elif vk == 'array':
            a = _arr(_vals(len(p), case['vdt'], 2), case['vdt'])
            for q, i in enumerate(p):
                exp_vals[i] = arr_list(a)[q]
            r = lib(lambda: node('assign')[key](a))
        elif vk == 'series':
            if rec['index']['kind'] == 'ih':
                raise Discard('series value over hierarchical index')
            keep = [i for q, i in enumerate(p) if (case['keep'] >> q) & 1][::-1]
            a = _arr(_vals(len(keep), case['vdt'], 4), case['vdt'])
            rix = [ilr[i] for i in keep]
            val = sf.Series(a, index=sf.IndexDate(rix) if (rix and isinstance(rix[0], np.datetime64)) else sf.Index(rix))
            got = dict(zip(keep, arr_list(a)))
            for i in p:
                exp_vals[i] = got.get(i, fillv)
            r = lib(lambda: node('assign')[key](val, **fill_kw))
        else:
            if rec['index']['kind'] == 'ih' and not gen.is_tree_order([rec['index']['labels'][i] for i in p]):
                raise Discard('ih-selection-order-not-a-tree')
            for i in p:
                exp_vals[i] = is_missing(vals[i])
            r = lib(lambda: node('assign')[key].apply(lambda x: x.isna() if hasattr(x, 'isna') else (x is None or x != x)))
        classes.append('s-value:' + vk)
    elif iface == 'drop':
        keep = [i for i in range(n) if i not in set(p)]
        if rec['index']['kind'] == 'ih' and not keep:
            raise Discard('empty hierarchical index')
        exp_vals, exp_il = [vals[i] for i in keep], [il[i] for i in keep]
        r = lib(lambda: node('drop')[key])
    elif iface == 'mask':
        exp_vals, exp_dt = [i in set(p) for i in range(n)], np.dtype(bool)
        r = lib(lambda: node('mask')[key])
    elif iface == 'astype':
        try:
            with np.errstate(all='ignore'):
                conv = rec['values'].astype(case['dt'])
        except Exception:  # noqa: BLE001
            raise Discard('NumPy cannot convert')
        exp_vals, exp_dt = arr_list(conv), conv.dtype
        r = lib(lambda: s.astype(case['dt']))
    elif iface == 'relabel':
        if rec['index']['kind'] in ('ih', 'date'):
            exp_il = list(range(n))
            r = lib(lambda: s.relabel(sf.IndexAutoFactory))
        else:
            d = {ilr[q]: 'm%d' % q for q in range(n) if (case['keep'] >> q) & 1}
            exp_il = [('m%d' % q) if (case['keep'] >> q) & 1 else il[q] for q in range(n)]
            r = lib(lambda: s.relabel(d))
    elif iface == 'insert':
        # a Series inserted before / after a label or a position (also in its negative form)
        pos = (case['keep'] >> 2) % n
        after = bool(case['keep'] & 1)
        neg = bool(case['keep'] & 2)
        strs = rec['index']['kind'] == 'str'
        new_labels = ['__i0__', '__i1__'] if strs else [90001, 90002]
        if rec['index']['kind'] == 'date':  # a date-typed index keeps its class and takes date labels
            new_labels = [np.datetime64('2199-01-01'), np.datetime64('2199-01-02')]
        if any(eq(canon(x), canon(y)) for x in new_labels for y in il):
            raise Discard('label collision')
        ins = sf.Series(_arr(_vals(2, case['vdt'], 4), case['vdt']), index=sf.IndexDate(new_labels) if rec['index']['kind'] == 'date' else new_labels)
        ikey = ilr[pos] if route == 'loc' else sf.ILoc[pos - n if neg else pos]
        at = pos + 1 if after else pos
        exp_il = il[:at] + [canon(x) for x in new_labels] + il[at:]
        exp_vals = vals[:at] + arr_list(ins.values) + vals[at:]
        exp_dt = None
        p = [pos]
        r = lib(lambda: (s.insert_after if after else s.insert_before)(ikey, ins))
        classes.append('insert:%s%s' % ('after' if after else 'before', ':negative' if (neg and route != 'loc') else ''))
    else:
        exp_name = case['name']
        r = lib(lambda: s.rename(case['name']))
    if isinstance(r, Raised):
        raise Failure('raised:%s' % r.cls, 'Series %s via %s raised %r' % (iface, route, r.exc), r.where)
    if obs.snap(s) != snap0:
        raise Failure('mutated', 'Series %s changed the container it was called on' % iface)
    obs.LOOSE_MISSING[0] = True
    obs.expect_series(r, exp_il, exp_vals, 'Series.' + iface, name=exp_name)
    if iface == 'insert' and type(r.index) is not type(s.index):
        raise Failure('index-class', 'Series.insert: index class %s became %s' % (type(s.index).__name__, type(r.index).__name__))
    if exp_dt is not None and r.values.dtype != exp_dt and not (exp_dt.kind in 'US' and r.values.dtype.kind == exp_dt.kind):
        raise Failure('dtype', 'Series.%s: dtype %s expected %s' % (iface, r.values.dtype, exp_dt))
    if iface in ('assign', 'drop', 'mask', 'astype', 'insert') and obs.canon_name(s.index.name) != obs.canon_name(r.index.name):
        raise Failure('axis-name', 'Series.%s: the index name %r became %r' % (iface, s.index.name, r.index.name))
    return {'nt': 0 < len(p) < n, 'cls': classes}


def tag(case, f):
    if f.kind == 'name' and case.get('iface') == 'mask':
        return 'mask-drops-container-name'
    if f.kind == 'raised:ErrorInitFrame' and case.get('iface') == 'drop' and 'incorrect size' in f.detail:
        return 'drop-all-columns-keeping-rows-raises'
    if f.kind == 'untouched-dtype' and case.get('iface') in ('assign', 'assign_bloc'):
        # only when the changed column shares a 2-D block with an addressed column (what the finding states)
        import re
        mm = re.search(r'column (\d+) dtype', f.detail)
        try:
            blocks = case['rec']['blocks']
            m = len(case['rec']['columns']['labels'])
            owner = []
            for bi, b in enumerate(blocks):
                owner += [bi] * (1 if b.ndim == 1 else b.shape[1])
            if case['iface'] == 'assign_bloc':
                addressed = [j for j in range(m) if case['mask'][:, j].any()]
            elif case.get('ck') is None:
                addressed = list(range(m))
            else:
                addressed = gen.positions_of(case['ck'], m)[0]
            j = int(mm.group(1))
            if blocks[owner[j]].ndim == 2 and any(owner[a] == owner[j] for a in addressed if a != j):
                return 'assign-coerces-whole-block-dtype-of-untouched-columns'
            return None
        except Exception:  # noqa: BLE001
            return 'assign-coerces-whole-block-dtype-of-untouched-columns'
    return None


SUBS = [
    Sub('frame', frame_cases(), check_frame, quick=10000, thorough=80000, tag=tag,
        rule='Frame functional updates vs cell-wise model'),
    Sub('frame_value', frame_value_cases(), check_frame, quick=3200, thorough=24000, tag=tag,
        rule='Frame values with mixed column dtypes assigned into wide 2-D blocks with row subsets'),
    Sub('series', series_cases(), check_series, quick=6000, thorough=40000, tag=tag,
        rule='Series functional updates vs list model'),
]
