"""C09 — grow-only containers: append-only, all-or-nothing, never shared.

Histories are generated as lists of step recipes and interpreted against the real containers;
the oracle is an invariant over the history: after every step each live container's deep snapshot
is either unchanged or (for the target of a successful growth) its previous snapshot plus exactly
the supplied columns/labels appended in order.  Rejected growth must leave the snapshot identical.
"""
import copy
import pickle

import numpy as np
from hypothesis import strategies as st

from vf import gen, obs
from vf.base import Discard, Failure, Raised, arr_list, canon, eq, is_missing, lib, sf, short
from vf.harness import Sub

PID = 'C09'
RULE = ('histories of <= 14 (quick) / 30 (thorough) steps over a pool of live FrameGO/IndexGO/IndexHierarchyGO containers and containers derived from them: '
        'growth (setitem, extend Frame/Series, extend_items, append, extend; valid, duplicate, partially duplicate, wrong length, unaligned index), '
        'derivations (to_frame/_go/_he, selection, relabel, rename, sort, reindex, operators, transpose, set_index, iteration, grouping, copy, deepcopy, pickle, constructors) and cache reads; '
        'non-trivial = a successful growth after a derivation, or a rejected growth followed by a read')
ASSUMPTIONS = ['growth applied directly to frame.columns (the FrameGO own label store) is not generated',
               'the deep snapshot (labels, per-column dtype, values, names) is the notion of "exactly as it was"']

KINDS = ('bool', 'int64', 'float64', '<U3', 'object', 'M8[D]', 'int8', 'float32', '<U1')
MAX_LIVE = 7

GROW = ('setitem_scalar', 'setitem_list', 'setitem_array', 'setitem_series', 'setitem_series_unaligned', 'setitem_dup', 'setitem_wrong_len',
        'setitem_2d', 'setitem_frame', 'extend_frame', 'extend_frame_unaligned', 'extend_frame_dup', 'extend_frame_partial', 'extend_series',
        'extend_series_dup', 'extend_items', 'extend_items_partial', 'extend_items_badlen', 'extend_empty')
DERIVE = ('to_frame', 'to_frame_go', 'to_frame_he', 'iloc_null', 'iloc_cols', 'iloc_rows', 'getitem_list', 'relabel', 'rename', 'sort_index',
          'sort_columns', 'reindex', 'mul', 'neg', 'transpose', 'set_index', 'iter_group', 'iter_window', 'astype', 'assign', 'drop', 'fillna',
          'shift', 'roll', 'insert', 'concat', 'ctor_frame', 'ctor_framego', 'copycopy', 'deepcopy', 'pickle', 'static_to_go', 'columns_static',
          'columns_copy', 'head', 'T_go', 'loc_all', 'unset_index', 'isna', 'clip', 'from_items', 'drop_rows_iloc', 'drop_rows_list', 'drop_rows_loc',
          'dropna', 'sort_values', 'tail', 'loc_rows', 'iloc_row_list', 'relabel_index', 'astype_col', 'assign_rows',
          'iter_element_apply', 'iter_element_items_apply', 'iter_element_map_any', 'iter_element_map_fill', 'index_to_frame_go', 'columns_to_frame_go',
          'apply_series_rows', 'via_T_add', 'isin', 'rank_like_abs', 'to_frame_go_astype', 'clip_go')
READ = ('values', 'len', 'display', 'columns_values', 'dtypes', 'iter', 'none')
# content-preserving derivations that are also taken from a frame *immediately* after it has grown, before
# anything re-reads it (observation refreshes lazily rebuilt caches and would hide stale state)
IMMEDIATE = ('to_frame', 'to_frame_go', 'to_frame_he', 'iloc_null', 'loc_all', 'rename', 'ctor_frame', 'ctor_framego', 'deepcopy',
             'pickle', 'static_to_go', 'columns_static', 'columns_copy')


@st.composite
def step(draw):
    k = draw(st.sampled_from(['grow', 'grow', 'grow', 'derive', 'derive', 'read']))
    s = {'grow': GROW, 'derive': DERIVE, 'read': READ}[k]
    return {'k': k, 's': draw(st.sampled_from(s)), 't': draw(st.integers(0, 20)), 'i': draw(st.integers(0, 50)), 'j': draw(st.integers(0, 50)),
            'dt': draw(st.sampled_from(['int64', 'float64', 'object', '<U2', 'bool', '<U1', '<U6', 'int8', 'float32']))}


def frame_cases(max_steps):
    @st.composite
    def s(draw):
        rec = draw(gen.frame_recipe(min_rows=0, max_rows=4, min_cols=0, max_cols=4, kinds=KINDS,
                                    index_kinds=('auto', 'int', 'str', 'ih'), column_kinds=('auto', 'str', 'int', 'str', 'ih')))
        return {'rec': rec, 'steps': draw(st.lists(step(), min_size=1, max_size=max_steps))}
    return s()


class Live:
    def __init__(self, obj):
        self.obj = obj
        self.snap = obs.snap(obj)


def _new_label(f, v):
    cols = f.columns
    existing = list(cols)
    if cols.depth > 1:
        if not existing:
            return None  # an empty hierarchy keeps typed levels: no label can be invented for it
        base = tuple(existing[-1][:-1])
        last = existing[-1][-1]
        import datetime as _dt
        if isinstance(last, (np.datetime64, _dt.date)):
            cand = base + (np.datetime64(19300 + v, 'D'),)
        elif isinstance(last, str):
            cand = base + ('n%d' % v,)
        else:
            cand = base + (700 + v,)
        # must go under the last parent to keep tree order
        return cand if all(not eq(canon(cand), canon(tuple(x))) for x in existing) else None
    if isinstance(cols, sf.IndexDate):
        c = np.datetime64(19300 + v, 'D')
        return c if all(not eq(c, canon(x)) for x in existing) else None
    if hasattr(cols, '_DTYPE') and not isinstance(cols, sf.IndexDate) and getattr(cols, '_DTYPE', None) is not None:
        return None  # other datetime-typed columns: no growth generated
    for c in ('n%d' % v, 700 + v):
        if all(not eq(c, canon(x)) for x in existing):
            if existing and isinstance(canon(existing[0]), int) and isinstance(c, str):
                continue
            return c
    return None


def _values_for(n, dt, seed):
    if dt == '<U2':
        return np.array(['k%d' % ((seed + i) % 10) for i in range(n)], dtype='<U2')
    if dt == 'bool':
        return np.array([((seed + i) % 2) == 0 for i in range(n)], dtype=bool)
    if dt == 'object':
        a = np.empty(n, dtype=object)
        for i in range(n):
            a[i] = [None, 'x', 3, 2.5][(seed + i) % 4]
        return a
    if dt == '<U1':
        return np.array(['abcdefghij'[(seed + i) % 10] for i in range(n)], dtype='<U1')
    if dt == '<U6':
        return np.array(['w%05d' % (seed * 7 + i) for i in range(n)], dtype='<U6')
    if dt in ('int8', 'float32'):
        return (np.arange(n) + seed % 50).astype(dt)
    if dt == 'int64':
        return (np.arange(n) + seed) * (1 if seed % 2 else 100003)  # beyond int8/int32/float32 exactness for even seeds
    if dt == 'float64':
        return (np.arange(n) + seed) + (0.0 if seed % 2 else 0.1)  # 0.1 steps are not float32 values
    return (np.arange(n) + seed).astype(dt)


def _expect_append(before, after, new_labels, new_cols, what):
    """after == before + appended columns (in order)."""
    kind, cls, name, shape, idx, cols, iname, cname, dts, vals = before
    kind2, cls2, name2, shape2, idx2, cols2, iname2, cname2, dts2, vals2 = after
    k = len(cols)
    if (kind2, cls2, name2, idx2, iname2) != (kind, cls, name, idx, iname):
        raise Failure('mutated', '%s: class/name/index changed by growth' % what)
    if len(cols2) != k + len(new_labels) or shape2 != (shape[0], k + len(new_labels)) or len(vals2) != len(cols2) or len(dts2) != len(cols2):
        raise Failure('out-of-step', '%s: %d labels, shape %s, %d column arrays after appending %d to %d' % (what, len(cols2), shape2, len(vals2), len(new_labels), k))
    if cols2[:k] != cols or dts2[:k] != dts or vals2[:k] != vals:
        raise Failure('not-append-only', '%s: pre-existing labels/dtypes/values changed: %s -> %s' % (what, short(before[5:]), short(after[5:])))
    for q, (lab, col) in enumerate(zip(new_labels, new_cols)):
        if not eq(cols2[k + q], canon(lab)):
            raise Failure('labels', '%s: appended label %r expected %r' % (what, cols2[k + q], lab))
        got = vals2[k + q]
        if len(got) != len(col) or not all(eq(g, w) or (is_missing(g) and is_missing(w)) for g, w in zip(got, col)):
            raise Failure('value', '%s: appended column %r holds %s expected %s' % (what, lab, short(got), short(col)))


def check_frames(case):
    f0 = lib(gen.build_frame, case['rec'], sf.FrameGO)
    if isinstance(f0, Raised):
        raise Discard('constructor rejected recipe')
    live = [Live(f0)]
    deferred = []
    classes = []
    grown_after_derive = False
    rejected_then_read = False
    derived_any = False
    pending_reject = False

    def verify_all(except_idx, what, grown_labels=()):
        for q, lv in enumerate(live):
            if q == except_idx:
                continue
            # what grew elsewhere is no label of any other container: neither listed (snapshot below) nor found by membership
            if not getattr(lv, 'alias', False):
                axes = [lv.obj] if isinstance(lv.obj, (sf.Index, sf.IndexHierarchy)) else ([lv.obj.index, lv.obj.columns] if isinstance(lv.obj, sf.Frame) else [lv.obj.index])
                for ax in axes:
                    held = [canon(x) for x in ax]
                    for lab in grown_labels:
                        if any(eq(canon(lab), h) for h in held):
                            continue
                        key = tuple(lab) if isinstance(lab, (tuple, list)) else lab
                        if isinstance(key, tuple) and ax.depth != len(key):
                            continue
                        member = lib(lambda: key in ax)
                        if member is True or member is np.True_:
                            raise Failure('leak', '%s: label %r added elsewhere is reported as a member of live container #%d (%s), whose labels are %s' % (
                                what, lab, q, type(lv.obj).__name__, short(held, 200)))
            s2 = lib(obs.snap, lv.obj)
            if isinstance(s2, Raised):
                raise Failure('unreadable', '%s: live container #%d became unreadable: %r' % (what, q, s2.exc), s2.where)
            if s2 != lv.snap and getattr(lv, 'alias', False):
                # known finding (copy.copy shares state): reported at the end, history continues
                deferred.append(Failure('leak', '%s: live container #%d (copy.copy alias) changed' % (what, q)))
                lv.snap = s2
                continue
            if s2 != lv.snap:
                raise Failure('leak', '%s: live container #%d (%s) changed: %s -> %s' % (what, q, type(lv.obj).__name__, short(lv.snap[5:], 400), short(s2[5:], 400)))

    def coherent(f, what):
        if isinstance(f, sf.Frame):
            m = len(f.columns)
            if f.shape[1] != m or len(obs.frame_cols(f)) != m:
                raise Failure('out-of-step', '%s: %d column labels for %d data columns' % (what, m, f.shape[1]))
            for lab in list(f.columns):
                if is_missing(lab) or (isinstance(lab, tuple) and any(is_missing(x) for x in lab)):
                    continue  # NaN labels (reachable through set_index/transpose of float data) are outside the claim
                r = lib(lambda: f[lab])
                if isinstance(r, Raised):
                    raise Failure('unreadable', '%s: column %r unreadable: %r' % (what, lab, r.exc), r.where)
            # row-wise reads of the grown container agree with its column-wise content
            cols = [arr_list(c) for c in obs.frame_cols(f)]
            n_ = f.shape[0]
            v2 = lib(lambda: f.values)
            if isinstance(v2, Raised):
                raise Failure('unreadable', '%s: .values unreadable: %r' % (what, v2.exc), v2.where)
            if v2.shape != (n_, m):
                raise Failure('out-of-step', '%s: .values shape %s for frame shape %s' % (what, v2.shape, (n_, m)))
            rows = lib(lambda: [arr_list(a) for a in f.iter_array(axis=1)]) if m else []
            if isinstance(rows, Raised):
                raise Failure('unreadable', '%s: iter_array(axis=1) unreadable: %r' % (what, rows.exc), rows.where)
            for j in range(m):
                for i in range(n_):
                    want = cols[j][i]
                    for nm, got in (('values', v2[i, j]), ('iter_array(axis=1)', rows[i][j] if rows else want)):
                        got = canon(got)
                        if not (eq(got, canon(want)) or (is_missing(got) and is_missing(want))):
                            raise Failure('row-read', '%s: %s[%d,%d] = %r but column %d holds %r' % (what, nm, i, j, got, j, want))

    for stp in case['steps']:
        k, s = stp['k'], stp['s']
        ti = stp['t'] % len(live)
        tgt = live[ti]
        f = tgt.obj
        what = '%s on #%d' % (s, ti)
        if k == 'read':
            if isinstance(f, sf.Frame):
                {'values': lambda: f.values, 'len': lambda: len(f), 'display': lambda: str(f), 'columns_values': lambda: f.columns.values,
                 'dtypes': lambda: f.dtypes, 'iter': lambda: list(f.iter_array(axis=1)), 'none': lambda: None}[s]()
            else:
                {'values': lambda: f.values, 'len': lambda: len(f), 'display': lambda: str(f)}.get(s, lambda: list(f))()
            verify_all(None, what)
            if pending_reject:
                rejected_then_read = True
            continue
        if k == 'derive':
            if not isinstance(f, sf.Frame):
                continue
            d = derive(f, s, stp)
            if d is None or isinstance(d, Raised):
                verify_all(None, what + ' (derivation raised)' if isinstance(d, Raised) else what)
                continue
            verify_all(None, what)
            derived_any = True
            for obj in (d if isinstance(d, list) else [d]):
                if isinstance(obj, (sf.Frame, sf.Index, sf.IndexHierarchy, sf.Series)) and len(live) < MAX_LIVE:
                    live.append(Live(obj))
                    if s == 'copycopy':
                        live[-1].alias = True
                        tgt.alias = True
            classes.append('derive:' + s)
            continue
        # growth: only grow-only frames
        if not isinstance(f, sf.FrameGO):
            continue
        n = f.shape[0]
        before = tgt.snap
        i, j, dt = stp['i'], stp['j'], stp['dt']
        new_labels, new_cols, expect_reject = None, None, False
        lab = _new_label(f, i % 7)
        lab2 = _new_label(f, (i % 7) + 7)
        existing = list(f.columns)
        deep = f.columns.depth > 1
        if lab is None or lab2 is None:
            continue
        if deep and s in ('extend_frame', 'extend_frame_unaligned', 'extend_frame_dup', 'extend_frame_partial', 'extend_items', 'extend_items_partial', 'extend_items_badlen'):
            continue  # hierarchical columns: covered by setitem / extend_series forms (extend needs whole new outer labels)
        idx_labels = list(f.index)
        if s in ('setitem_series_unaligned', 'extend_frame_unaligned') and any(is_missing(x) for x in (idx_labels if f.index.depth == 1 else [])):
            continue  # NaN labels: label alignment is undefined (outside the claim)

        def ser(vals, labels=None, name=None):
            ix = f.index if labels is None else (sf.IndexHierarchy.from_labels(labels) if (f.index.depth > 1 and labels) else sf.Index(labels) if f.index.depth == 1 else None)
            if ix is None:
                return None
            return sf.Series(vals, index=ix, name=name)

        call = None
        if s == 'setitem_scalar':
            v = [7, 'zz', 2.5, None, True][j % 5]
            new_labels, new_cols = [lab], [[v] * n]
            call = lambda: f.__setitem__(lab, v)
        elif s == 'setitem_list':
            vals = arr_list(_values_for(n, dt, j))
            if n == 0:
                continue
            new_labels, new_cols = [lab], [vals]
            call = lambda: f.__setitem__(lab, list(vals))
        elif s == 'setitem_array':
            a = _values_for(n, dt, j)
            new_labels, new_cols = [lab], [arr_list(a)]
            call = lambda: f.__setitem__(lab, a)
        elif s == 'setitem_series':
            a = _values_for(n, dt, j)
            new_labels, new_cols = [lab], [arr_list(a)]
            call = lambda: f.__setitem__(lab, sf.Series(a, index=f.index))
        elif s == 'setitem_series_unaligned':
            if n < 2 or f.index.depth > 1:
                continue
            keep = [p for p in range(n) if (j >> p) & 1][::-1]
            a = _values_for(len(keep), dt, j)
            sv = sf.Series(a, index=[idx_labels[p] for p in keep])
            col = [float('nan')] * n
            for q, p in enumerate(keep):
                col[p] = arr_list(a)[q]
            new_labels, new_cols = [lab], [col]
            call = lambda: f.__setitem__(lab, sv)
        elif s == 'setitem_dup':
            if not existing:
                continue
            dup = existing[j % len(existing)]
            dup = tuple(dup) if deep else dup
            expect_reject = True
            call = lambda: f.__setitem__(dup, _values_for(n, dt, j))
        elif s == 'setitem_wrong_len':
            expect_reject = True
            a = _values_for(n + 1 + (j % 2), dt, j)
            call = (lambda: f.__setitem__(lab, a)) if j % 3 else (lambda: f.__setitem__(lab, list(arr_list(a))))
        elif s == 'setitem_2d':
            expect_reject = True
            call = lambda: f.__setitem__(lab, np.zeros((n, 2)))
        elif s == 'setitem_frame':
            expect_reject = True
            call = lambda: f.__setitem__(lab, sf.Frame(np.zeros((n, 1)), index=f.index))
        elif s in ('extend_frame', 'extend_frame_unaligned', 'extend_frame_dup', 'extend_frame_partial', 'extend_empty'):
            a, b = _values_for(n, dt, j), _values_for(n, 'float64', j + 1)
            labs = [lab, lab2]
            ext_kw = {}
            if s == 'extend_empty':
                other = sf.Frame(index=f.index)
                new_labels, new_cols = [], []
            elif s == 'extend_frame_dup':
                if not existing:
                    continue
                labs = [existing[j % len(existing)]]
                other = sf.Frame.from_items(zip(labs, [a]), index=f.index)
                expect_reject = True
            elif s == 'extend_frame_partial':
                if not existing:
                    continue
                labs = [lab, existing[j % len(existing)]]
                other = sf.Frame.from_items(zip(labs, [a, b]), index=f.index)
                expect_reject = True
            elif s == 'extend_frame':
                other = sf.Frame.from_items(zip(labs, [a, b]), index=f.index)
                if j % 2:
                    other = other.to_frame_go()
                new_labels, new_cols = labs, [arr_list(a), arr_list(b)]
            else:
                if n < 2 or f.index.depth > 1:
                    continue
                keep = [p for p in range(n) if (j >> p) & 1][::-1]
                if not keep:
                    continue
                a2, b2 = _values_for(len(keep), dt, j), _values_for(len(keep), 'float64', j + 1)
                other = sf.Frame.from_items(zip(labs, [a2, b2]), index=[idx_labels[p] for p in keep])
                # rows the other frame does not label take the fill value (the default NaN, or one given)
                fv = -7 if j % 3 == 0 else float('nan')
                ca, cb = [fv] * n, [fv] * n
                for q, p in enumerate(keep):
                    ca[p], cb[p] = arr_list(a2)[q], arr_list(b2)[q]
                new_labels, new_cols = labs, [ca, cb]
                if j % 3 == 0:
                    ext_kw = {'fill_value': -7}
            call = lambda: f.extend(other, **ext_kw)
        elif s in ('extend_series', 'extend_series_dup'):
            a = _values_for(n, dt, j)
            if s == 'extend_series_dup':
                if not existing:
                    continue
                nm = existing[j % len(existing)]
                nm = tuple(nm) if deep else nm
                expect_reject = True
            else:
                nm = lab
                new_labels, new_cols = [lab], [arr_list(a)]
            sv = sf.Series(a, index=f.index, name=nm)
            call = lambda: f.extend(sv)
        elif s in ('extend_items', 'extend_items_partial', 'extend_items_badlen'):
            a, b = _values_for(n, dt, j), _values_for(n, 'float64', j + 1)
            if s == 'extend_items':
                pairs = [(lab, sf.Series(a, index=f.index)), (lab2, b)]
                new_labels, new_cols = [lab, lab2], [arr_list(a), arr_list(b)]
            elif s == 'extend_items_partial':
                if not existing:
                    continue
                pairs = [(lab, a), (existing[j % len(existing)], b)]
                expect_reject = True
            else:
                pairs = [(lab, a), (lab2, _values_for(n + 1, 'float64', j))]
                expect_reject = True
            call = (lambda: f.extend_items(pairs)) if j % 2 else (lambda: f.extend_items(p for p in pairs))
        else:
            continue
        r = lib(call)
        imm = None
        if not expect_reject and not isinstance(r, Raised) and stp['t'] % 3 == 0:
            route = IMMEDIATE[stp['i'] % len(IMMEDIATE)]
            imm = (route, derive(f, route, stp))
        after = lib(obs.snap, f)
        classes.append('grow:' + s)
        if expect_reject:
            if not isinstance(r, Raised):
                raise Failure('no-raise', '%s: invalid growth accepted; columns now %s' % (what, short(after[5] if not isinstance(after, Raised) else after)))
            if isinstance(after, Raised):
                raise Failure('unreadable', '%s: rejected growth (%s) left the container unreadable: %r' % (what, r.cls, after.exc), after.where)
            if after != before:
                fl = Failure('not-all-or-nothing', '%s: rejected growth (%s) changed the container: columns %s -> %s shape %s' % (what, r.cls, short(before[5]), short(after[5]), after[3]))
                if s in ('extend_items_partial', 'extend_items_badlen') and after[5][:len(before[5])] == before[5] and after[9][:len(before[9])] == before[9]:
                    # known finding (extend_items applies pairs one by one): reported at the end, history continues
                    deferred.append(fl)
                    tgt.snap = after
                else:
                    raise fl
            coherent(f, what)
            pending_reject = True
        else:
            if isinstance(r, Raised):
                raise Failure('raised:%s' % r.cls, '%s: valid growth raised %r' % (what, r.exc), r.where)
            if isinstance(after, Raised):
                raise Failure('unreadable', '%s: container unreadable after growth: %r' % (what, after.exc), after.where)
            _expect_append(before, after, new_labels, new_cols, what)
            coherent(f, what)
            tgt.snap = after
            if imm is not None and imm[1] is not None:
                route, d = imm
                if isinstance(d, Raised):
                    raise Failure('raised:%s' % d.cls, '%s then %s (before any read) raised %r' % (what, route, d.exc), d.where)
                ds = lib(obs.snap, d)
                if isinstance(ds, Raised):
                    raise Failure('unreadable', '%s then %s (before any read): result unreadable: %r' % (what, route, ds.exc), ds.where)
                if ds[0] == 'F':
                    if ds[3:] != after[3:]:
                        raise Failure('stale', '%s then %s (before any read): derived %s, source %s' % (what, route, short(ds[3:], 300), short(after[3:], 300)))
                elif ds[4] != after[5]:
                    raise Failure('stale', '%s then %s (before any read): derived labels %s, source columns %s' % (what, route, short(ds[4]), short(after[5])))
                if len(live) < MAX_LIVE:
                    live.append(Live(d))
                derived_any = True
                classes.append('derive-before-observe:' + route)
            if derived_any and new_labels:
                grown_after_derive = True
        verify_all(ti, what, new_labels or ())
    if deferred:
        raise deferred[0]
    return {'nt': grown_after_derive or rejected_then_read, 'cls': classes}


def derive(f, s, stp):
    n, m = f.shape
    i, j = stp['i'], stp['j']

    def go():
        if s == 'to_frame':
            return f.to_frame()
        if s == 'to_frame_go':
            return f.to_frame_go()
        if s == 'to_frame_he':
            return f.to_frame_he()
        if s == 'iloc_null':
            return f.iloc[:, :]
        if s == 'loc_all':
            return f.loc[:]
        if s == 'iloc_cols':
            return f.iloc[:, : (i % (m + 1))]
        if s == 'iloc_rows':
            return f.iloc[: (i % (n + 1))]
        if s == 'getitem_list':
            return f[list(f.columns)[: (i % (m + 1))]] if f.columns.depth == 1 else f.iloc[:, :1]
        if s == 'relabel':
            return f.relabel(columns=lambda x: ('r', x) if not isinstance(x, tuple) else ('r',) + x)
        if s == 'rename':
            return f.rename('renamed')
        if s == 'sort_index':
            return f.sort_index(ascending=False)
        if s == 'sort_columns':
            return f.sort_columns(ascending=False)
        if s == 'reindex':
            return f.reindex(columns=list(f.columns)[::-1]) if f.columns.depth == 1 else f.reindex(index=f.index)
        if s == 'mul':
            return f * 1
        if s == 'neg':
            return -f
        if s == 'transpose':
            return f.transpose()
        if s == 'T_go':
            return f.transpose().to_frame_go()
        if s == 'set_index':
            return f.set_index(list(f.columns)[i % m]) if m else None
        if s == 'unset_index':
            return f.unset_index()
        if s == 'iter_group':
            return [g for _, g in f.iter_group_items(list(f.columns)[i % m])][:2] if m and n else None
        if s == 'iter_window':
            return [w for w in f.iter_window(size=1)][:2] if n else None
        if s == 'astype':
            return f.astype(object)
        if s == 'assign':
            return f.assign.iloc[:, 0](-1) if m else None
        if s == 'drop':
            return f.drop.iloc[:, 0] if m else None
        if s == 'fillna':
            return f.fillna(0)
        if s == 'isna':
            return f.isna()
        if s == 'clip':
            return f.clip(lower=0)
        if s == 'shift':
            return f.shift(1, fill_value=0)
        if s == 'roll':
            return f.roll(1, 1)
        if s == 'head':
            return f.head(2)
        if s == 'insert' and f.columns.depth > 1 and any(isinstance(x, np.datetime64) for t in f.columns for x in t):
            return None  # the string label used for the inserted column does not belong into a datetime-typed level
        if s == 'insert':
            return f.insert_after(sf.ILoc[0], sf.Series(np.arange(n), index=f.index, name='__i__' if f.columns.depth == 1 else ('__i__',) * f.columns.depth)) if m else None
        if s == 'concat':
            return sf.Frame.from_concat((f, f.relabel(columns=lambda x: ('c', x) if not isinstance(x, tuple) else ('c',) + x)), axis=1) if f.columns.depth == 1 else None
        if s == 'ctor_frame':
            return sf.Frame(f)
        if s == 'ctor_framego':
            return sf.FrameGO(f)
        if s == 'copycopy':
            return copy.copy(f)
        if s == 'deepcopy':
            return copy.deepcopy(f)
        if s == 'pickle':
            return pickle.loads(pickle.dumps(f))
        if s == 'static_to_go':
            return f.to_frame().to_frame_go()
        if s == 'columns_static':
            c = f.columns
            return c._IMMUTABLE_CONSTRUCTOR(c) if not c.STATIC else c
        if s == 'columns_copy':
            return f.columns.copy()
        if s == 'drop_rows_iloc':
            return f.drop.iloc[i % n] if n else None
        if s == 'drop_rows_list':
            return f.drop.iloc[[i % n]] if n else None
        if s == 'drop_rows_loc':
            return f.drop.loc[list(f.index)[i % n]] if n and f.index.depth == 1 else None
        if s == 'dropna':
            return f.dropna(axis=0, condition=np.all)
        if s == 'sort_values':
            return f.sort_values(list(f.columns)[i % m]) if m and f.columns.depth == 1 else None
        if s == 'tail':
            return f.tail(2)
        if s == 'loc_rows':
            return f.loc[list(f.index)[: (i % (n + 1))]] if f.index.depth == 1 else None
        if s == 'iloc_row_list':
            return f.iloc[[q for q in range(n) if (i >> q) & 1]]
        if s == 'relabel_index':
            return f.relabel(index=lambda x: ('r', x) if not isinstance(x, tuple) else ('r',) + x)
        if s == 'astype_col':
            return f.astype[list(f.columns)[i % m]](object) if m and f.columns.depth == 1 else None
        if s == 'assign_rows':
            return f.assign.iloc[0](-1) if n and m else None
        if s == 'iter_element_apply':
            return f.iter_element().apply(lambda x: x)
        if s == 'iter_element_items_apply':
            return f.iter_element_items().apply(lambda k, x: x)
        if s == 'iter_element_map_any':
            return f.iter_element().map_any({0: 100})
        if s == 'iter_element_map_fill':
            return f.iter_element().map_fill({0: 100}, fill_value=-1)
        if s == 'index_to_frame_go':
            return f.index.to_frame_go() if f.index.depth > 1 else None
        if s == 'columns_to_frame_go':
            return f.columns.to_frame_go() if f.columns.depth > 1 else None
        if s == 'apply_series_rows':
            return f.iter_series(axis=1).apply(lambda r: r.iloc[0]) if m and n else None
        if s == 'via_T_add':
            return f.via_T + np.zeros(n, dtype=int) if n and m and all(d.kind in 'iuf' for d in f.dtypes.values) else None
        if s == 'isin':
            return f.isin((0, 1))
        if s == 'rank_like_abs':
            return abs(f) if all(d.kind in 'iuf' for d in f.dtypes.values) and m else None
        if s == 'to_frame_go_astype':
            return f.to_frame_go().astype(object)
        if s == 'clip_go':
            return f.clip(upper=10 ** 9) if all(d.kind in 'iuf' for d in f.dtypes.values) and m else None
        if s == 'from_items':
            return sf.FrameGO.from_items(f.items(), index=f.index) if f.columns.depth == 1 else None
        return None
    return lib(go)


# ---------------------------------------------------------------------------------------------
# IndexGO histories

@st.composite
def index_cases(draw):
    kind = draw(st.sampled_from(['int', 'str', 'auto', 'date', 'mixed', 'empty']))
    n = draw(st.integers(0, 5))
    labels = [] if kind == 'empty' else (list(range(n)) if kind == 'auto' else draw(gen.flat_labels(n, kind)))
    steps = draw(st.lists(st.fixed_dictionaries({
        's': st.sampled_from(['append', 'append_dup', 'extend', 'extend_partial', 'extend_dup_within', 'extend_gen_partial', 'to_static', 'copy', 'read', 'series_from']),
        'i': st.integers(0, 30), 'j': st.integers(0, 30),
        # whether the index is looked at after the step (looking refreshes what growth left pending; two steps in three go unobserved)
        'look': st.sampled_from([False, True, False])}), min_size=1, max_size=10))
    return {'kind': kind, 'labels': labels, 'steps': steps}


def _fresh(kind, model, v):
    if kind == 'date':
        c = np.datetime64(19000 + v, 'D')
    elif kind == 'str':
        c = 'n%d' % v
    elif kind in ('int', 'auto', 'empty'):
        # (an automatic integer index keeps growing by the next position; any other label, an int or a str, ends that mode)
        c = len(model) if (kind == 'auto' and v % 2 == 0) else ('n%d' % v if (kind == 'auto' and v % 4 == 1) else 500 + v)
    else:
        c = [500 + v, 'n%d' % v, (9, v), 2.5 + v][v % 4]
    return None if any(eq(canon(c), canon(x)) for x in model) else c


def check_index_history(case):
    from vf.props.c02 import check_index
    kind = case['kind']
    model = list(case['labels'])
    if kind == 'date':
        ix = sf.IndexDateGO(model)
    elif kind == 'auto':
        ix = sf.IndexGO(np.arange(len(model)), loc_is_iloc=True)
    elif kind == 'mixed':
        ix = gen.build_index({'kind': 'mixed', 'labels': model}, go=True)
    else:
        ix = sf.IndexGO(model)
    check_index(ix, model, 'initial')
    frozen = []
    classes = []
    grew = False
    nt = False
    for stp in case['steps']:
        s = stp['s']
        # (taking the snapshot reads the index: on unobserved steps a refused call is judged against the model afterwards instead)
        before = obs.snap(ix) if stp.get('look', True) else None
        if s == 'append':
            c = _fresh(kind, model, stp['i'])
            if c is None:
                continue
            r = lib(ix.append, c)
            if isinstance(r, Raised):
                raise Failure('raised:%s' % r.cls, 'append(%r) raised %r' % (c, r.exc), r.where)
            model.append(c)
            grew = True
        elif s == 'append_dup':
            if not model:
                continue
            c = model[stp['i'] % len(model)]
            if kind in ('auto', 'int') and isinstance(c, int) and stp['j'] % 3 == 0:
                c = float(c)   # the same key as the held int (on an automatic integer index membership is decided by position)
            r = lib(ix.append, c)
            if not isinstance(r, Raised):
                raise Failure('no-raise', 'append of duplicate %r accepted' % (c,))
            if before is None:
                check_index(ix, model, 'after the refused append of %r' % (c,), auto=False)
            elif obs.snap(ix) != before:
                raise Failure('not-all-or-nothing', 'rejected append changed the index')
        elif s in ('extend', 'extend_partial', 'extend_dup_within', 'extend_gen_partial'):
            a, b = _fresh(kind, model, stp['i']), _fresh(kind, model, stp['i'] + 11)
            if a is None or b is None or eq(canon(a), canon(b)):
                continue
            if s == 'extend':
                r = lib(ix.extend, [a, b])
                if isinstance(r, Raised):
                    raise Failure('raised:%s' % r.cls, 'extend(%r) raised %r' % ([a, b], r.exc), r.where)
                model += [a, b]
                grew = True
            else:
                if s == 'extend_dup_within':
                    arg = [a, b, a]
                elif not model:
                    continue
                else:
                    arg = [a, model[stp['j'] % len(model)], b]
                call = (lambda: ix.extend(x for x in arg)) if s == 'extend_gen_partial' else (lambda: ix.extend(arg))
                r = lib(call)
                if not isinstance(r, Raised):
                    raise Failure('no-raise', 'extend(%s) containing a duplicate accepted' % short(arg))
                if before is None:
                    check_index(ix, model, 'after the refused extend(%s)' % short(arg), auto=False)
                    nt = True
                    continue
                after = lib(obs.snap, ix)
                if isinstance(after, Raised) or after != before:
                    raise Failure('not-all-or-nothing', 'rejected extend(%s) changed the index: %s -> %s' % (short(arg), short(before[4]), short(after[4] if not isinstance(after, Raised) else after)))
                nt = True
        elif s == 'to_static':
            frozen.append((ix._IMMUTABLE_CONSTRUCTOR(ix), list(model)))
            continue
        elif s == 'copy':
            frozen.append((ix.copy() if stp['i'] % 2 else copy.deepcopy(ix), list(model)))
            continue
        elif s == 'series_from':
            frozen.append((sf.Series(np.arange(len(model)), index=ix).index, list(model)))
            continue
        else:
            ix.values
            len(ix)
        classes.append('ix:' + s)
        if not stp.get('look', True) and stp is not case['steps'][-1]:
            classes.append('ix:unobserved-step')
            continue
        check_index(ix, model, 'after ' + s, auto=False)
        for fz, fm in frozen:
            check_index(fz, fm, 'earlier static/copy after ' + s)
            if grew:
                nt = True
    return {'nt': nt, 'cls': classes + ['ixkind:' + kind]}


def tag(case, f):
    if f.kind == 'not-all-or-nothing' and ('extend_items_partial' in f.detail or 'extend_items_badlen' in f.detail):
        return 'framego-extend-items-partial-on-failure'
    if f.kind == 'leak' and '(copy.copy alias)' in f.detail and any(s['s'] == 'copycopy' for s in case['steps']):
        # growth visible through a copy.copy() of a FrameGO (shared _blocks/_columns)
        return 'copy-copy-of-framego-shares-state'
    return None


def _hier_cases():
    """Grow-only hierarchies: the histories C02 generates (appends of new and held outer labels, extends, refused growth, reads that may
    or may not come between two growth calls, derivations taken straight after growth), restricted to IndexHierarchyGO."""
    from vf.props.c02 import go_cases
    return go_cases().filter(lambda c: c['kind'] == 'ih')


def check_hier_history(case):
    from vf.props import c02
    try:
        return c02.check_go(case)
    except Failure as f:
        if c02.tag(case, f) is not None:
            raise Discard('a finding recorded under C02')
        raise


SUBS = [
    Sub('hier_history', _hier_cases(), check_hier_history, quick=2400, thorough=16000,
        rule='IndexHierarchyGO append / extend histories (new and held outer labels, refused growth, growth calls with and without a read in between) vs the list model'),
    Sub('frame_history', frame_cases(14), check_frames, quick=4800, thorough=64000, tag=tag, thorough_strategy=frame_cases(30),
        rule='FrameGO growth/derivation/read histories; snapshot invariants after every step'),
    Sub('index_history', index_cases(), check_index_history, quick=6000, thorough=48000,
        rule='IndexGO append/extend histories vs list model; rejected growth leaves the index unchanged'),
]
