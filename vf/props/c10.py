"""C10 — equals is a content equivalence; HE variants honour the hash contract.

Generator: a base recipe (Series / Frame / Index / IndexHierarchy / Bus) and two edit lists that
derive b and c from it by single-site edits (cell, missing value on one side, label, label swap,
name, class, block layout, dtype with equal values, dropped row) plus compare options.
Oracle: a reference predicate computed on the *recipes* (shape, labels in order, pairwise
values with the skipna rule, option requirements); equals must match it in both directions, be
reflexive on fresh copies and transitive over the triple; HE ==/!=/hash/set behaviour.
"""
import copy

import numpy as np
from hypothesis import strategies as st

from vf import gen
from vf.base import Discard, Failure, arr_list, canon, eq, is_missing, lib, must, Raised, sf
from vf.harness import Sub

PID = 'C10'
RULE = ('triples (a,b,c) from one base recipe by 0-2 single-site edits; non-trivial = a and b differ by '
        'exactly one site, or carry a missing value on one or both sides at an equal position')
ASSUMPTIONS = ['mixed int/float comparisons only with |int| <= 2**53 (NumPy == is not transitive beyond)',
               'compare_name / compare_dtype / compare_class extend to the composed axis indices, as the equals docstrings state '
               '("... (and all composed containers)")']

KINDS = ('bool', 'int64', 'float64', '<U3', 'object', 'M8[D]', 'float32', 'int32')


# ---------------------------------------------------------------------------------------------
# recipes and edits

@st.composite
def base_recipe(draw, kind):
    if kind == 'series':
        return draw(gen.series_recipe(min_size=0, max_size=5, kinds=KINDS, index_kinds=('auto', 'int', 'str', 'date', 'ih')))
    if kind in ('frame', 'bus'):
        return draw(gen.frame_recipe(min_rows=0, max_rows=4, min_cols=0, max_cols=4, kinds=KINDS,
                                     index_kinds=('auto', 'int', 'str', 'ih'), column_kinds=('auto', 'str', 'int', 'ih')))
    if kind == 'index':
        n = draw(st.integers(0, 5))
        return {'index': draw(gen.index_recipe(n, ('int', 'str', 'float', 'date', 'mixed', 'tuple')))}
    if kind == 'ih':
        n = draw(st.integers(1, 6))
        return {'index': draw(gen.index_recipe(n, ('ih',)))}
    raise ValueError(kind)


EDITS = ('cell', 'missing', 'label', 'swap', 'name', 'class', 'layout', 'dtype', 'droprow', 'collabel', 'ixname', 'colname', 'ixdtype', 'coldtype', 'ixclass', 'ihshared')


@st.composite
def edit(draw):
    return {'op': draw(st.sampled_from(EDITS)), 'i': draw(st.integers(0, 7)), 'j': draw(st.integers(0, 7)),
            'v': draw(st.integers(0, 5)), 'which': draw(st.sampled_from(['nan', 'none', 'nat']))}


@st.composite
def cases(draw):
    kind = draw(st.sampled_from(['series', 'frame', 'frame', 'index', 'ih', 'bus']))
    base = draw(base_recipe(kind))
    # a shared pre-edit lets missing values sit on *both* sides
    pre = draw(st.lists(edit(), max_size=1))
    eb = draw(st.lists(edit(), max_size=2))
    ec = draw(st.one_of(st.just(None), st.lists(edit(), max_size=2)))
    opts = {'compare_name': draw(st.booleans()), 'compare_dtype': draw(st.booleans()),
            'compare_class': draw(st.booleans()), 'skipna': draw(st.booleans())}
    return {'kind': kind, 'base': base, 'pre': pre, 'eb': eb, 'ec': ec, 'opts': opts,
            'cls': draw(st.sampled_from(['plain', 'plain', 'he', 'go']))}


_NEWVALS = {'b': [True, False], 'i': [0, 1, 7, -3, 100, 5], 'u': [0, 1, 7, 3, 100, 5], 'f': [0.0, 1.0, 7.5, -3.0, 100.0, 0.5],
            'U': ['a', 'b', 'zz', 'q', 'abc', 'c'], 'O': [0, 'a', True, 2.5, None, 'zz'],
            'M': [np.datetime64(18000 + k, 'D') for k in range(6)]}


def _cols_of(rec, kind):
    if kind == 'series':
        return [rec['values']]
    return gen.block_columns(rec['blocks'])


def _set_cols(rec, kind, cols, relayout=None):
    if kind == 'series':
        rec['values'] = cols[0]
    else:
        rec['blocks'] = gen.layout_consolidated(cols) if relayout == 'cons' else gen.layout_split(cols)


def apply_edit(rec, kind, e, state):
    """Apply an edit in place on a deep-copied recipe; ``state`` carries cls/name changes."""
    op = e['op']
    if kind in ('index', 'ih'):
        ix = rec['index']
        labels = ix['labels']
        n = len(labels)
        if op in ('label', 'collabel') and n:
            i = e['i'] % n
            if ix['kind'] == 'ih':
                new = labels[i][:-1] + (('zz%d' % e['v']) if isinstance(labels[i][-1], str) else
                                        (np.datetime64(18500 + e['v'], 'D') if isinstance(labels[i][-1], np.datetime64) else 500 + e['v']),)
            elif ix['kind'] == 'date':
                new = np.datetime64(18500 + e['v'], 'D')
            elif ix['kind'] == 'str':
                new = 'zz%d' % e['v']
            elif ix['kind'] == 'float':
                new = 500.5 + e['v']
            elif ix['kind'] == 'tuple':
                new = (9, 'z%d' % e['v'])
            else:
                new = 500 + e['v']
            if not any(eq(new, x) for x in labels):
                labels[i] = new
        elif op == 'swap' and n >= 2 and ix['kind'] != 'ih':
            i, j = e['i'] % n, e['j'] % n
            labels[i], labels[j] = labels[j], labels[i]
        elif op == 'droprow' and n >= 2:
            labels.pop()
        elif op == 'name':
            ix['name'] = ['n1', 'n2', None, ('a', 1)][e['v'] % 4]
        elif op == 'class':
            state['cls'] = ['plain', 'go'][e['v'] % 2]
        elif op == 'ihshared':
            state['ih_shared'] = True  # same labels, built so that equal sub-trees share one Index object (as from_product does)
        elif op == 'dtype' and ix['kind'] in ('int',) and n:
            state['label_dtype'] = ['int64', 'int32', 'float64'][e['v'] % 3]
        return
    # series / frame / bus(frame 0)
    cols = [np.array(c) for c in _cols_of(rec, kind)]
    n = len(rec['index']['labels'])
    m = len(cols)
    relayout = state.get('relayout')
    if op == 'cell' and n and m:
        j = e['j'] % m
        i = e['i'] % n
        pool = _NEWVALS.get(cols[j].dtype.kind)
        if pool is not None:
            v = pool[e['v'] % len(pool)]
            if cols[j].dtype.kind == 'U' and len(v) > cols[j].dtype.itemsize // 4:
                v = v[:max(1, cols[j].dtype.itemsize // 4)]
            cols[j][i] = v
    elif op == 'missing' and n and m:
        j = e['j'] % m
        i = e['i'] % n
        k = cols[j].dtype.kind
        if k == 'f':
            cols[j][i] = np.nan
        elif k == 'O':
            cols[j][i] = None if e['which'] == 'none' else np.nan
        elif k == 'M':
            cols[j][i] = np.datetime64('NaT')
    elif op == 'label' and n:
        sub = {'i': e['i'], 'j': e['j'], 'v': e['v'], 'op': 'label', 'which': e['which']}
        apply_edit({'index': rec['index']}, 'index' if rec['index']['kind'] != 'ih' else 'ih', sub, {})
        if rec['index']['kind'] == 'auto':
            rec['index']['kind'] = 'int'
    elif op == 'collabel' and kind != 'series' and m:
        sub = {'i': e['i'], 'j': e['j'], 'v': e['v'], 'op': 'label', 'which': e['which']}
        apply_edit({'index': rec['columns']}, 'index' if rec['columns']['kind'] != 'ih' else 'ih', sub, {})
        if rec['columns']['kind'] == 'auto':
            rec['columns']['kind'] = 'int'
    elif op == 'swap' and n >= 2 and rec['index']['kind'] not in ('ih',):
        labels = rec['index']['labels']
        i, j = e['i'] % n, e['j'] % n
        labels[i], labels[j] = labels[j], labels[i]
        if rec['index']['kind'] == 'auto' and i != j:
            rec['index']['kind'] = 'int'
    elif op == 'name':
        rec['name'] = ['n1', 'n2', None, ('a', 1)][e['v'] % 4]
    elif op in ('ixname', 'colname'):
        ax = rec['index'] if op == 'ixname' else rec.get('columns')
        if ax is not None and (ax['kind'] != 'auto' or ax['labels']):  # (an empty explicit Index would be float64, unlike the auto index)
            ax['name'] = ['n1', 'n2', None, ('a', 1)][e['v'] % 4]
            if ax['kind'] == 'auto' and ax['name'] is not None:
                ax['kind'] = 'int'  # a named axis index is an explicit one
    elif op in ('ixdtype', 'coldtype'):
        ax = rec['index'] if op == 'ixdtype' else rec.get('columns')
        if ax is not None and ax['kind'] in ('int', 'auto') and ax['labels']:
            ax['kind'] = 'int'
            state['axdtype_' + ('i' if op == 'ixdtype' else 'c')] = ['int64', 'int32', 'int16'][e['v'] % 3]
    elif op == 'ihshared':
        state['ih_shared'] = True
    elif op == 'ixclass':
        # a datetime64 axis held by a plain Index instead of IndexDate (same labels, other class)
        if rec['index']['kind'] == 'date':
            state['ix_plain_date'] = bool(e['v'] % 2)
    elif op == 'class':
        state['cls'] = ['plain', 'he', 'go'][e['v'] % 3]
    elif op == 'layout':
        state['relayout'] = relayout = ['cons', 'split'][e['v'] % 2]
    elif op == 'dtype' and m:
        j = e['j'] % m
        k = cols[j].dtype.kind
        c = cols[j]
        new = None
        if k == 'i' and (len(c) == 0 or (np.abs(c).max() < 2 ** 31)):
            new = [np.int32, np.int64, np.float64, object][e['v'] % 4]
        elif k == 'f' and (len(c) == 0 or bool(np.all((c.astype(np.float32).astype(np.float64) == c) | np.isnan(c)))):
            new = [np.float32, np.float64, object][e['v'] % 3]
        elif k == 'U':
            new = ['<U3', '<U8', object][e['v'] % 3]
        elif k == 'b':
            new = [bool, object][e['v'] % 2]
        if new is not None:
            cols[j] = c.astype(new)
    elif op == 'droprow' and n >= 2 and rec['index']['kind'] != 'ih':
        rec['index']['labels'].pop()
        cols = [c[:-1] for c in cols]
    if kind == 'series':
        rec['values'] = cols[0]
    else:
        if relayout:
            rec['blocks'] = gen.layout_consolidated(cols) if relayout == 'cons' else gen.layout_split(cols)
        else:
            # keep the generated layout when shapes allow, else split
            try:
                new_blocks = []
                pos = 0
                for b in rec['blocks']:
                    w = 1 if b.ndim == 1 else b.shape[1]
                    seg = cols[pos:pos + w]
                    if all(s.dtype == seg[0].dtype for s in seg):
                        if b.ndim == 1:
                            new_blocks.append(seg[0])
                        else:
                            nb = np.empty((len(seg[0]), w), dtype=seg[0].dtype)
                            for q, s in enumerate(seg):
                                nb[:, q] = s
                            new_blocks.append(nb)
                    else:
                        new_blocks.extend(seg)
                    pos += w
                rec['blocks'] = new_blocks
            except Exception:  # noqa: BLE001
                rec['blocks'] = gen.layout_split(cols)


def derive(base, kind, edits, cls):
    rec = copy.deepcopy(base)
    state = {'cls': cls}
    for e in edits:
        apply_edit(rec, kind, e, state)
    return rec, state


def _ih_shared(ixrec):
    """A depth-2 hierarchy holding the recipe's labels in which equal lists of inner labels are one shared Index object
    (the structure from_product / from_index_items produce), or None when the recipe is not depth 2."""
    labels = ixrec['labels']
    if ixrec['kind'] != 'ih' or not labels or len(labels[0]) != 2:
        return None
    groups = []
    for o, i in labels:
        if groups and eq(canon(groups[-1][0]), canon(o)):
            groups[-1][1].append(i)
        else:
            groups.append((o, [i]))
    cache = {}
    items = []
    for o, inner in groups:
        key = repr([canon(x) for x in inner])
        if key not in cache:
            cache[key] = (sf.IndexDate if all(isinstance(x, np.datetime64) for x in inner) else sf.Index)(inner)
        items.append((o, cache[key]))
    outer_ctor = sf.IndexDate if all(isinstance(o, np.datetime64) for o, _ in groups) else sf.Index
    ih = sf.IndexHierarchy.from_index_items(items, index_constructor=outer_ctor)
    return ih.rename(ixrec.get('name')) if ixrec.get('name') is not None else ih


def _axis_override(rec, state, which):
    """An explicit axis Index for the dtype / class edits, or None."""
    ax = rec['index'] if which == 'i' else rec['columns']
    if state.get('ih_shared') and ax['kind'] == 'ih':
        return _ih_shared(ax)
    ld = state.get('axdtype_' + which)
    if ld and ax['kind'] == 'int':
        return sf.Index(np.array(ax['labels'], dtype=ld), name=ax.get('name'))
    if which == 'i' and state.get('ix_plain_date') and ax['kind'] == 'date':
        return sf.Index(np.array(ax['labels'], dtype='M8[D]'), name=ax.get('name'))
    return None


def _with_axes(c, rec, kind, state):
    oi = _axis_override(rec, state, 'i')
    if kind == 'series':
        return c.relabel(oi) if oi is not None else c
    oc = _axis_override(rec, state, 'c')
    if oi is not None:
        c = c.relabel(index=oi)
    if oc is not None:
        c = c.relabel(columns=oc)
    return c


def build(rec, kind, state):
    cls = state.get('cls', 'plain')
    if kind == 'series':
        return _with_axes(gen.build_series(rec, sf.SeriesHE if cls == 'he' else sf.Series), rec, kind, state)
    if kind == 'frame':
        return _with_axes(gen.build_frame(rec, {'he': sf.FrameHE, 'go': sf.FrameGO}.get(cls, sf.Frame)), rec, kind, state)
    if kind == 'bus':
        f = _with_axes(gen.build_frame(rec, sf.Frame), rec, kind, state)
        f2 = sf.Frame.from_records([(1, 2)], columns=('p', 'q'), name='second')
        return sf.Bus.from_frames((f.rename('first'), f2), name=rec.get('name'))
    ix = gen.build_index(rec['index'], go=(cls == 'go'))
    if state.get('ih_shared') and cls != 'go':
        shared = _ih_shared(rec['index'])
        if shared is not None:
            ix = shared
    ld = state.get('label_dtype')
    if ld and rec['index']['kind'] == 'int':
        c = sf.IndexGO if cls == 'go' else sf.Index
        ix = c(np.array(rec['index']['labels'], dtype=ld), name=rec['index'].get('name'))
    return ix


def class_of(kind, rec, state):
    cls = state.get('cls', 'plain')
    if kind == 'series':
        return 'SeriesHE' if cls == 'he' else 'Series'
    if kind == 'frame':
        return {'he': 'FrameHE', 'go': 'FrameGO'}.get(cls, 'Frame')
    if kind == 'bus':
        return 'Bus'
    return type(build(rec, kind, state)).__name__


# ---------------------------------------------------------------------------------------------
# reference predicate (on recipes)

def _labels(ixrec):
    return [canon(x) for x in ixrec['labels']]


def _labels_eq(a, b, skipna):
    la, lb = _labels(a), _labels(b)
    return len(la) == len(lb) and all(eq(x, y) for x, y in zip(la, lb))


def _cell_eq(x, y, skipna):
    xm = is_missing(x) and x is not None
    ym = is_missing(y) and y is not None
    if xm or ym:
        return bool(xm and ym and skipna)
    return eq(x, y)


class Ambiguous(Exception):
    pass


def _label_dtype(ixrec, state):
    if ixrec['kind'] == 'int':
        return state.get('label_dtype') or 'int64'
    return None


def _axis_dtype(ax, state, which):
    if ax['kind'] in ('int', 'auto'):
        return (state.get('axdtype_' + which) if ax['kind'] == 'int' else None) or 'int64'
    return None  # other kinds are never re-typed by an edit: equal on both sides


def _axis_class(ax, state, which):
    if ax['kind'] == 'date':
        return 'Index' if (which == 'i' and state.get('ix_plain_date')) else 'IndexDate'
    return None


def ref_equal(kind, ra, sa, rb, sb, opts):
    """Reference predicate; raises Ambiguous when the statement does not determine the answer."""
    skipna = opts['skipna']
    if opts['compare_class'] and class_of(kind, ra, sa) != class_of(kind, rb, sb):
        return False
    if kind in ('index', 'ih'):
        if not _labels_eq(ra['index'], rb['index'], skipna):
            return False
        if opts['compare_name'] and not eq(canon(ra['index'].get('name')), canon(rb['index'].get('name'))):
            return False
        if opts['compare_dtype'] and _label_dtype(ra['index'], sa) != _label_dtype(rb['index'], sb):
            return False
        return True
    if not _labels_eq(ra['index'], rb['index'], skipna):
        return False
    if kind != 'series' and not _labels_eq(ra['columns'], rb['columns'], skipna):
        return False
    ca, cb = _cols_of(ra, kind), _cols_of(rb, kind)
    if len(ca) != len(cb):
        return False
    for x, y in zip(ca, cb):
        if len(x) != len(y):
            return False
        if opts['compare_dtype'] and x.dtype != y.dtype:
            return False
        for p, q in zip(arr_list(x), arr_list(y)):
            if not _cell_eq(p, q, skipna):
                return False
    if opts['compare_name'] and not eq(canon(ra.get('name')), canon(rb.get('name'))):
        return False
    # the options extend to the composed axis indices (docstring: "... and all composed containers")
    axes = ('index',) if kind == 'series' else ('index', 'columns')
    for which, axn in zip('ic', axes):
        xa, xb = ra[axn], rb[axn]
        if opts['compare_name'] and not eq(canon(xa.get('name')), canon(xb.get('name'))):
            return False
        if opts['compare_dtype'] and _axis_dtype(xa, sa, which) != _axis_dtype(xb, sb, which):
            return False
        if opts['compare_class'] and _axis_class(xa, sa, which) != _axis_class(xb, sb, which):
            return False
    return True


def n_sites(kind, ra, sa, rb, sb):
    """Number of differing sites between two recipes (for the non-trivial rule)."""
    d = 0
    la, lb = _labels(ra['index']), _labels(rb['index'])
    if len(la) != len(lb):
        return 99
    d += sum(not eq(x, y) for x, y in zip(la, lb))
    if kind in ('index', 'ih'):
        return d + (sa.get('cls') != sb.get('cls')) + (not eq(canon(ra['index'].get('name')), canon(rb['index'].get('name'))))
    if kind != 'series':
        ca_, cb_ = _labels(ra['columns']), _labels(rb['columns'])
        d += sum(not eq(x, y) for x, y in zip(ca_, cb_))
    for x, y in zip(_cols_of(ra, kind), _cols_of(rb, kind)):
        d += sum(not eq(p, q) for p, q in zip(arr_list(x), arr_list(y)))
        d += x.dtype != y.dtype
    d += not eq(canon(ra.get('name')), canon(rb.get('name')))
    d += sa.get('cls') != sb.get('cls')
    for which, axn in zip('ic', ('index',) if kind == 'series' else ('index', 'columns')):
        d += not eq(canon(ra[axn].get('name')), canon(rb[axn].get('name')))
        d += _axis_dtype(ra[axn], sa, which) != _axis_dtype(rb[axn], sb, which)
        d += _axis_class(ra[axn], sa, which) != _axis_class(rb[axn], sb, which)
    return d


def has_missing(kind, rec):
    if kind in ('index', 'ih'):
        return False
    return any(is_missing(v) for c in _cols_of(rec, kind) for v in arr_list(c))


def _unsafe_mixed(kind, ra, rb):
    """Mixed int/float pairs with large magnitudes are outside the sound domain."""
    if kind in ('index', 'ih'):
        return False
    for x, y in zip(_cols_of(ra, kind), _cols_of(rb, kind)):
        if x.dtype.kind in 'iu' and y.dtype.kind in 'iu' and len(x) and (np.abs(x.astype(np.float64)).max() > 2 ** 53):
            return x.dtype != y.dtype
    return False


# ---------------------------------------------------------------------------------------------

def _equals(x, y, opts, what):
    r = must(x.equals, y, what=what, **opts)
    if not isinstance(r, (bool, np.bool_)):
        raise Failure('kind', '%s returned %r (not a Boolean)' % (what, r))
    return bool(r)


def check(case):
    kind = case['kind']
    opts = case['opts']
    cls = case['cls'] if kind in ('series', 'frame', 'index', 'ih') else 'plain'
    if kind in ('index', 'ih') and cls == 'he':
        cls = 'plain'
    if kind == 'series' and cls == 'go':
        cls = 'plain'
    base, s0 = derive(case['base'], kind, case['pre'], cls)
    ra, sa = copy.deepcopy(base), dict(s0)
    rb, sb = derive(base, kind, case['eb'], s0['cls'])
    sb = {**s0, **sb}
    recs = [(ra, sa), (rb, sb)]
    if case['ec'] is not None:
        rc, sc = derive(base, kind, case['ec'], s0['cls'])
        recs.append((rc, {**s0, **sc}))
    objs = []
    for r, s in recs:
        o = lib(build, r, kind, s)
        if isinstance(o, Raised):
            raise Discard('constructor rejected recipe: %s' % o.cls)
        objs.append(o)
    classes = ['kind:' + kind]
    exp = {}
    for i in range(len(objs)):
        for j in range(len(objs)):
            if i == j:
                continue
            try:
                exp[i, j] = ref_equal(kind, recs[i][0], recs[i][1], recs[j][0], recs[j][1], opts)
            except Ambiguous:
                exp[i, j] = None
    got = {}
    for (i, j), e in exp.items():
        got[i, j] = _equals(objs[i], objs[j], opts, '%s.equals(%d,%d,%r)' % (kind, i, j, opts))
    # symmetry
    for (i, j) in got:
        if i < j and got[i, j] != got[j, i]:
            raise Failure('asymmetric', 'equals(x%d,x%d)=%s but equals(x%d,x%d)=%s opts=%r' % (i, j, got[i, j], j, i, got[j, i], opts))
    # agreement with the reference predicate
    for (i, j), e in exp.items():
        if e is not None and got[i, j] != e:
            raise Failure('predicate', 'equals(x%d,x%d)=%s, reference predicate says %s; opts=%r' % (i, j, got[i, j], e, opts))
    # reflexivity on fresh equal copies
    for idx, (r, s) in enumerate(recs[:2]):
        fresh = build(copy.deepcopy(r), kind, s)
        want = True
        if not opts['skipna'] and has_missing(kind, r):
            miss_nonnone = any((is_missing(v) and v is not None) for c in _cols_of(r, kind) for v in arr_list(c))
            want = not miss_nonnone
        g = _equals(objs[idx], fresh, opts, 'equals(fresh copy)')
        if g != want:
            raise Failure('reflexive', 'x%d.equals(fresh equal copy)=%s expected %s opts=%r' % (idx, g, want, opts))
        if not _equals(objs[idx], objs[idx], opts, 'equals(self)'):
            raise Failure('reflexive', 'x.equals(x) is False')
    # transitivity
    if len(objs) == 3:
        if got[0, 1] and got[1, 2] and not got[0, 2]:
            raise Failure('transitive', 'a==b, b==c but a!=c opts=%r' % opts)
    # HE contract
    if kind in ('series', 'frame'):
        he = []
        for o in objs:
            h = lib(lambda o=o: o.to_series_he() if kind == 'series' else o.to_frame_he())
            if isinstance(h, Raised):
                raise Failure('raised:%s' % h.cls, 'to_*_he raised %r' % h.exc, h.where)
            he.append(h)
        he_opts = dict(compare_name=True, compare_dtype=False, compare_class=False, skipna=True)
        for i in range(len(he)):
            for j in range(len(he)):
                if i == j:
                    continue
                r = must(lambda: he[i] == he[j], what='HE ==')
                nr = must(lambda: he[i] != he[j], what='HE !=')
                if type(r) is not bool or type(nr) is not bool:
                    raise Failure('kind', 'HE ==/!= returned non-bool %r %r' % (type(r), type(nr)))
                if r == nr:
                    raise Failure('he-ne', '== and != agree (%s)' % r)
                e = ref_equal(kind, recs[i][0], recs[i][1], recs[j][0], recs[j][1], he_opts)
                if r != e:
                    raise Failure('he-eq', 'HE x%d == x%d is %s, reference (equals with compare_name) says %s' % (i, j, r, e))
                if r:
                    hi = must(hash, he[i], what='hash(HE)')
                    hj = must(hash, he[j], what='hash(HE)')
                    if hi != hj:
                        raise Failure('hash', 'a == b but hash differs')
        # operands of another kind: equals() is False for them, so == is the plain False and != the plain True
        h0 = he[0]
        other_kind = lib(lambda: sf.FrameHE.from_records([(1, 2)]) if kind == 'series' else sf.SeriesHE((1, 2)))
        foreign = [None, 0, 'a', (1, 2), other_kind, (other_kind.to_frame() if kind == 'series' else other_kind.to_series()),
                   np.array([1, 2]), h0.index, objs[0].values]
        for x in foreign:
            r = must(lambda: h0 == x, what='HE == %s' % type(x).__name__)
            nr = must(lambda: h0 != x, what='HE != %s' % type(x).__name__)
            if type(r) is not bool or type(nr) is not bool:
                raise Failure('kind', 'HE ==/!= %s returned non-bool %s / %s' % (type(x).__name__, type(r).__name__, type(nr).__name__))
            if r is not False or nr is not True:
                raise Failure('he-foreign', 'HE == %s is %s and != is %s (equals() is False for an operand of another kind)' % (type(x).__name__, r, nr))
        # the same container with its labels re-given as Python objects in plain (object) indices: whenever == holds
        # between the two, the hashes agree and a set holds one member (datetime64 labels against date objects, NumPy
        # scalars against Python scalars)
        def _objectified(ix):
            labs = ix.values.tolist()
            if ix.depth == 1:
                arr = np.empty(len(labs), dtype=object)
                arr[:] = labs
                return sf.Index(arr, name=ix.name)
            return sf.IndexHierarchy.from_labels([tuple(t) for t in labs], name=ix.name) if labs else None
        def _finer(ix):
            # datetime64 labels held in a finer unit by the index class of that unit
            if ix.depth == 1 and ix.values.dtype.kind == 'M':
                return sf.IndexSecond(ix.values.astype('M8[s]'), name=ix.name)
            return None
        for tw_ix in (lib(_objectified, h0.index), lib(_finer, h0.index)):
            if isinstance(tw_ix, Raised) or tw_ix is None:
                continue
            tw = lib(lambda: h0.relabel(tw_ix) if kind == 'series' else h0.relabel(index=tw_ix))
            if not isinstance(tw, Raised):
                same = must(lambda: h0 == tw, what='HE == twin with object labels')
                if same is True:
                    if must(lambda: tw == h0, what='HE twin ==') is not True:
                        raise Failure('asymmetric', 'HE == twin with object labels holds in one direction only')
                    if must(hash, h0, what='hash(HE)') != must(hash, tw, what='hash(HE twin)'):
                        raise Failure('hash', 'a == b but hash differs: labels held by %s against the same labels held by %s' % (type(h0.index).__name__, type(tw.index).__name__))
                    classes.append('he-twin-equal:%s/%s' % (type(h0.index).__name__, type(tw.index).__name__))
        hs = [lib(hash, h) for h in he]
        if any(isinstance(h, Raised) for h in hs):
            bad = next(h for h in hs if isinstance(h, Raised))
            raise Failure('raised:%s' % bad.cls, 'hash(HE container) raised %r' % bad.exc, bad.where)
        # set semantics: number of distinct members == number of equivalence classes
        reps = []
        for i, h in enumerate(he):
            if not any(ref_equal(kind, recs[i][0], recs[i][1], recs[k][0], recs[k][1], he_opts) for k in reps):
                reps.append(i)
        sset = must(lambda: set(he + [copy.deepcopy(he[0])]), what='set(HE)')
        if len(sset) != len(reps):
            raise Failure('set', 'set of HE containers has %d members, expected %d classes' % (len(sset), len(reps)))
        d = {h: i for i, h in enumerate(he)}
        if he[0] not in d:
            raise Failure('set', 'HE container not found as dict key')
    sites = n_sites(kind, ra, sa, rb, sb)
    both_missing = has_missing(kind, ra) and has_missing(kind, rb)
    one_missing = has_missing(kind, ra) != has_missing(kind, rb)
    if sites == 1:
        classes.append('one-site')
    if sites == 0:
        classes.append('identical')
    if both_missing:
        classes.append('missing-both')
    if one_missing:
        classes.append('missing-one-side')
    for e in case['eb']:
        classes.append('edit:' + e['op'])
    classes.append('opts:' + ''.join(k[8] for k, v in sorted(opts.items()) if v and k.startswith('compare')) + ('+skipna' if opts['skipna'] else ''))
    return {'nt': sites == 1 or both_missing or one_missing, 'cls': classes}


def tag(case, f):
    kind = case['kind']
    # zero-column frames: TypeBlocks equality cannot be formed
    if kind in ('frame', 'bus') and f.kind.startswith('raised:ErrorInitTypeBlocks'):
        cols = gen.block_columns(case['base']['blocks'])
        if len(cols) == 0:
            return 'equals-zero-column-frame-raises'
    return None
    return None



# ---------------------------------------------------------------------------------------------
# a missing value held as a *label* (NaN in a float index, NaT in a datetime-typed or time-delta index): two containers built
# alike are equal exactly when skipna is requested, whatever wraps the index

@st.composite
def missing_label_cases(draw):
    ch = {'kind': draw(st.sampled_from(['float', 'date', 'second', 'timedelta', 'yearmonth'])), 'wrap': draw(st.sampled_from(['index', 'series', 'frame_index', 'frame_columns', 'series_he', 'frame_he', 'ih_leaf'])),
          'skipna': draw(st.booleans()), 'other': draw(st.sampled_from(['same', 'same', 'real_label', 'no_missing']))}
    n = draw(st.sampled_from([3, 2, 4, 1]))
    return dict({'n': n, 'pos': draw(st.integers(0, n - 1))}, **ch)


def _ml_index(case, variant):
    n, pos, kind = case['n'], case['pos'], case['kind']
    if kind == 'float':
        labs = [float(i) + 0.5 for i in range(n)]
        miss, real = float('nan'), 99.5
        mk = lambda l: sf.Index(np.array(l, dtype=np.float64))  # noqa: E731
    elif kind == 'timedelta':
        labs = [np.timedelta64(i + 1, 'D') for i in range(n)]
        miss, real = np.timedelta64('NaT', 'D'), np.timedelta64(99, 'D')
        mk = lambda l: sf.Index(np.array(l, dtype='m8[D]'))  # noqa: E731
    else:
        unit, cls = {'date': ('D', sf.IndexDate), 'second': ('s', sf.IndexSecond), 'yearmonth': ('M', sf.IndexYearMonth)}[kind]
        labs = [np.datetime64(600 + i, unit) for i in range(n)]
        miss, real = np.datetime64('NaT', unit), np.datetime64(999, unit)
        mk = lambda l: cls(np.array(l, dtype='M8[%s]' % unit))  # noqa: E731
    labs = list(labs)
    if variant == 'missing':
        labs[pos] = miss
    elif variant == 'real_label':
        labs[pos] = real
    return mk(labs)


def _ml_wrap(case, ix):
    w, n = case['wrap'], case['n']
    if w == 'index':
        return ix
    if w == 'series':
        return sf.Series(np.arange(n), index=ix)
    if w == 'series_he':
        return sf.SeriesHE(np.arange(n), index=ix)
    if w == 'frame_index':
        return sf.Frame(np.arange(n * 2).reshape(n, 2), index=ix, columns=('a', 'b'))
    if w == 'frame_he':
        return sf.FrameHE(np.arange(n * 2).reshape(n, 2), index=ix, columns=('a', 'b'))
    if w == 'frame_columns':
        return sf.Frame(np.arange(n * 2).reshape(2, n), index=('a', 'b'), columns=ix)
    return sf.IndexHierarchy.from_index_items((('p', ix),))


def check_missing_labels(case):
    a = lib(lambda: _ml_wrap(case, _ml_index(case, 'missing' if case['other'] != 'no_missing' else 'plain')))
    b = lib(lambda: _ml_wrap(case, _ml_index(case, {'same': 'missing', 'real_label': 'real_label', 'no_missing': 'plain'}[case['other']])))
    if isinstance(a, Raised) or isinstance(b, Raised):
        raise Discard('construction rejected')
    skipna = case['skipna']
    want = {'same': skipna, 'real_label': False, 'no_missing': True}[case['other']]
    what = '%s labels, %s, other=%s' % (case['kind'], case['wrap'], case['other'])
    for x, y, nm in ((a, b, 'a.equals(b)'), (b, a, 'b.equals(a)')):
        r = lib(lambda: x.equals(y, skipna=skipna))
        if isinstance(r, Raised):
            raise Failure('raised:%s' % r.cls, '%s: %s(skipna=%s) raised %r' % (what, nm, skipna, r.exc), r.where)
        if r is not want and r != want:
            raise Failure('missing-label', '%s: %s(skipna=%s) is %r, expected %r (missing label at position %d of %d)' % (
                what, nm, skipna, r, want, case['pos'], case['n']))
    if case['wrap'] in ('series_he', 'frame_he'):
        # == is equals with skipna (and the name compared); != its negation; equal containers hash alike
        want_eq = {'same': True, 'real_label': False, 'no_missing': True}[case['other']]
        e1, e2, ne = lib(lambda: a == b), lib(lambda: b == a), lib(lambda: a != b)
        for r, nm, w in ((e1, 'a == b', want_eq), (e2, 'b == a', want_eq), (ne, 'a != b', not want_eq)):
            if isinstance(r, Raised):
                raise Failure('raised:%s' % r.cls, '%s: %s raised %r' % (what, nm, r.exc), r.where)
            if r is not w:
                raise Failure('missing-label', '%s: %s is %r, expected %r' % (what, nm, r, w))
    return {'nt': case['other'] == 'same', 'cls': ['ml:' + case['kind'], 'ml-wrap:' + case['wrap'], 'ml-other:' + case['other'], 'skipna' if skipna else 'noskip']}

# ---------------------------------------------------------------------------------------------
# equal values under different per-column dtypes and block layouts (the receiver's and the argument's layout are
# independent): equals must depend on the per-column dtypes only through compare_dtype, never on the layout

DL_DTYPES = ('int8', 'int32', 'int64', 'float32', 'float64', 'object', 'uint8')


@st.composite
def dl_cases(draw):
    n = draw(st.integers(1, 3))
    m = draw(st.integers(1, 5))
    vals = [[draw(st.integers(0, 9)) for _ in range(n)] for _ in range(m)]  # exactly representable in every dtype above
    fam = draw(st.sampled_from([DL_DTYPES, ('float64', 'float32', 'int64'), ('object', 'int64', '<U1'), ('int64', 'float64', 'int64')]))
    base_dt = draw(st.sampled_from(fam))
    dts_a = [base_dt if draw(st.integers(0, 3)) < 3 else draw(st.sampled_from(fam)) for _ in range(m)]
    dts_b = [dts_a[j] if draw(st.integers(0, 2)) < 2 else draw(st.sampled_from(fam)) for j in range(m)]
    cut = lambda: [draw(st.booleans()) for _ in range(max(m - 1, 0))]  # noqa: E731  (join column j with j+1 when dtypes allow)
    edit = draw(st.one_of(st.none(), st.tuples(st.integers(0, m - 1), st.integers(0, n - 1))))
    return {'vals': vals, 'dts_a': dts_a, 'dts_b': dts_b, 'cut_a': cut(), 'cut_b': cut(), 'edit': edit,
            # int64 columns hold values beyond 2**53 one time in three: neighbours there differ although their float64 images do not
            'big': draw(st.integers(0, 2)) == 2,
            'opts': {'compare_name': draw(st.booleans()), 'compare_dtype': draw(st.booleans()), 'compare_class': draw(st.booleans()), 'skipna': draw(st.booleans())},
            'series': draw(st.integers(0, 5)) == 5}


def _dl_cols(vals, dts, big=False):
    out = []
    for col, dt in zip(vals, dts):
        if big and dt == 'int64':
            out.append(np.array([2 ** 53 + 4 * v for v in col], dtype=np.int64))   # (+1 is another int64 with the same float64 image)
        elif dt == '<U1':
            out.append(np.array([str(v) for v in col], dtype='<U1'))
        else:
            a = np.empty(len(col), dtype=dt)
            a[:] = col
            out.append(a)
    return out


def _dl_blocks(cols, cut):
    blocks = []
    i = 0
    m = len(cols)
    while i < m:
        j = i + 1
        while j < m and cut[j - 1] and cols[j].dtype == cols[i].dtype:
            j += 1
        if j - i == 1:
            blocks.append(cols[i])
        else:
            blocks.append(np.column_stack(cols[i:j]) if cols[i].dtype != object else np.array([list(r) for r in zip(*cols[i:j])], dtype=object).reshape(len(cols[i]), j - i))
        i = j
    return blocks


def check_dl(case):
    vals_a = [list(c) for c in case['vals']]
    vals_b = [list(c) for c in case['vals']]
    big = bool(case.get('big'))
    big_edit = big and case['edit'] is not None and case['dts_b'][case['edit'][0]] == 'int64'
    if case['edit'] is not None and not big_edit:
        j, i = case['edit']
        vals_b[j][i] = (vals_b[j][i] + 1) % 10
    opts = case['opts']
    ca, cb = _dl_cols(vals_a, case['dts_a'], big), _dl_cols(vals_b, case['dts_b'], big)
    if big_edit:
        j, i = case['edit']
        cb[j][i] += 1
    n, m = len(vals_a[0]), len(vals_a)
    if case['series']:
        a = sf.Series(gen.freeze(ca[0]), name='s')
        b = sf.Series(gen.freeze(cb[0]), name='s')
        m = 1
        ca, cb = ca[:1], cb[:1]
    else:
        a = sf.Frame(sf.TypeBlocks.from_blocks([gen.freeze(x) for x in _dl_blocks(ca, case['cut_a'])], shape_reference=(n, m)), own_data=True, name='f')
        b = sf.Frame(sf.TypeBlocks.from_blocks([gen.freeze(x) for x in _dl_blocks(cb, case['cut_b'])], shape_reference=(n, m)), own_data=True, name='f')
    # reference: '<U1' text differs from the number it spells; all other dtypes hold the same numbers
    def cell_eq(x, y):
        return (isinstance(x, str) == isinstance(y, str)) and x == y
    values_equal = all(cell_eq(x, y) for p, q in zip(ca[:m], cb[:m]) for x, y in zip(p.tolist(), q.tolist()))
    dtypes_equal = all(p.dtype == q.dtype for p, q in zip(ca[:m], cb[:m]))
    want = values_equal and (dtypes_equal or not opts['compare_dtype'])
    g_ab = _equals(a, b, opts, 'equals(a,b,%r)' % opts)
    g_ba = _equals(b, a, opts, 'equals(b,a,%r)' % opts)
    lay = 'layouts a=%s b=%s dtypes a=%s b=%s' % ([x.shape for x in (a._blocks._blocks if not case['series'] else [])],
                                                  [x.shape for x in (b._blocks._blocks if not case['series'] else [])], case['dts_a'][:m], case['dts_b'][:m])
    if g_ab != g_ba:
        raise Failure('asymmetric', 'equals(a,b)=%s but equals(b,a)=%s opts=%r; %s' % (g_ab, g_ba, opts, lay))
    if g_ab != want:
        raise Failure('predicate', 'equals(a,b)=%s, reference predicate says %s; opts=%r; %s' % (g_ab, want, opts, lay))
    if not case['series']:
        he_eq = must(lambda: a.to_frame_he() == b.to_frame_he(), what='HE ==')
        if he_eq is not values_equal:
            raise Failure('he-eq', 'FrameHE == is %r, values equal is %r; %s' % (he_eq, values_equal, lay))
        if he_eq and hash(a.to_frame_he()) != hash(b.to_frame_he()):
            raise Failure('hash', 'a == b but hash differs; %s' % lay)
    classes = ['dl:dtypes-' + ('equal' if dtypes_equal else 'differ'), 'dl:values-' + ('equal' if values_equal else 'differ'),
               'dl:layout-' + ('same' if case['cut_a'] == case['cut_b'] else 'differ')]
    return {'nt': values_equal and not dtypes_equal or (case['cut_a'] != case['cut_b'] and m >= 2), 'cls': classes}


# ---------------------------------------------------------------------------------------------
# hierarchies whose equal sub-trees are one shared Index object (from_product / from_index_items) against hierarchies
# built label by label: equality must not depend on how the tree is stored

@st.composite
def shared_cases(draw):
    route = draw(st.sampled_from(['from_product', 'from_index_items', 'from_product3']))
    wrap = draw(st.sampled_from(['ih', 'series', 'frame_columns', 'frame_he']))
    outer = draw(st.lists(st.sampled_from(['a', 'b', 'c', 'd']), min_size=2, max_size=4, unique=True))
    inner = draw(st.lists(st.integers(0, 5), min_size=1, max_size=3, unique=True))
    third = draw(st.lists(st.sampled_from(['x', 'y']), min_size=1, max_size=2, unique=True)) if route == 'from_product3' else None
    n = len(outer) * len(inner) * (len(third) if third else 1)
    edit = draw(st.one_of(st.none(), st.tuples(st.integers(0, n - 1), st.integers(0, 2), st.integers(50, 53))))
    return {'route': route, 'wrap': wrap, 'outer': outer, 'inner': inner, 'third': third, 'edit': edit,
            'opts': {'compare_name': draw(st.booleans()), 'compare_dtype': draw(st.booleans()), 'compare_class': draw(st.booleans()), 'skipna': draw(st.booleans())}}


def check_shared(case):
    import itertools
    outer, inner, third = case['outer'], case['inner'], case['third']
    lists = [outer, inner] + ([third] if third else [])
    labels = list(itertools.product(*lists))
    if case['route'] == 'from_index_items':
        shared = sf.Index(inner)
        a = sf.IndexHierarchy.from_index_items([(o, shared) for o in outer])
    else:
        a = sf.IndexHierarchy.from_product(*lists)
    lb = [tuple(t) for t in labels]
    changed = False
    if case['edit'] is not None:
        pos, d, v = case['edit']
        d = d % len(lists)
        t = list(lb[pos])
        new = ('z%d' % v) if isinstance(t[d], str) else v
        t[d] = new
        cand = lb[:pos] + [tuple(t)] + lb[pos + 1:]
        if len(set(cand)) == len(cand) and gen.is_tree_order(cand):
            lb, changed = cand, True
    b = lib(lambda: sf.IndexHierarchy.from_labels(lb))
    if isinstance(b, Raised):
        raise Discard('edited labels rejected: %s' % b.cls)
    wrap = case['wrap']
    n = len(labels)
    if wrap == 'series':
        a, b = sf.Series(np.arange(n), index=a), sf.Series(np.arange(n), index=b)
    elif wrap in ('frame_columns', 'frame_he'):
        cls = sf.FrameHE if wrap == 'frame_he' else sf.Frame
        a, b = cls(np.arange(n).reshape(1, n), columns=a), cls(np.arange(n).reshape(1, n), columns=b)
    opts = case['opts']
    want = not changed
    g_ab = _equals(a, b, opts, 'equals(shared, labels, %r)' % opts)
    g_ba = _equals(b, a, opts, 'equals(labels, shared, %r)' % opts)
    what = '%s vs from_labels%s, wrapped as %s' % (case['route'], ' with one label changed' if changed else '', wrap)
    if g_ab != g_ba:
        raise Failure('asymmetric', '%s: equals(a,b)=%s but equals(b,a)=%s opts=%r' % (what, g_ab, g_ba, opts))
    if g_ab != want:
        raise Failure('predicate', '%s: equals=%s, the labels are %s; opts=%r' % (what, g_ab, 'equal' if want else 'different', opts))
    if wrap == 'frame_he':
        r = must(lambda: a == b, what='FrameHE ==')
        if r is not want:
            raise Failure('he-eq', '%s: FrameHE == is %r' % (what, r))
        if r and hash(a) != hash(b):
            raise Failure('hash', '%s: equal but hash differs' % what)
    return {'nt': True, 'cls': ['shared:' + case['route'], 'shared-wrap:' + wrap, 'shared:' + ('changed' if changed else 'same')]}


# ---------------------------------------------------------------------------------------------
# hierarchies holding the same labels with unlike index classes at one depth (IndexDate against a plain Index of the
# same datetime64 labels), compared before and after their labels have been read (reading builds the per-depth arrays)

@st.composite
def depth_class_cases(draw):
    wrap = draw(st.sampled_from(['ih', 'series', 'frame_columns', 'frame_index']))
    realise = draw(st.sampled_from(['both', 'none', 'a', 'b', 'both']))
    how = draw(st.sampled_from(['values', 'repr', 'iter', 'dtypes']))
    cls_a = draw(st.sampled_from(['date', 'plain']))
    cls_b = draw(st.sampled_from(['plain', 'date']))
    depth_pos = draw(st.integers(0, 1))
    outer = draw(st.lists(st.sampled_from(['a', 'b', 'c']), min_size=1, max_size=3, unique=True))
    days = draw(st.lists(st.integers(0, 6), min_size=1, max_size=3, unique=True))
    go = draw(st.integers(0, 4)) == 4
    edit = draw(st.integers(0, 5)) == 5
    return {'wrap': wrap, 'realise': realise, 'how': how, 'cls_a': cls_a, 'cls_b': cls_b, 'depth_pos': depth_pos, 'outer': outer, 'days': days, 'go': go, 'edit': edit,
            'opts': {'compare_name': draw(st.booleans()), 'compare_dtype': draw(st.booleans()), 'compare_class': draw(st.booleans()), 'skipna': draw(st.booleans())}}


def check_depth_class(case):
    import itertools
    dates = [np.datetime64('2020-01-01') + np.timedelta64(d, 'D') for d in sorted(case['days'])]
    lists = [case['outer'], dates] if case['depth_pos'] == 1 else [dates, case['outer']]
    labels = list(itertools.product(*lists))

    def build(which, labs):
        ctors = [sf.Index, sf.Index]
        # (a plain Index given datetime64 labels holds them with the same dtype as IndexDate does)
        ctors[case['depth_pos']] = sf.IndexDate if which == 'date' else (lambda x, **kw: sf.Index(np.array(list(x), dtype='M8[D]'), **kw))
        cls = sf.IndexHierarchyGO if case['go'] else sf.IndexHierarchy
        return cls.from_labels(labs, index_constructors=ctors)
    lb = list(labels)
    if case['edit'] and len(lb) >= 1:
        t = list(lb[-1])
        t[case['depth_pos']] = t[case['depth_pos']] + np.timedelta64(9, 'D')
        lb[-1] = tuple(t)
    a, b = lib(build, case['cls_a'], labels), lib(build, case['cls_b'], lb)
    if isinstance(a, Raised) or isinstance(b, Raised):
        raise Discard('construction rejected')
    n = len(labels)
    wrap = case['wrap']
    if wrap == 'series':
        a, b = sf.Series(np.arange(n), index=a), sf.Series(np.arange(n), index=b)
    elif wrap == 'frame_columns':
        a, b = sf.Frame(np.arange(n).reshape(1, n), columns=a), sf.Frame(np.arange(n).reshape(1, n), columns=b)
    elif wrap == 'frame_index':
        a, b = sf.Frame(np.arange(n).reshape(n, 1), index=a), sf.Frame(np.arange(n).reshape(n, 1), index=b)

    def read(x):
        ix = x if wrap == 'ih' else (x.index if wrap in ('series', 'frame_index') else x.columns)
        {'values': lambda: ix.values, 'repr': lambda: repr(x), 'iter': lambda: list(ix), 'dtypes': lambda: ix.dtypes}[case['how']]()
    if case['realise'] in ('a', 'both'):
        read(a)
    if case['realise'] in ('b', 'both'):
        read(b)
    opts = case['opts']
    same_class = case['cls_a'] == case['cls_b']
    want = (not case['edit']) and (same_class or not opts['compare_class'])
    what = 'hierarchies with %s / %s at depth %d (%s), read before: %s (%s), wrapped as %s' % (
        case['cls_a'], case['cls_b'], case['depth_pos'], 'one label changed' if case['edit'] else 'same labels', case['realise'], case['how'], wrap)
    g_ab = _equals(a, b, opts, 'equals(a,b,%r)' % opts)
    g_ba = _equals(b, a, opts, 'equals(b,a,%r)' % opts)
    if g_ab != g_ba:
        raise Failure('asymmetric', '%s: equals(a,b)=%s but equals(b,a)=%s opts=%r' % (what, g_ab, g_ba, opts))
    if g_ab != want:
        raise Failure('predicate', '%s: equals=%s expected %s; opts=%r' % (what, g_ab, want, opts))
    return {'nt': not same_class or case['edit'], 'cls': ['depth-class:' + ('same' if same_class else 'differ'), 'depth-class-read:' + case['realise'], 'depth-class-wrap:' + wrap,
                                                         'depth-class:compare_class=%s' % opts['compare_class']]}


SUBS = [
    Sub('triples', cases(), check, quick=10000, thorough=48000, tag=tag,
        rule='equals vs reference predicate on recipes; symmetry; reflexivity on fresh copies; transitivity; HE ==/!=/hash/set'),
    Sub('missing_labels', missing_label_cases(), check_missing_labels, quick=1600, thorough=8000,
        rule='NaN / NaT held as a label (float, datetime-typed, time-delta indices; wrapped in Series / Frame / HE / hierarchy leaf): equal exactly under skipna, symmetric, == consistent'),
    Sub('shared_trees', shared_cases(), check_shared, quick=4000, thorough=24000,
        rule='hierarchies from from_product / from_index_items (shared Index objects) vs the same or one-label-different labels built by from_labels; both directions; Series / Frame / FrameHE wrappers'),
    Sub('dtype_layouts', dl_cases(), check_dl, quick=8000, thorough=48000,
        rule='equal (or one-cell-different) numbers under independently drawn per-column dtypes and independent block layouts on the two sides; equals in both directions vs per-column reference; FrameHE ==/hash'),
    Sub('depth_class', depth_class_cases(), check_depth_class, quick=2400, thorough=16000,
        rule='hierarchies with IndexDate or a plain Index of the same datetime64 labels at one depth, compared (every option set, both directions) before and after their labels were read'),
]
