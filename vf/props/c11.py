"""C11 — concatenation and overlay keep every input cell exactly once, aligned by label.

Model: every input is a {(row, col): value} mapping.  Expected labels on the concat axis are
the inputs' labels in input order (or the supplied replacement); on the other axis the union /
intersection; every expected cell is the unique input cell with that (row, col), else the fill
value.  Non-unique concat labels without a replacement must be rejected.  Items form: labels are
(outer, inner).  Overlay: per cell the first non-missing value in input order.
"""
import numpy as np
from hypothesis import strategies as st

from vf import gen, obs
from vf.base import Discard, Failure, Raised, arr_list, canon, eq, is_missing, lib, sf, short
from vf.harness import Sub
from vf.props.c02 import same_multiset

PID = 'C11'
RULE = ('0..4 Frames/Series with index and column labels drawn from shared pools (overlapping, permuted, disjoint, equal), dtype mixes and layouts covering the '
        'block-compatible / reblock-compatible / incompatible vstack paths, both axes, union/intersection, explicit or auto index, generator input, items form, overlay; '
        'non-trivial = >= 2 inputs whose aligned-axis labels are neither all equal nor pairwise disjoint')
ASSUMPTIONS = ['order of the aligned-axis union over non-identical inputs is not compared (as a set); identical inputs keep order',
               'values compared with == (NaN-aware); fill cells must be the fill value']

KINDS = ('bool', 'int64', 'float64', '<U3', 'object', 'int32', 'M8[D]', 'M8[s]')   # (two datetime units: same kind, unlike dtypes)
FILLS = [float('nan'), 0, 'ff', None, -1.5, ('n/a', -1), (0, 1, 2)]   # (tuples: a fill value that is itself a sequence is one element per cell)
INIT_ERRORS = ('ErrorInitFrame', 'ErrorInitIndex', 'ErrorInitIndexNonUnique', 'ErrorInitSeries')


def _hk(l):
    c = canon(l)
    if isinstance(c, tuple):
        return tuple(_hk(x) for x in c)
    return c


@st.composite
def frame_input(draw, rpool, cpool, force_cols=None, force_layout=None, common=None):
    rpos = [p for p in draw(st.permutations(list(range(len(rpool))))) if draw(st.booleans())]
    if force_cols is not None:
        cpos = list(force_cols)
    else:
        cpos = [p for p in draw(st.permutations(list(range(len(cpool))))) if draw(st.booleans())]
    allow_empty = draw(st.integers(0, 9)) == 9  # zero-sized members are a known finding: keep them rare
    if common is not None and not allow_empty:
        # one label shared by every input on the aligned axis, so that an intersection is rarely empty (a zero-sized
        # result is the same known finding)
        lst = cpos if common == 'c' else rpos
        if 0 not in lst:
            lst.append(0)
    if not rpos and not allow_empty:
        rpos = [draw(st.integers(0, len(rpool) - 1))]
    if not cpos and not allow_empty and force_cols is None:
        cpos = [draw(st.integers(0, len(cpool) - 1))]
    blks = draw(gen.blocks(len(rpos), len(cpos), kinds=KINDS, missing=True)) if force_layout is None else None
    return {'rpos': rpos, 'cpos': cpos, 'blocks': blks, 'name': draw(st.sampled_from([None, 'n1', 'n2', 'n3']))}


def _kind_of(dt):
    """The generator kind that produced an array of this dtype."""
    if dt == np.int32:
        return 'int32'
    if dt.kind == 'M':
        return 'M8[D]' if dt == np.dtype('M8[D]') else 'M8[s]'
    return {'b': 'bool', 'i': 'int64', 'f': 'float64', 'U': '<U3', 'O': 'object'}[dt.kind]


@st.composite
def concat_cases(draw):
    # decisive choices first (late draws are pinned to their first option for a share of Hypothesis's examples)
    axis = draw(st.integers(0, 1))
    mode = draw(st.sampled_from(['random', 'random', 'aligned', 'aligned_same_layout', 'aligned_relayout', 'disjoint_concat', 'empties_first']))
    ch = {'union': draw(st.booleans()), 'fill': draw(st.sampled_from(FILLS)), 'replace': draw(st.sampled_from([None, 'auto', None, 'list'])),
          'gen': draw(st.booleans()), 'form': draw(st.sampled_from(['concat', 'items', 'concat'])),
          'rname': draw(st.sampled_from([None, 'res', ('r', 1)])), 'consolidate': draw(st.booleans())}
    k = draw(st.sampled_from([2, 3, 1, 4, 2, 3, 1, 4, 2, 3, 0]))  # (no input at all is the zero-sized known finding: rare)
    nr, nc = draw(st.sampled_from([3, 2, 4, 1, 5, 6])), draw(st.sampled_from([3, 2, 4, 1, 5]))
    rkind = draw(st.sampled_from(['str', 'int']))
    ckind = draw(st.sampled_from(['str', 'int']))
    rpool = draw(gen.flat_labels(nr, rkind))
    cpool = draw(gen.flat_labels(nc, ckind))
    inputs = []
    for q in range(k):
        if mode in ('aligned', 'aligned_same_layout', 'aligned_relayout') and inputs:
            # same labels on the aligned axis (in order): the block / reblock compatible paths
            ref = inputs[0]
            fi = draw(frame_input(rpool, cpool))
            if axis == 0:
                fi['cpos'] = list(ref['cpos'])
            else:
                fi['rpos'] = list(ref['rpos'])
            if mode == 'aligned_same_layout' and axis == 0:
                # same block widths and dtypes as the first input
                blks = []
                for b in ref['blocks']:
                    w = 1 if b.ndim == 1 else b.shape[1]
                    kind = _kind_of(b.dtype)
                    vals = draw(st.lists(gen.elements(kind), min_size=len(fi['rpos']) * w, max_size=len(fi['rpos']) * w))
                    blks.append(gen.to_array(kind, vals, None if b.ndim == 1 else (len(fi['rpos']), w)))
                fi['blocks'] = blks
            elif mode == 'aligned_relayout' and axis == 0:
                # same per-column dtypes as the first input, different block boundaries
                cols = []
                for c in gen.block_columns(ref['blocks']):
                    kind = _kind_of(c.dtype)
                    cols.append(draw(gen.column(kind, len(fi['rpos']))))
                fi['blocks'] = draw(gen.relayout(cols)) if cols else []
            else:
                fi['blocks'] = draw(gen.blocks(len(fi['rpos']), len(fi['cpos']), kinds=KINDS, missing=True))
            inputs.append(fi)
        else:
            inputs.append(draw(frame_input(rpool, cpool, common=None if ch['union'] else ('c' if axis == 0 else 'r'))))
    if mode == 'disjoint_concat' and k:
        # make the concat-axis labels disjoint so the call is valid without a replacement
        pool_n = nr if axis == 0 else nc
        owner = [draw(st.integers(0, k - 1)) for _ in range(pool_n)]
        if draw(st.integers(0, 9)) < 9:
            for q in range(min(k, pool_n)):
                owner[q] = q  # every input owns a label when the pool allows (a zero-sized member is the known finding: rare)
        for q, fi in enumerate(inputs):
            key = 'rpos' if axis == 0 else 'cpos'
            fi[key] = [p for p in range(pool_n) if owner[p] == q]
            fi['blocks'] = draw(gen.blocks(len(fi['rpos']), len(fi['cpos']), kinds=KINDS, missing=True))
    if mode == 'empties_first' and len(inputs) >= 3:
        # the first two inputs carry no label on the aligned axis (e.g. zero-row frames that already have columns):
        # the labels and cells of the later inputs must still arrive
        for q in (0, 1):
            inputs[q]['rpos' if axis == 1 else 'cpos'] = []
            inputs[q]['blocks'] = draw(gen.blocks(len(inputs[q]['rpos']), len(inputs[q]['cpos']), kinds=KINDS, missing=True))
    as_series = [draw(st.booleans()) and draw(st.booleans()) for _ in inputs]
    return dict({'rpool': rpool, 'cpool': cpool, 'axis': axis, 'inputs': inputs, 'mode': mode, 'as_series': as_series}, **ch)


def _build_input(case, fi):
    idx = [case['rpool'][p] for p in fi['rpos']]
    cols = [case['cpool'][p] for p in fi['cpos']]
    tb = sf.TypeBlocks.from_blocks([gen.freeze(b) for b in fi['blocks']], shape_reference=(len(idx), len(cols)))
    return sf.Frame(tb, index=idx, columns=cols, name=fi['name'], own_data=True), idx, cols


def _cells(fi, idx, cols):
    out = {}
    carr = gen.block_columns(fi['blocks'])
    for j, c in enumerate(cols):
        vals = arr_list(carr[j])
        for i, r in enumerate(idx):
            out[(_hk(r), _hk(c))] = vals[i]
    return out


def _vstack_class(case):
    ins = case['inputs']
    if len(ins) < 2:
        return 'single'
    sig = lambda fi: [(b.dtype.str, 1 if b.ndim == 1 else b.shape[1]) for b in fi['blocks']]
    same_cols = all(fi['cpos'] == ins[0]['cpos'] for fi in ins)
    if not same_cols:
        return 'needs-reindex'
    if all(sig(fi) == sig(ins[0]) for fi in ins):
        return 'block-compatible'
    dts = lambda fi: [c.dtype.str for c in gen.block_columns(fi['blocks'])]
    if all(dts(fi) == dts(ins[0]) for fi in ins):
        return 'reblock-compatible'
    return 'incompatible'


def check_concat(case):
    axis = case['axis']
    built = [_build_input(case, fi) for fi in case['inputs']]
    frames = [b[0] for b in built]
    form = case['form']
    cells = [_cells(fi, idx, cols) for fi, (f, idx, cols) in zip(case['inputs'], built)]
    cat_labels_per = [(b[1] if axis == 0 else b[2]) for b in built]
    other_labels_per = [(b[2] if axis == 0 else b[1]) for b in built]
    if form == 'items':
        outer = ['k%d' % q for q in range(len(frames))]
        cat = [(o, l) for o, labs in zip(outer, cat_labels_per) for l in labs]
    else:
        cat = [l for labs in cat_labels_per for l in labs]
    if not frames:
        r = lib(lambda: sf.Frame.from_concat((), axis=axis)) if form == 'concat' else lib(lambda: sf.Frame.from_concat_items((), axis=axis))
        if isinstance(r, Raised):
            if r.cls in INIT_ERRORS or isinstance(r.exc, (ValueError, NotImplementedError, StopIteration)):
                return {'nt': False, 'cls': ['empty-input-rejected']}
            raise Failure('raised:%s' % r.cls, 'from_concat(()) raised %r' % r.exc, r.where)
        if r.shape != (0, 0):
            raise Failure('shape', 'from_concat(()) -> shape %s' % (r.shape,))
        return {'nt': False, 'cls': ['empty-input']}
    # other axis labels
    if case['union']:
        other = []
        for labs in other_labels_per:
            for l in labs:
                if not any(eq(canon(l), canon(x)) for x in other):
                    other.append(l)
    else:
        other = [l for l in other_labels_per[0] if all(any(eq(canon(l), canon(x)) for x in labs) for labs in other_labels_per[1:])]
    dup = len({_hk(l) for l in cat}) != len(cat)
    replace = case['replace'] if form == 'concat' else None
    kw = {'axis': axis, 'union': case['union'], 'fill_value': case['fill']}
    if 'rname' in case:  # the result's name and whether equal-typed neighbouring blocks are merged (no effect on content)
        kw.update(name=case['rname'], consolidate_blocks=case['consolidate'])
    cat_expect = list(cat)
    if replace == 'auto':
        kw['index' if axis == 0 else 'columns'] = sf.IndexAutoFactory
        cat_expect = list(range(len(cat)))
    elif replace == 'list':
        kw['index' if axis == 0 else 'columns'] = ['L%d' % q for q in range(len(cat))]
        cat_expect = ['L%d' % q for q in range(len(cat))]
    src = frames if not case['gen'] else (f for f in frames)
    if form == 'items':
        pairs = list(zip(outer, frames))
        ikw = {k: v for k, v in kw.items() if k in ('name', 'consolidate_blocks')}
        r = lib(lambda: sf.Frame.from_concat_items(pairs if not case['gen'] else (p for p in pairs), axis=axis, union=case['union'], fill_value=case['fill'], **ikw))
    else:
        r = lib(lambda: sf.Frame.from_concat(src, **kw))
    classes = ['axis:%d' % axis, 'form:' + form, 'union' if case['union'] else 'intersection', 'vstack:' + _vstack_class(case), 'mode:' + case['mode'], 'replace:%s' % replace]
    if dup and replace is None:
        if isinstance(r, Raised):
            if r.cls in INIT_ERRORS:
                return {'nt': True, 'cls': classes + ['duplicate-labels-rejected']}
            raise Failure('raised:%s' % r.cls, 'duplicate concat labels raised %r (not an initialisation error)' % r.exc, r.where)
        raise Failure('no-raise', 'duplicate labels %s on the concat axis produced %s' % (short(cat), short(r)))
    if isinstance(r, Raised):
        raise Failure('raised:%s' % r.cls, 'valid concatenation raised %r (cat labels %s, other %s)' % (r.exc, short(cat), short(other)), r.where)
    if 'rname' in case and obs.canon_name(r.name) != obs.canon_name(case['rname']):
        raise Failure('name', 'from_concat%s(name=%r) returned a frame named %r' % ('_items' if form == 'items' else '', case['rname'], r.name))
    gi, gc = obs.labels_of(r.index), obs.labels_of(r.columns)
    g_cat, g_other = (gi, gc) if axis == 0 else (gc, gi)
    if len(g_cat) != len(cat_expect) or not all(eq(a, canon(b)) for a, b in zip(g_cat, cat_expect)):
        raise Failure('labels', 'concat-axis labels %s expected %s' % (short(g_cat), short(cat_expect)))
    if not same_multiset(g_other, [canon(x) for x in other]):
        raise Failure('labels', 'aligned-axis labels %s expected (as a set) %s' % (short(g_other), short(other)))
    all_same = all(len(l) == len(other_labels_per[0]) and all(eq(canon(a), canon(b)) for a, b in zip(l, other_labels_per[0])) for l in other_labels_per)
    if all_same and not all(eq(a, canon(b)) for a, b in zip(g_other, other_labels_per[0])):
        raise Failure('order', 'inputs agree on the aligned axis but the result reordered it: %s' % short(g_other))
    # cells
    rcols = obs.frame_cols(r)
    fill = case['fill']
    pos = 0
    for q, labs in enumerate(cat_labels_per):
        for l in labs:
            for oj, o in enumerate(g_other):
                key = (_hk(l), _hk(o)) if axis == 0 else (_hk(o), _hk(l))
                g = arr_list(rcols[oj])[pos] if axis == 0 else arr_list(rcols[pos])[oj]
                if key in cells[q]:
                    w = cells[q][key]
                    if not (eq(g, w) or (is_missing(g) and is_missing(w))):
                        raise Failure('value', 'cell %r from input %d: got %r expected %r' % (key, q, g, w))
                else:
                    if not (eq(g, fill) or (is_missing(g) and is_missing(fill) and (fill is not None or g is None))):
                        raise Failure('fill', 'cell %r absent from input %d: got %r expected fill %r' % (key, q, g, fill))
            pos += 1
    sets = [set(_hk(x) for x in l) for l in other_labels_per]
    nt = len(frames) >= 2 and not all(s == sets[0] for s in sets) and any(sets[a] & sets[b] for a in range(len(sets)) for b in range(a + 1, len(sets)))
    return {'nt': nt or (len(frames) >= 2 and _vstack_class(case) in ('block-compatible', 'reblock-compatible', 'incompatible')), 'cls': classes}


# ---------------------------------------------------------------------------------------------
# Series concat and overlay

@st.composite
def series_cases(draw):
    what = draw(st.sampled_from(['s_concat', 's_concat_items', 's_overlay', 'f_overlay']))  # decisive choices first
    union, explicit = draw(st.booleans()), draw(st.booleans())
    hier = draw(st.integers(0, 3)) == 3   # overlay inputs labelled by a two-level hierarchy
    rname = draw(st.sampled_from([None, 'res', ('r', 1)]))
    first_full = draw(st.integers(0, 2)) == 2
    k = draw(st.sampled_from([2, 3, 1, 4]))
    n = draw(st.sampled_from([3, 2, 4, 1, 5, 6]))
    pool = draw(gen.flat_labels(n, draw(st.sampled_from(['str', 'int']))))
    if hier and what in ('s_overlay', 'f_overlay'):
        pool = [('g%d' % (i * 2 // n), l) for i, l in enumerate(pool)]
    ins = []
    for q in range(k):
        pos = [p for p in draw(st.permutations(list(range(n)))) if draw(st.booleans())]
        if not pos and draw(st.integers(0, 9)) < 9:
            pos = [draw(st.integers(0, n - 1))]
        kind = draw(st.sampled_from(['float64', 'object', 'int64', '<U3', 'bool']))
        if what == 'f_overlay':
            cpos = [p for p in range(3) if draw(st.booleans())] or [draw(st.integers(0, 2))]
            if q == 0 and first_full:
                # the first input covers every label (so it is overlaid as it is, keeping its blocks): a wide block without
                # a missing cell next to a block with missing cells, in either order
                pos, cpos = list(range(n)), [0, 1, 2]
                clean = gen.to_array('float64', [float(10 * i + j) for i in range(n) for j in range(2)]).reshape(n, 2)
                dirty = gen.to_array('float64', [float('nan') if draw(st.booleans()) else float(7 + i) for i in range(n)])
                ins.append({'pos': pos, 'cpos': cpos, 'blocks': [clean, dirty] if draw(st.booleans()) else [dirty, clean]})
                continue
            ins.append({'pos': pos, 'cpos': cpos, 'blocks': draw(gen.blocks(len(pos), len(cpos), kinds=('float64', 'object', 'int64'), missing=True))})
        else:
            ins.append({'pos': pos, 'values': draw(gen.column(kind, len(pos)))})
    return {'pool': pool, 'what': what, 'ins': ins, 'union': union, 'explicit': explicit, 'hier': hier and what in ('s_overlay', 'f_overlay'), 'rname': rname}


def _overlay_index(case, pos):
    """Row labels of one overlay input: flat labels, or a hierarchy (its labels kept in tree form: grouped by outer label)."""
    pool = case['pool']
    if not case.get('hier'):
        return [pool[p] for p in pos], list(pos)
    pos = sorted(pos, key=lambda p: pool[p][0])
    if not pos:
        return sf.IndexHierarchy.from_labels((), depth_reference=2), pos
    return sf.IndexHierarchy.from_labels([pool[p] for p in pos]), pos


def _name_is(r, case, what):
    if 'rname' in case and obs.canon_name(r.name) != obs.canon_name(case['rname']):
        raise Failure('name', '%s(name=%r) returned a container named %r' % (what, case['rname'], r.name))


def check_series(case):
    pool, what = case['pool'], case['what']
    nkw = {'name': case['rname']} if 'rname' in case else {}
    if case.get('hier'):
        case = dict(case, ins=[dict(x) for x in case['ins']])
    if what in ('s_concat', 's_concat_items'):
        ss = [sf.Series(x['values'], index=[pool[p] for p in x['pos']]) for x in case['ins']]
        if what == 's_concat':
            labels = [pool[p] for x in case['ins'] for p in x['pos']]
            r = lib(lambda: sf.Series.from_concat(ss, **nkw))
        else:
            labels = [('k%d' % q, pool[p]) for q, x in enumerate(case['ins']) for p in x['pos']]
            r = lib(lambda: sf.Series.from_concat_items([('k%d' % q, s) for q, s in enumerate(ss)]))  # (this form takes no name)
        vals = [v for x in case['ins'] for v in arr_list(x['values'])]
        dup = len({_hk(l) for l in labels}) != len(labels)
        if dup:
            if isinstance(r, Raised):
                if r.cls in INIT_ERRORS:
                    return {'nt': True, 'cls': [what, 'duplicate-labels-rejected']}
                raise Failure('raised:%s' % r.cls, 'duplicate labels raised %r' % r.exc, r.where)
            raise Failure('no-raise', 'Series concat with duplicate labels %s produced %s' % (short(labels), short(r)))
        if isinstance(r, Raised):
            raise Failure('raised:%s' % r.cls, '%s raised %r' % (what, r.exc), r.where)
        obs.expect_series(r, labels, vals, what)
        if what == 's_concat':
            _name_is(r, case, what)
        return {'nt': len(ss) >= 2, 'cls': [what]}
    if what == 's_overlay':
        # (values stay attached to the position they were drawn for; a hierarchy only reorders the rows of an input)
        ss = []
        for x in case['ins']:
            ixo, order = _overlay_index(case, x['pos'])
            vals = {p: v for p, v in zip(x['pos'], arr_list(x['values']))}
            arr = x['values'][[list(x['pos']).index(p) for p in order]] if len(order) else x['values']
            ss.append(sf.Series(arr, index=ixo))
        per = [{_hk(pool[p]): v for p, v in zip(x['pos'], arr_list(x['values']))} for x in case['ins']]
        labels_per = [[pool[p] for p in x['pos']] for x in case['ins']]
        if case['union']:
            labels = []
            for labs in labels_per:
                for l in labs:
                    if not any(eq(canon(l), canon(y)) for y in labels):
                        labels.append(l)
        else:
            labels = [l for l in labels_per[0] if all(any(eq(canon(l), canon(y)) for y in labs) for labs in labels_per[1:])]
        kw = {'union': case['union']}
        if case['explicit']:
            labels = list(pool)
            kw = {'index': sf.IndexHierarchy.from_labels(pool) if case.get('hier') else list(pool)}
        r = lib(lambda: sf.Series.from_overlay(ss, **kw, **nkw))
        if isinstance(r, Raised):
            raise Failure('raised:%s' % r.cls, 'Series.from_overlay raised %r' % r.exc, r.where)
        _name_is(r, case, what)
        got = {_hk(l): v for l, v in zip(obs.labels_of(r.index), arr_list(r.values))}
        if not same_multiset(list(got), [_hk(l) for l in labels]):
            raise Failure('labels', 'overlay labels %s expected %s' % (short(list(got)), short(labels)))
        for l in labels:
            w = None
            found = False
            for d in per:
                if _hk(l) in d and not is_missing(d[_hk(l)]):
                    w, found = d[_hk(l)], True
                    break
            g = got[_hk(l)]
            if found:
                if not eq(g, w):
                    raise Failure('value', 'overlay[%r] = %r expected first non-missing %r' % (l, g, w))
            elif not is_missing(g):
                raise Failure('value', 'overlay[%r] = %r but every input is missing there' % (l, g))
        return {'nt': len(ss) >= 2, 'cls': [what, 'union' if case['union'] else 'intersection', 'hier' if case.get('hier') else 'flat']}
    # frame overlay
    cpool = ['c0', 'c1', 'c2']
    fs = []
    per = []
    for x in case['ins']:
        idx = [pool[p] for p in x['pos']]
        cols = [cpool[p] for p in x['cpos']]
        tb = sf.TypeBlocks.from_blocks([gen.freeze(b) for b in x['blocks']], shape_reference=(len(idx), len(cols)))
        fr = sf.Frame(tb, index=idx if not case.get('hier') else sf.Index(idx, dtype=object) if idx else None, columns=cols, own_data=True)
        if case.get('hier') and idx:
            ixo, order = _overlay_index(case, x['pos'])
            fr = fr.iloc[[list(x['pos']).index(p) for p in order]].relabel(index=ixo)
        elif case.get('hier'):
            fr = fr.relabel(index=_overlay_index(case, [])[0])
        fs.append(fr)
        carr = gen.block_columns(x['blocks'])
        per.append({(_hk(r), c): arr_list(carr[j])[i] for j, c in enumerate(cols) for i, r in enumerate(idx)})
    r = lib(lambda: sf.Frame.from_overlay(fs, union=case['union'], **nkw))
    if isinstance(r, Raised):
        raise Failure('raised:%s' % r.cls, 'Frame.from_overlay raised %r' % r.exc, r.where)
    _name_is(r, case, what)
    gi, gc = obs.labels_of(r.index), obs.labels_of(r.columns)
    rcols = obs.frame_cols(r)

    def combine(lists):
        if case['union']:
            out = []
            for labs in lists:
                for l in labs:
                    if not any(eq(canon(l), canon(y)) for y in out):
                        out.append(l)
            return out
        return [l for l in lists[0] if all(any(eq(canon(l), canon(y)) for y in labs) for labs in lists[1:])]
    wi = combine([[pool[p] for p in x['pos']] for x in case['ins']])
    wc = combine([[cpool[p] for p in x['cpos']] for x in case['ins']])
    if not same_multiset(gi, [canon(x) for x in wi]) or not same_multiset(gc, wc):
        raise Failure('labels', 'overlay labels %s x %s expected %s x %s' % (short(gi), short(gc), short(wi), short(wc)))
    for j, c in enumerate(gc):
        for i, rr in enumerate(gi):
            g = arr_list(rcols[j])[i]
            w, found = None, False
            for d in per:
                if (_hk(rr), c) in d and not is_missing(d[(_hk(rr), c)]):
                    w, found = d[(_hk(rr), c)], True
                    break
            if found:
                if not eq(g, w):
                    raise Failure('value', 'overlay[%r,%r] = %r expected first non-missing %r' % (rr, c, g, w))
            elif not is_missing(g):
                raise Failure('value', 'overlay[%r,%r] = %r but every input is missing there' % (rr, c, g))
    return {'nt': len(fs) >= 2, 'cls': [what, 'union' if case['union'] else 'intersection', 'hier' if case.get('hier') else 'flat']}


# ---------------------------------------------------------------------------------------------
# index class and name of the result: inputs of one index class keep it, a mixture falls back to the plain Index; the
# labels (here: days, held by IndexDate or by a plain Index of the same datetime64 values) and cells are kept either way

@st.composite
def index_class_cases(draw):
    ch = {'what': draw(st.sampled_from(['series_concat', 'frame_concat_axis0', 'frame_concat_axis1_aligned', 'series_overlay'])),
          'union': draw(st.booleans())}
    k = draw(st.sampled_from([2, 3, 2]))
    ins = []
    day = 0
    for q in range(k):
        ln = draw(st.integers(1, 3))
        ins.append({'typed': draw(st.sampled_from([True, True, False])), 'name': draw(st.sampled_from([None, 'x', 'y', None])), 'start': day, 'len': ln,
                    'shared': draw(st.booleans())})
        day += ln
    return dict({'ins': ins}, **ch)


def _ic_index(spec, aligned):
    start = 0 if (aligned and spec['shared']) else spec['start']
    days = np.array([np.datetime64('2021-03-01') + (start + i) for i in range(spec['len'])], dtype='M8[D]')
    return (sf.IndexDate(days, name=spec['name']) if spec['typed'] else sf.Index(days, name=spec['name'])), [canon(d) for d in days]


def check_index_class(case):
    what = case['what']
    aligned = what in ('frame_concat_axis1_aligned', 'series_overlay')
    built = [_ic_index(x, aligned) for x in case['ins']]
    all_typed = all(x['typed'] for x in case['ins'])
    want_cls = 'IndexDate' if all_typed else 'Index'
    cells = {}
    if what == 'series_concat':
        ss = [sf.Series(np.arange(len(days)) + 10 * q, index=ix) for q, (ix, days) in enumerate(built)]
        r = lib(lambda: sf.Series.from_concat(ss))
        want_labels = [d for _, days in built for d in days]
        for q, (_, days) in enumerate(built):
            for i, d in enumerate(days):
                cells[repr(d)] = i + 10 * q
        got_index = None if isinstance(r, Raised) else r.index
        got = None if isinstance(r, Raised) else dict(zip([repr(x) for x in obs.labels_of(r.index)], arr_list(r.values)))
    elif what == 'frame_concat_axis0':
        fs = [sf.Frame((np.arange(len(days) * 2) + 100 * q).reshape(len(days), 2), index=ix, columns=('a', 'b')) for q, (ix, days) in enumerate(built)]
        r = lib(lambda: sf.Frame.from_concat(fs, axis=0))
        want_labels = [d for _, days in built for d in days]
        for q, (_, days) in enumerate(built):
            for i, d in enumerate(days):
                cells[repr(d)] = i * 2 + 100 * q
        got_index = None if isinstance(r, Raised) else r.index
        got = None if isinstance(r, Raised) else dict(zip([repr(x) for x in obs.labels_of(r.index)], arr_list(r['a'].values)))
    else:
        # the index is the aligned axis: union (or intersection) of the inputs' days
        sets = [days for _, days in built]
        if case['union'] or what == 'series_overlay':
            want_labels = []
            for days in sets:
                for d in days:
                    if not any(eq(d, x) for x in want_labels):
                        want_labels.append(d)
        else:
            want_labels = [d for d in sets[0] if all(any(eq(d, x) for x in o) for o in sets[1:])]
        if what == 'series_overlay':
            ss = [sf.Series(np.arange(len(days), dtype=float) + 10 * q, index=ix) for q, (ix, days) in enumerate(built)]
            r = lib(lambda: sf.Series.from_overlay(ss))
            for q, (_, days) in reversed(list(enumerate(built))):
                for i, d in enumerate(days):
                    cells[repr(d)] = float(i + 10 * q)
            got_index = None if isinstance(r, Raised) else r.index
            got = None if isinstance(r, Raised) else dict(zip([repr(x) for x in obs.labels_of(r.index)], arr_list(r.values)))
        else:
            fs = [sf.Frame((np.arange(len(days)) + 100 * q).reshape(len(days), 1), index=ix, columns=('c%d' % q,)) for q, (ix, days) in enumerate(built)]
            r = lib(lambda: sf.Frame.from_concat(fs, axis=1, union=case['union'], fill_value=-1))
            for i, d in enumerate(built[0][1]):
                cells[repr(d)] = i
            got_index = None if isinstance(r, Raised) else r.index
            got = None if isinstance(r, Raised) else dict(zip([repr(x) for x in obs.labels_of(r.index)], arr_list(r['c0'].values)))
            cells = {k: v for k, v in cells.items() if any(repr(d) == k for d in want_labels)}
    desc = '%s of %s' % (what, [('IndexDate' if x['typed'] else 'Index', x['name']) for x in case['ins']])
    dup = len({repr(d) for d in want_labels}) != len(want_labels)
    if isinstance(r, Raised):
        if dup and r.cls in INIT_ERRORS:
            return {'nt': False, 'cls': ['ic:' + what, 'ic-dup']}
        if not want_labels:
            raise Discard('empty result axis (listed zero-size class)')
        raise Failure('raised:%s' % r.cls, '%s raised %r' % (desc, r.exc), r.where)
    if dup:
        raise Failure('no-raise', '%s: duplicate labels accepted' % desc)
    gl = obs.labels_of(got_index)
    if not same_multiset(gl, want_labels) or (not aligned and not all(eq(a, b) for a, b in zip(gl, want_labels))):
        raise Failure('labels', '%s: labels %s expected %s' % (desc, short(gl), short(want_labels)))
    for k_, v in cells.items():
        if k_ not in got or not eq(got[k_], v):
            raise Failure('value', '%s: cell under %s is %r expected %r' % (desc, k_, got.get(k_), v))
    if type(got_index).__name__ != want_cls and want_labels:
        raise Failure('index-class', '%s: the result index is a %s, expected %s' % (desc, type(got_index).__name__, want_cls))
    names = {x['name'] for x in case['ins']}
    want_name = case['ins'][0]['name'] if len(names) == 1 else None
    if obs.canon_name(got_index.name) != obs.canon_name(want_name):
        raise Failure('index-name', '%s: the result index is named %r, expected %r' % (desc, got_index.name, want_name))
    return {'nt': not all_typed and case['ins'][0]['typed'], 'cls': ['ic:' + what, 'ic-all-typed' if all_typed else 'ic-mixed', 'ic-names:%d' % len(names)]}


def _expected_empty(case):
    """True when the concatenation / overlay result has no rows or no columns."""
    if 'inputs' in case:
        ins = case['inputs']
        if not ins:
            return True
        axis = case['axis']
        cat = sum(len(fi['rpos'] if axis == 0 else fi['cpos']) for fi in ins)
        sets = [set(fi['cpos'] if axis == 0 else fi['rpos']) for fi in ins]
        other = set.union(*sets) if case['union'] else set.intersection(*sets)
        return cat == 0 or not other
    ins = case['ins']
    rows = [set(x['pos']) for x in ins]
    r = set.union(*rows) if case['union'] or case['what'].startswith('s_concat') else set.intersection(*rows)
    if case['what'] == 'f_overlay':
        cols = [set(x['cpos']) for x in ins]
        c = set.union(*cols) if case['union'] else set.intersection(*cols)
        return not r or not c
    return not r


def _zero_sized_member(case):
    if 'inputs' in case:
        return any(not fi['rpos'] or not fi['cpos'] for fi in case['inputs'])
    return any(not x['pos'] or ('cpos' in x and not x['cpos']) for x in case['ins'])


def tag(case, f):
    if f.kind.startswith('raised:') and (_expected_empty(case) or _zero_sized_member(case)):
        return 'concat-or-overlay-with-zero-sized-member-or-result-raises'
    # axis 0, intersection with an empty column intersection
    if f.kind == 'raised:ErrorInitTypeBlocks' and not case.get('union', True) and case.get('form') in ('concat', 'items'):
        return 'concat-intersection-empty-raises'
    return None


SUBS = [
    Sub('frame_concat', concat_cases(), check_concat, quick=6000, thorough=48000, tag=tag,
        rule='Frame.from_concat / from_concat_items vs cell mapping model'),
    Sub('index_class', index_class_cases(), check_index_class, quick=1600, thorough=8000, tag=tag,
        rule='class and name of the result index: one class among the inputs is kept, a mixture gives the plain Index; day labels and cells kept either way'),
    Sub('series_overlay', series_cases(), check_series, quick=4800, thorough=24000, tag=tag,
        rule='Series.from_concat(_items), Series/Frame.from_overlay vs model'),
]
