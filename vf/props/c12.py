"""C12 — sorting permutes whole rows, orders the keys, and is stable.

Oracle: Python's stable sorted() over (key tuple, position); a descending sort must be exactly the
reverse of the ascending arrangement (statement).  NaN keys sort last ascending (NumPy order).
Rows are (label, row values) pairs: the result must be that permutation of whole rows with names,
opposite-axis labels and dtypes carried over.
"""
import math

import numpy as np
from hypothesis import strategies as st

from vf import gen, obs
from vf.base import Discard, Failure, Raised, arr_list, canon, eq, is_missing, lib, sf, short
from vf.harness import Sub

PID = 'C12'
RULE = ('Series/Frames whose sort keys are drawn from 2-4 value pools (many ties), sizes bimodal (<= 8 and 17..64 because an unstable sort only '
        'shows from n=17 for non-numeric keys on this NumPy), keys int/float(NaN)/str/bool/date/int8, 1-3 key columns or index depths, both axes, ascending/descending, key functions; '
        'non-trivial = a tie group of size >= 2 whose members differ in non-key cells')
ASSUMPTIONS = ['NaN keys are generated only in typed (float) key arrays; NaN sorts last in the ascending arrangement',
               'descending == exact reverse of the ascending arrangement, as the statement says']

KEY_KINDS = ('int64', 'float64', '<U2', 'bool', 'M8[D]', 'int8', 'float64nan')


def _key_pool(kind, draw):
    if kind == 'int64':
        return draw(st.lists(st.integers(-3, 3), min_size=2, max_size=4, unique=True))
    if kind == 'int8':
        return draw(st.lists(st.integers(-3, 3), min_size=2, max_size=4, unique=True))
    if kind in ('float64', 'float64nan'):
        p = draw(st.lists(st.sampled_from([-1.5, 0.0, 0.5, 2.0, -0.0, 3.25]), min_size=2, max_size=4, unique=True))
        return p + ([float('nan')] if kind == 'float64nan' else [])
    if kind == '<U2':
        return draw(st.lists(st.sampled_from(['a', 'b', 'B', 'aa', 'c', '']), min_size=2, max_size=4, unique=True))
    if kind == 'bool':
        return [True, False]
    return [np.datetime64(18000 + i, 'D') for i in draw(st.lists(st.integers(0, 5), min_size=2, max_size=4, unique=True))]


def _np_kind(kind):
    return 'float64' if kind == 'float64nan' else kind


@st.composite
def sizes(draw):
    return draw(st.one_of(st.integers(17, 40), st.integers(0, 8)))  # (the first alternative is favoured: sizes where unstable sorts differ)


@st.composite
def key_column(draw, n):
    kind = draw(st.sampled_from(KEY_KINDS))
    pool = _key_pool(kind, draw)
    vals = [pool[draw(st.integers(0, len(pool) - 1))] for _ in range(n)]
    return gen.to_array(_np_kind(kind), vals)


def _okey(x):
    """Total-order key for one sort value (NaN/NaT last)."""
    if is_missing(x):
        return (1, 0)
    if isinstance(x, np.datetime64):
        return (0, int(x.astype('M8[D]').astype(np.int64)))
    if isinstance(x, (bool, np.bool_)):
        return (0, int(x))
    return (0, x)


def expected_order(keycols, ascending):
    n = len(keycols[0]) if keycols else 0
    keys = [tuple(_okey(arr_list(c)[i]) for c in keycols) for i in range(n)]
    asc = sorted(range(n), key=lambda i: keys[i])
    return asc if ascending else asc[::-1]


def has_informative_tie(keycols, other_cols):
    n = len(keycols[0]) if keycols else 0
    groups = {}
    for i in range(n):
        groups.setdefault(tuple(repr(_okey(arr_list(c)[i])) for c in keycols), []).append(i)
    for g in groups.values():
        if len(g) >= 2:
            return True
    return False


# ---------------------------------------------------------------------------------------------

@st.composite
def frame_cases(draw):
    # decisive choices first (late draws are pinned to their first option for a share of Hypothesis's examples)
    what = draw(st.sampled_from(['sort_values', 'sort_values', 'sort_values_axis0', 'sort_index', 'sort_columns', 'sort_index_ih']))
    asc, consolidate = draw(st.booleans()), draw(st.booleans())
    keyfn = draw(st.sampled_from([None, 'abs', None, 'array', None, 'container_neg']))
    name = draw(st.sampled_from([None, 'fn']))
    ih_index = draw(st.integers(0, 11)) == 11   # rows labelled by a hierarchy (a sorted order that splits an outer label is a listed finding: 1 in 12)
    nk = draw(st.sampled_from([2, 1, 3]))
    n = draw(sizes())
    keycols = [draw(key_column(n)) for _ in range(nk)]
    extra = draw(st.integers(0, 2))
    payload = [np.arange(n) * 10 + q for q in range(extra + 1)]  # distinct per row: identifies whole rows
    order = draw(st.permutations(list(range(nk + extra + 1))))
    auto = False
    if what in ('sort_index', 'sort_columns'):
        kind = draw(st.sampled_from(['int', 'str', 'auto', 'float', 'date']))
        if kind == 'auto':  # no labels given: the axis is the automatic 0..n-1 index, only a key function can reorder it
            auto = True
            keycols = [np.arange(n, dtype=np.int64)]
        else:
            labs = draw(gen.flat_labels(n, kind))
            keycols = [gen.to_array({'int': 'int64', 'str': '<U3', 'float': 'float64', 'date': 'M8[D]'}[kind], labs)]
    elif what == 'sort_index_ih' and n:
        tl = draw(gen.tree_labels_n(n))
        depth = len(tl[0])
        keycols = []
        for d in range(depth):
            col = [t[d] for t in tl]
            k = 'M8[D]' if isinstance(col[0], np.datetime64) else ('<U3' if isinstance(col[0], str) else 'int64')
            keycols.append(gen.to_array(k, col))
    return {'what': what, 'keycols': keycols, 'payload': payload, 'order': list(order), 'asc': asc, 'keyfn': keyfn, 'consolidate': consolidate, 'name': name, 'auto': auto, 'ih_index': ih_index}


def _layout(cols, consolidate):
    return gen.layout_consolidated(cols) if consolidate else gen.layout_split(cols)


def check_frame(case):
    what = case['what']
    keycols, payload = case['keycols'], case['payload']
    n = len(payload[0])
    nk = len(keycols)
    asc = case['asc']
    keyfn = case['keyfn']
    numeric = all(c.dtype.kind in 'if' for c in keycols)
    if keyfn and not numeric:
        keyfn = None
    classes = ['what:' + what + ('/auto' if case.get('auto') else ''), 'asc' if asc else 'desc', 'keys:%d' % nk, 'keyfn:%s' % keyfn, 'n>16' if n > 16 else 'n<=8',
               'keykind:' + '/'.join(sorted({c.dtype.kind for c in keycols}))]

    def fn_keys(cols):
        if keyfn == 'abs':
            return [np.abs(c) for c in cols]
        if keyfn == 'array':
            return [np.abs(c) % 2 for c in cols]
        if keyfn == 'container_neg':
            return [-c for c in cols]
        return cols

    if what in ('sort_values', 'sort_index', 'sort_index_ih'):
        if what == 'sort_values':
            allcols = keycols + payload
            cols = [allcols[i] for i in case['order']]
            labels = ['c%d' % i for i in case['order']]  # c0..c{nk-1} are the keys
            key_labels = ['c%d' % i for i in range(nk)]
            rix = ['r%d' % i for i in range(n)]
            if case.get('ih_index') and n:
                rix = sf.IndexHierarchy.from_labels([('g%d' % (i * 2 // n), i) for i in range(n)])
                classes.append('rows:hierarchy')
            f = sf.Frame(sf.TypeBlocks.from_blocks([gen.freeze(b) for b in _layout(cols, case['consolidate'])], shape_reference=(n, len(cols))),
                         index=rix, columns=labels, name=case['name'], own_data=True)
            kf = None
            if keyfn == 'abs':
                kf = lambda x: abs(x)
            elif keyfn == 'array':
                kf = lambda x: np.abs(x.values) % 2
            elif keyfn == 'container_neg':
                kf = lambda x: -x
            lab = key_labels if nk > 1 else (key_labels[0] if case['consolidate'] else key_labels)
            r = lib(lambda: f.sort_values(lab, ascending=asc, key=kf))
            exp = expected_order(fn_keys(keycols), asc)
            row_labels = obs.labels_of(f.index)
        else:
            # keys live in the index (flat for one key, hierarchical for several)
            if what == 'sort_index' or nk == 1:
                kc = keycols[:1]
                # index labels must be unique: pair the key with a running position in a tuple-free way
                raise_dup = len({repr(_okey(x)) for x in arr_list(kc[0])}) != n
                if raise_dup or any(is_missing(x) for x in arr_list(kc[0])):
                    raise Discard('index labels must be unique and not NaN')
                ix = None if case.get('auto') else (sf.Index(kc[0]) if kc[0].dtype.kind != 'M' else sf.IndexDate(kc[0]))
                use_keys = kc
            else:
                tuples = list(zip(*[arr_list(c) for c in keycols]))
                if any(is_missing(x) for t in tuples for x in t) or len({repr([_okey(x) for x in t]) for t in tuples}) != n or not gen.is_tree_order(tuples):
                    raise Discard('hierarchical labels must be a unique tree')
                ix = gen.build_index({'kind': 'ih', 'labels': tuples})
                use_keys = keycols
            pcols = payload
            f = sf.Frame(sf.TypeBlocks.from_blocks([gen.freeze(b) for b in _layout(pcols, case['consolidate'])], shape_reference=(n, len(pcols))),
                         index=ix, columns=['p%d' % q for q in range(len(pcols))], name=case['name'], own_data=True)
            kf = None
            if keyfn and len(use_keys) == 1:
                if keyfn == 'abs':
                    kf, use_keys = (lambda i: np.abs(i.values)), fn_keys(use_keys)
                elif keyfn == 'array':
                    kf, use_keys = (lambda i: np.abs(i.values) % 2), fn_keys(use_keys)
                else:
                    kf, use_keys = (lambda i: -i), fn_keys(use_keys)
            r = lib(lambda: f.sort_index(ascending=asc, key=kf))
            exp = expected_order(use_keys, asc)
            row_labels = obs.labels_of(f.index)
            cols, labels = pcols, ['p%d' % q for q in range(len(pcols))]
        if isinstance(r, Raised):
            raise Failure('raised:%s' % r.cls, '%s raised %r' % (what, r.exc), r.where)
        want_labels = [row_labels[i] for i in exp]
        want_cols = [[arr_list(c)[i] for i in exp] for c in cols]
        obs.LOOSE_MISSING[0] = True
        obs.expect_frame(r, want_labels, labels, want_cols, what, dtypes=[c.dtype for c in cols], name=case['name'])
        # the class of the row axis (per depth for a hierarchy) is carried over
        def _ax_classes(ax):
            return [t.__name__ for t in ax.index_types.values] if ax.depth > 1 else [type(ax).__name__]
        if _ax_classes(r.index) != _ax_classes(f.index):
            raise Failure('index-class', '%s: index classes %s became %s' % (what, _ax_classes(f.index), _ax_classes(r.index)))
        keys_used = fn_keys(keycols) if what == 'sort_values' else use_keys
    elif what == 'sort_values_axis0':
        # columns ordered by the values of key rows; every row shares one dtype so row extraction keeps it
        kind = keycols[0].dtype
        rows = [c for c in keycols if c.dtype == kind]
        m = n
        data_rows = rows + [np.arange(m).astype(kind) if kind.kind in 'if' else None]
        data_rows = [x for x in data_rows if x is not None]
        arr = np.vstack(data_rows) if m else np.empty((len(data_rows), 0), dtype=kind)
        f = sf.Frame(gen.freeze(arr), index=['k%d' % i for i in range(len(data_rows))], columns=['c%d' % j for j in range(m)], name=case['name'])
        lab = ['k%d' % i for i in range(len(rows))]
        r = lib(lambda: f.sort_values(lab if len(rows) > 1 else lab[0], ascending=asc, axis=0))
        if isinstance(r, Raised):
            raise Failure('raised:%s' % r.cls, 'sort_values(axis=0) raised %r' % r.exc, r.where)
        exp = expected_order(rows, asc)
        want_cols = [arr_list(arr[:, j]) for j in exp]
        obs.LOOSE_MISSING[0] = True
        obs.expect_frame(r, ['k%d' % i for i in range(len(data_rows))], ['c%d' % j for j in exp], want_cols, what, name=case['name'])
        keys_used = rows
    else:  # sort_columns
        kc = keycols[0]
        if len({repr(_okey(x)) for x in arr_list(kc)}) != n or any(is_missing(x) for x in arr_list(kc)):
            raise Discard('column labels must be unique and not NaN')
        arr = np.arange(2 * n).reshape(2, n)
        cix = None if case.get('auto') else (sf.Index(kc) if kc.dtype.kind != 'M' else sf.IndexDate(kc))
        f = sf.Frame(gen.freeze(arr), index=('x', 'y'), columns=cix, name=case['name'])
        kf, use = None, [kc]
        if keyfn == 'abs':
            kf, use = (lambda i: np.abs(i.values)), fn_keys(use)
        elif keyfn == 'array':
            kf, use = (lambda i: np.abs(i.values) % 2), fn_keys(use)
        elif keyfn:
            kf, use = (lambda i: -i), fn_keys(use)
        r = lib(lambda: f.sort_columns(ascending=asc, key=kf))
        if isinstance(r, Raised):
            raise Failure('raised:%s' % r.cls, 'sort_columns raised %r' % r.exc, r.where)
        exp = expected_order(use, asc)
        kc = use[0]
        obs.expect_frame(r, ['x', 'y'], [obs.labels_of(f.columns)[j] for j in exp], [arr_list(arr[:, j]) for j in exp], what, name=case['name'])
        keys_used = [kc]
    nt = has_informative_tie(keys_used, None) and n >= 2
    if nt and n > 16:
        classes.append('ties&n>16')
    return {'nt': nt, 'cls': classes}


# ---------------------------------------------------------------------------------------------

@st.composite
def series_cases(draw):
    ch = {'what': draw(st.sampled_from(['sort_values', 'sort_values', 'sort_index'])), 'asc': draw(st.booleans()),
          'keyfn': draw(st.sampled_from([None, 'abs', None, 'array'])), 'name': draw(st.sampled_from([None, 'sn'])),
          'auto': draw(st.integers(0, 3)) == 3, 'ih_index': draw(st.integers(0, 11)) == 11}  # decisive choices first
    n = draw(sizes())
    if ch['auto'] and ch['what'] == 'sort_index':
        return dict({'vals': np.arange(n, dtype=np.int64)}, **ch)
    return dict({'vals': draw(key_column(n))}, **ch)


def check_series(case):
    vals = case['vals']
    n = len(vals)
    asc = case['asc']
    keyfn = case['keyfn'] if vals.dtype.kind in 'if' else None
    if case['what'] == 'sort_values':
        rix = ['r%d' % i for i in range(n)]
        if case.get('ih_index') and n:
            rix = sf.IndexHierarchy.from_labels([('g%d' % (i * 2 // n), i) for i in range(n)])
        s = sf.Series(gen.freeze(vals), index=rix, name=case['name'])
        kf, keys = None, [vals]
        if keyfn == 'abs':
            kf, keys = (lambda x: abs(x)), [np.abs(vals)]
        elif keyfn == 'array':
            kf, keys = (lambda x: np.abs(x.values) % 2), [np.abs(vals) % 2]
        r = lib(lambda: s.sort_values(ascending=asc, key=kf))
        exp = expected_order(keys, asc)
        want_labels, want_vals = [obs.labels_of(s.index)[i] for i in exp], [arr_list(vals)[i] for i in exp]
    else:
        if len({repr(_okey(x)) for x in arr_list(vals)}) != n or any(is_missing(x) for x in arr_list(vals)):
            raise Discard('index labels must be unique and not NaN')
        ix = None if case.get('auto') else (sf.Index(vals) if vals.dtype.kind != 'M' else sf.IndexDate(vals))
        s = sf.Series(np.arange(n) * 10, index=ix, name=case['name'])
        kf, keys = None, [vals]
        if keyfn == 'abs':
            kf, keys = (lambda i: np.abs(i.values)), [np.abs(vals)]
        elif keyfn == 'array':
            kf, keys = (lambda i: np.abs(i.values) % 2), [np.abs(vals) % 2]
        r = lib(lambda: s.sort_index(ascending=asc, key=kf))
        exp = expected_order(keys, asc)
        want_labels, want_vals = [obs.labels_of(s.index)[i] for i in exp], [i * 10 for i in exp]
    if isinstance(r, Raised):
        raise Failure('raised:%s' % r.cls, 'Series.%s raised %r' % (case['what'], r.exc), r.where)
    obs.LOOSE_MISSING[0] = True
    obs.expect_series(r, want_labels, want_vals, 'Series.' + case['what'], name=case['name'], dtype=s.values.dtype)
    nt = has_informative_tie(keys, None) and n >= 2
    return {'nt': nt, 'cls': ['series:' + case['what'], 'asc' if asc else 'desc', 's-keykind:' + vals.dtype.kind, 'n>16' if n > 16 else 'n<=8'] + (['s-ties&n>16'] if nt and n > 16 else [])}


# ---------------------------------------------------------------------------------------------
# sort_columns on a grow-only Frame that grew after its column labels had been read

@st.composite
def go_column_cases(draw):
    ch = {'hier': draw(st.booleans()), 'asc': draw(st.booleans()), 'read': draw(st.sampled_from(['values', 'none', 'iter', 'sort', 'display'])),
          'extend': draw(st.booleans()), 'name': draw(st.sampled_from([None, 'fn']))}
    m = draw(st.sampled_from([4, 3, 5, 2, 6]))
    if ch['hier']:
        labels = draw(gen.tree_labels_n(m))
    else:
        labels = list(draw(st.permutations(['c%d' % j for j in range(m)])))
    split = draw(st.integers(1, m - 1))
    return dict({'labels': labels, 'split': split}, **ch)


def check_go_columns(case):
    labels, split = case['labels'], case['split']
    m = len(labels)
    hier = case['hier']
    data = np.arange(2 * m).reshape(2, m)
    cix = sf.IndexHierarchy.from_labels(labels[:split]) if hier else sf.Index(labels[:split])
    f = sf.FrameGO(gen.freeze(data[:, :split]), index=('x', 'y'), columns=cix, name=case['name'])
    # the labels are read once (their arrays are now cached), then the frame grows, then it is sorted at once
    if case['read'] == 'values':
        f.columns.values
    elif case['read'] == 'iter':
        list(f.columns)
    elif case['read'] == 'sort':
        f.sort_columns()
    elif case['read'] == 'display':
        repr(f)
    # (extend of hierarchical columns takes whole new outer labels only; otherwise the columns are set one by one)
    can_extend = not hier or not ({l[0] for l in labels[:split]} & {l[0] for l in labels[split:]})
    if case['extend'] and m - split >= 1 and can_extend:
        ext = sf.Frame(gen.freeze(data[:, split:]), index=('x', 'y'), columns=sf.IndexHierarchy.from_labels(labels[split:]) if hier else sf.Index(labels[split:]))
        g = lib(f.extend, ext)
    else:
        g = None
        for j in range(split, m):
            g = lib(f.__setitem__, labels[j], data[:, j])
            if isinstance(g, Raised):
                break
    if isinstance(g, Raised):
        raise Failure('raised:%s' % g.cls, 'growing the frame raised %r' % g.exc, g.where)
    r = lib(lambda: f.sort_columns(ascending=case['asc']))
    if isinstance(r, Raised):
        raise Failure('raised:%s' % r.cls, 'sort_columns on the grown frame raised %r' % r.exc, r.where)
    keycols = [gen.to_array('object', [l[d] for l in labels]) for d in range(len(labels[0]))] if hier else [gen.to_array('<U3', labels)]
    exp = expected_order(keycols, case['asc'])
    obs.expect_frame(r, ['x', 'y'], [canon(labels[j]) for j in exp], [arr_list(data[:, j]) for j in exp], 'sort_columns (grown FrameGO)', name=case['name'])
    return {'nt': m - split >= 1 and case['read'] != 'none', 'cls': ['go-columns:' + ('hier' if hier else 'flat'), 'read:' + case['read'], 'extend' if case['extend'] else 'setitem']}


def tag(case, f):
    if f.kind == 'raised:StopIteration' and case.get('what') == 'sort_values_axis0' and len(case['payload'][0]) == 0:
        return 'sort-values-axis0-on-zero-columns-raises-stopiteration'
    # rows labelled by a hierarchy: an IndexHierarchy only holds labels in tree form, so a sorted order that separates the
    # rows of one outer label cannot be built
    if f.kind == 'raised:ErrorInitIndex' and case.get('ih_index') and 'invalid tree-form' in f.detail and case.get('what') == 'sort_values':
        return 'sort-values-order-splitting-a-hierarchy-outer-label-raises'
    return None


SUBS = [
    Sub('frame', frame_cases(), check_frame, quick=6000, thorough=48000, tag=tag,
        rule='Frame sort_values / sort_index / sort_columns vs stable sorted(); descending == reverse'),
    Sub('go_columns', go_column_cases(), check_go_columns, quick=1200, thorough=8000, tag=tag,
        rule='FrameGO.sort_columns straight after growth (labels read before) vs sorted(); flat and hierarchical columns'),
    Sub('series', series_cases(), check_series, quick=4800, thorough=32000, tag=tag,
        rule='Series sort_values / sort_index vs stable sorted()'),
]
