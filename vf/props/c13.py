"""C13 — grouping partitions the container; windows cover it as specified.

groups:  partition oracle — the multiset of (label, row) over all groups equals the input, every
         member's key equals the group key, group keys are pairwise distinct, within-group order
         and labels are those of the input; apply gives one result per group labelled by the key.
windows: reference enumeration from the documented arguments (anchor = right edge + label_shift,
         contiguous slice of the current size, dropped when the label is out of range or the size
         differs under window_sized).
"""
import numpy as np
from hypothesis import strategies as st

from vf import gen, obs
from vf.base import Discard, Failure, Raised, arr_list, canon, eq, is_missing, lib, sf, short
from vf.harness import Sub

PID = 'C13'
RULE = ('Series/Frames whose key column(s)/row(s)/label depths hold 1..n distinct values (single group, all distinct, int/float/str/bool/date/object/mixed-object keys), '
        '1-2 key columns, both axes, label-depth grouping on hierarchical indices, all layouts; windows over size 1..4, step 0..3, label_shift -3..2, start_shift -2..2, '
        'size_increment 0..2, window_sized on/off, both axes, as_array; non-trivial = >= 2 groups with a group of >= 2 non-adjacent members, or >= 2 windows')
ASSUMPTIONS = ['the order in which groups are yielded is not compared (unspecified)', 'NaN group keys are a separate, excluded class (equality-based grouping of NaN is undefined)']

KEY_KINDS = ('int64', 'float64', '<U2', 'bool', 'M8[D]', 'object_str', 'object_mixed')


def _hk(x):
    c = canon(x)
    if isinstance(c, np.datetime64):
        return ('dt', str(c))
    if isinstance(c, tuple):
        return tuple(_hk(y) for y in c)
    if isinstance(c, str):
        return ('s', c)
    if isinstance(c, (bool, int, float)):
        # Python equality: True == 1 == 1.0 are one key
        return ('n', float(c) if float(c) == c else c)
    if c is None:
        return ('none',)
    import datetime as _dt
    if isinstance(c, _dt.date):
        return ('dt', c.isoformat())
    return ('o', repr(c))


@st.composite
def key_column(draw, n):
    kind = draw(st.sampled_from(KEY_KINDS))
    # (several key columns of unlike kinds are compared as tuples: 1 with '1a' and 11 with 'a' are different keys)
    pools = {'int64': [0, 1, 11, -3, 7], 'float64': [0.0, 0.5, -1.5, 2.0], '<U2': ['a', '1a', 'c', '1'], 'bool': [True, False],
             'M8[D]': [np.datetime64(18000 + i, 'D') for i in range(4)], 'object_str': ['x', 'y', 'z'],
             'object_mixed': [1, 'a', None, 2.5, True]}
    pool = pools[kind]
    k = draw(st.integers(1, len(pool)))
    sub = draw(st.permutations(pool))[:k]
    vals = [sub[draw(st.integers(0, k - 1))] for _ in range(n)]
    npk = 'object' if kind.startswith('object') else kind
    return gen.to_array(npk, vals), kind


@st.composite
def group_cases(draw):
    # decisive choices first (late draws are pinned to their first option for a share of Hypothesis's examples)
    what = draw(st.sampled_from(['frame', 'frame', 'frame_axis1', 'series', 'labels', 'apply', 'frame_array', 'go_axis_apply']))
    pos, depths = draw(st.integers(0, 3)), draw(st.sampled_from([[0], [1], [0, 1], [1, 0], [0, 0], [-1, 0], [1, 1], [-1]]))
    go = draw(st.sampled_from([False, True, False]))
    axis1_list = draw(st.booleans())
    axis1_mixed = draw(st.integers(0, 2)) == 2
    nk = draw(st.sampled_from([1, 2, 1]))
    n = draw(st.sampled_from([4, 3, 6, 2, 1, 0, 5, 7, 8, 9]))
    keys = [draw(key_column(n)) for _ in range(nk)]
    if draw(st.integers(0, 5)) == 5 and n >= 2:
        # two key columns of unlike kinds whose values are distinct as tuples but alike when written one after the other
        # ((1, '1a') / (11, 'a'); ('a', 'b1') / ('ab', '1')): compared as tuples they are different keys
        if draw(st.booleans()):
            k0 = gen.to_array('int64', [draw(st.sampled_from([1, 11])) for _ in range(n)])
            k1 = gen.to_array('<U2', [draw(st.sampled_from(['1a', 'a'])) for _ in range(n)])
            keys = [(k0, 'int64'), (k1, '<U2')]
        else:
            k0 = gen.to_array('<U2', [draw(st.sampled_from(['a', 'ab'])) for _ in range(n)])
            k1 = gen.to_array('object', [draw(st.sampled_from(['b1', 1])) for _ in range(n)])
            keys = [(k0, '<U2'), (k1, 'object_str')]
        if draw(st.booleans()):
            keys = keys[::-1]
    extra = draw(st.integers(1, 3))
    payload = draw(gen.blocks(n, extra, kinds=('int64', 'float64', '<U3', 'bool', 'object'), missing=False))
    # key row over columns of unlike dtypes, none of them object (the row resolves to object; no two cells collide as strings)
    mixed_cells = [draw(st.sampled_from([('int64', 1), ('<U1', 'a'), ('int64', 2), ('<U1', 'b'), ('float64', 2.5), ('int64', 3), ('<U1', 'c'), ('float64', 0.5)]))
                   for _ in range(n)] if (what == 'frame_axis1' and axis1_mixed) else None
    return {'what': what, 'mixed_cells': mixed_cells, 'keys': [k[0] for k in keys], 'kinds': [k[1] for k in keys], 'payload': payload, 'pos': pos,
            'index': draw(gen.index_recipe(n, ('auto', 'int', 'str', 'date', 'ih'))), 'depths': depths, 'go': go, 'axis1_list': axis1_list}


def _partition_check(groups, n, key_of, member_positions, what):
    """groups: list of (key, [positions in yielded order])."""
    seen_keys = []
    covered = []
    for gk, members in groups:
        hk = _hk(gk)
        if hk in seen_keys:
            raise Failure('duplicate-key', '%s: group key %r yielded twice' % (what, gk))
        seen_keys.append(hk)
        if not members:
            raise Failure('empty-group', '%s: empty group for key %r' % (what, gk))
        for p in members:
            if _hk(key_of(p)) != hk:
                raise Failure('wrong-member', '%s: member at position %d has key %r but is in group %r' % (what, p, key_of(p), gk))
        if members != sorted(members):
            raise Failure('order', '%s: group %r members out of input order: %s' % (what, gk, members))
        covered.extend(members)
    if sorted(covered) != list(range(n)):
        raise Failure('partition', '%s: groups cover positions %s, expected each of 0..%d exactly once' % (what, sorted(covered), n - 1))


def check_groups(case):
    what = case['what']
    keys = case['keys']
    n = len(keys[0])
    payload_cols = gen.block_columns(case['payload'])
    classes = ['g:' + what, 'nk:%d' % len(keys)] + ['kk:' + k for k in case['kinds']]
    if any(is_missing(x) and x is not None for k in keys for x in arr_list(k)):
        raise Discard('NaN key')
    uid = np.arange(n) * 1000 + 7  # a unique payload column identifies each row

    def key_tuple(p):
        t = tuple(arr_list(k)[p] for k in keys)
        return t if len(keys) > 1 else t[0]

    if what == 'go_axis_apply':
        # apply() over the rows / columns of a grow-only frame yields one result per label, exactly as for its static form
        if n == 0:
            raise Discard('no rows')
        labels = ['p%d' % q for q in range(len(payload_cols))]
        go = sf.FrameGO.from_items(zip(labels, [gen.freeze(c) for c in payload_cols]), index=gen.build_index(case['index'], for_frame=True))
        go['grown'] = uid
        st_ = go.to_frame()
        for axis in (0, 1):
            for nm in ('iter_array', 'iter_series', 'iter_tuple'):
                kw = {'axis': axis} if nm != 'iter_tuple' else {'axis': axis, 'constructor': tuple}
                a = lib(lambda: getattr(st_, nm)(**kw).apply(len))
                b = lib(lambda: getattr(go, nm)(**kw).apply(len))
                if isinstance(a, Raised):
                    raise Discard('static form raised: %s' % a.cls)
                if isinstance(b, Raised):
                    raise Failure('raised:%s' % b.cls, 'FrameGO.%s(axis=%d).apply raised %r; the static frame returns %s' % (nm, axis, b.exc, short(obs.snap(a), 120)), b.where)
                if obs.snap(a) != obs.snap(b):
                    raise Failure('apply-labels', 'FrameGO.%s(axis=%d).apply -> %s; static frame -> %s' % (nm, axis, short(obs.snap(b), 200), short(obs.snap(a), 200)))
        return {'nt': n >= 1, 'cls': classes}
    if what in ('frame', 'apply', 'frame_array'):
        cols = [uid] + list(payload_cols)
        labels = ['uid'] + ['p%d' % q for q in range(len(payload_cols))]
        pos = case['pos'] % (len(cols) + 1)
        for q, k in enumerate(keys):
            cols.insert(min(pos + q, len(cols)), k)
            labels.insert(min(pos + q, len(labels)), 'k%d' % q)
        blocks = gen.layout_consolidated(cols) if case['pos'] % 2 else gen.layout_split(cols)
        f = sf.Frame(sf.TypeBlocks.from_blocks([gen.freeze(b) for b in blocks], shape_reference=(n, len(cols))),
                     index=gen.build_index(case['index'], for_frame=True), columns=labels, own_data=True)
        klabels = ['k%d' % q for q in range(len(keys))]
        key = klabels if len(keys) > 1 else klabels[0]
        row_labels = obs.labels_of(f.index)
        go = bool(case.get('go')) and what == 'frame'
        if go:
            # a grow-only source: the groups are materialised, then the source and the first group grow a column; every
            # group must keep the columns it was yielded with (labels and order kept within a group), and the source its own
            f = f.to_frame_go()
            classes.append('go-source')
        if what == 'apply':
            r = lib(lambda: f.iter_group(key).apply(lambda g: g['uid'].sum()))
            if isinstance(r, Raised):
                raise Failure('raised:%s' % r.cls, 'iter_group(%r).apply raised %r' % (key, r.exc), r.where)
            want = {}
            for p in range(n):
                want[_hk(key_tuple(p))] = want.get(_hk(key_tuple(p)), 0) + int(uid[p])
            got_labels = obs.labels_of(r.index)
            got = {_hk(l): v for l, v in zip(got_labels, arr_list(r.values))}
            if len(got_labels) != len(want) or set(got) != set(want):
                raise Failure('apply-labels', 'apply over groups: labels %s expected keys %s' % (short(got_labels), short(sorted(want, key=repr))))
            for k_, v in want.items():
                if not eq(got[k_], v):
                    raise Failure('apply-value', 'apply over groups: key %r -> %r expected %r' % (k_, got[k_], v))
            return {'nt': len(want) >= 2, 'cls': classes}
        if what == 'frame_array':
            if len(keys) > 1:
                raise Discard('array form with one key only')
            r = lib(lambda: list(f.iter_group_array_items(key)) if hasattr(f, 'iter_group_array_items') else None)
            if r is None:
                raise Discard('no array form in this version')
        else:
            r = lib(lambda: list(f.iter_group_items(key)))
        if isinstance(r, Raised):
            raise Failure('raised:%s' % r.cls, 'iter_group_items(%r) raised %r' % (key, r.exc), r.where)
        groups = []
        uid_pos = labels.index('uid')
        grown_group = None
        if go:
            f['zz_src'] = uid
            if r and isinstance(r[0][1], sf.FrameGO):
                grown_group = r[0][1]
                grown_group['zz_g0'] = np.arange(len(grown_group.index))
            if obs.labels_of(f.columns) != [canon(x) for x in labels + ['zz_src']]:
                raise Failure('labels', 'grow-only source has columns %s after it and one of its groups grew a column; expected %s' % (
                    short(obs.labels_of(f.columns)), short(labels + ['zz_src'])))
        for gk, g in r:
            if go:
                wantc = [canon(x) for x in labels + (['zz_g0'] if g is grown_group else [])]
                if obs.labels_of(g.columns) != wantc or g.shape[1] != len(wantc):
                    raise Failure('labels', 'group %r of a grow-only frame has columns %s shape %s after the source%s grew a column; expected %s' % (
                        gk, short(obs.labels_of(g.columns)), g.shape, ' and a sibling group' if grown_group is not None and g is not grown_group else '', short(wantc)))
                if g is grown_group:
                    g = g[labels]
            if what == 'frame_array':
                members = [int(x) // 1000 for x in arr_list(g[:, uid_pos])]
            else:
                if not isinstance(g, sf.Frame):
                    raise Failure('kind', 'group is %s' % short(g))
                members = [int(x) // 1000 for x in arr_list(g['uid'].values)]
                gl = obs.labels_of(g.index)
                if gl != [row_labels[p] for p in members]:
                    raise Failure('labels', 'group %r row labels %s expected %s' % (gk, short(gl), short([row_labels[p] for p in members])))
                if obs.labels_of(g.columns) != [canon(x) for x in labels]:
                    raise Failure('labels', 'group %r columns %s' % (gk, short(obs.labels_of(g.columns))))
                gcols = obs.frame_cols(g)
                for j, c in enumerate(cols):
                    wv = [arr_list(c)[p] for p in members]
                    if not all(eq(a, b) or (is_missing(a) and is_missing(b)) for a, b in zip(arr_list(gcols[j]), wv)):
                        raise Failure('value', 'group %r column %r holds %s expected %s' % (gk, labels[j], short(gcols[j]), short(wv)))
            groups.append((tuple(gk) if isinstance(gk, (tuple, np.ndarray)) and len(keys) > 1 else gk, members))
        _partition_check(groups, n, key_tuple, None, 'Frame.iter_group_items(%r)' % (key,))
    elif what == 'frame_axis1':
        # group columns by the values of one key row
        k = keys[0]
        m = n
        if case.get('mixed_cells') and m >= 1:
            # one key row over columns of unlike non-object dtypes, addressed by its label or by a list of that one label
            cells = case['mixed_cells']
            mkey = ['key'] if case.get('axis1_list') else 'key'
            pad = {'int64': 7, '<U1': 'z', 'float64': 9.5}
            f = sf.Frame.from_items([('c%d' % j, gen.freeze(np.array([v, pad[dt]], dtype=dt))) for j, (dt, v) in enumerate(cells)], index=('key', 'pad'))
            if case.get('go'):
                f = f.to_frame_go()
                classes.append('go-source')
            r = lib(lambda: list(f.iter_group_items(mkey, axis=1)))
            if isinstance(r, Raised):
                raise Failure('raised:%s' % r.cls, "iter_group_items(%r, axis=1) over columns of dtypes %s raised %r" % (mkey, sorted({dt for dt, _ in cells}), r.exc), r.where)
            groups = []
            for gk, g in r:
                if isinstance(gk, tuple) and len(gk) == 1 and isinstance(mkey, list):
                    gk = gk[0]
                if not isinstance(g, sf.Frame):
                    raise Failure('kind', 'axis-1 group is %s' % short(g))
                members = [int(str(c)[1:]) for c in obs.labels_of(g.columns)]
                if obs.labels_of(g.index) != obs.labels_of(f.index):
                    raise Failure('labels', 'axis-1 group %r index %s' % (gk, short(obs.labels_of(g.index))))
                gcols = obs.frame_cols(g)
                for q, p in enumerate(members):
                    if not (0 <= p < m):
                        raise Failure('labels', 'axis-1 group %r holds column c%d' % (gk, p))
                    want = [cells[p][1], pad[cells[p][0]]]
                    if not all(eq(a, b) for a, b in zip(arr_list(gcols[q]), want)) or len(arr_list(gcols[q])) != 2:
                        raise Failure('value', 'axis-1 group %r column c%d holds %s expected %s' % (gk, p, short(gcols[q]), short(want)))
                    if np.dtype(gcols[q].dtype) != np.dtype(cells[p][0]):
                        raise Failure('dtype', 'axis-1 group %r column c%d has dtype %s expected %s' % (gk, p, gcols[q].dtype, cells[p][0]))
                groups.append((gk, members))
            _partition_check(groups, m, lambda p: cells[p][1], None, "Frame.iter_group_items('key', axis=1) over mixed column dtypes")
            return {'nt': m >= 2 and len({dt for dt, _ in cells}) >= 2, 'cls': ['g:frame_axis1', 'axis1-mixed-dtypes', 'axis1-mixed-key:' + type(mkey).__name__, 'axis1-mixed-kinds:%d' % len({dt for dt, _ in cells})]}
        if len(keys) > 1 or k.dtype == object:
            # several key rows (or an object key row): the rows consolidate to an object frame; columns are identified by label
            nk = len(keys)
            arr = np.empty((nk + 1, m), dtype=object)
            for q, kk in enumerate(keys):
                arr[q, :] = arr_list(kk)
            arr[nk, :] = list(range(m))
            names = ['key%d' % q for q in range(nk)]
            f = sf.Frame(gen.freeze(arr), index=names + ['uid'], columns=['c%d' % j for j in range(m)])
            gkey = names if nk > 1 else names[0]
            if case.get('go'):
                f = f.to_frame_go()
                classes.append('go-source')
            r = lib(lambda: list(f.iter_group_items(gkey, axis=1)))
            if isinstance(r, Raised):
                raise Failure('raised:%s' % r.cls, 'iter_group_items(%r, axis=1) raised %r' % (gkey, r.exc), r.where)
            groups = []
            for gk, g in r:
                members = [int(str(c)[1:]) for c in obs.labels_of(g.columns)]
                if obs.labels_of(g.index) != obs.labels_of(f.index):
                    raise Failure('labels', 'axis-1 group %r index %s' % (gk, short(obs.labels_of(g.index))))
                for q2, p in enumerate(members):
                    for q in range(nk):
                        if not eq(g.values[q][q2], arr_list(keys[q])[p]):
                            raise Failure('value', 'axis-1 group %r column c%d key cell %r' % (gk, p, g.values[q][q2]))
                groups.append((tuple(gk) if nk > 1 else gk, members))
            key_of = (lambda p: tuple(arr_list(kk)[p] for kk in keys)) if nk > 1 else (lambda p: arr_list(k)[p])
            _partition_check(groups, m, key_of, None, 'Frame.iter_group_items(%r, axis=1)' % (gkey,))
            return {'nt': m >= 2 and len(groups) >= 1, 'cls': ['g:frame_axis1', 'axis1-object-rows', 'nk:%d' % nk]}
        rows = [k, (np.arange(m) * 1000 + 7).astype(k.dtype) if k.dtype.kind in 'if' else None]
        if rows[1] is None:
            # keep a typed key row above an int uid row: two 1-row frames cannot share a dtype, so use column labels as ids
            arr = k.reshape(1, m)
            f = sf.Frame(gen.freeze(arr), index=('key',), columns=['c%d' % j for j in range(m)])
        else:
            arr = np.vstack(rows)
            f = sf.Frame(gen.freeze(arr), index=('key', 'uid'), columns=['c%d' % j for j in range(m)])
        gkey = ['key'] if case.get('axis1_list') else 'key'  # (a list of one key row: the key may come back as a 1-tuple)
        if case.get('go'):
            f = f.to_frame_go()
            classes.append('go-source')
        r = lib(lambda: list(f.iter_group_items(gkey, axis=1)))
        if isinstance(r, Raised):
            raise Failure('raised:%s' % r.cls, "iter_group_items(%r, axis=1) raised %r" % (gkey, r.exc), r.where)
        groups = []
        classes.append('axis1-key:' + type(gkey).__name__)
        for gk, g in r:
            if isinstance(gk, tuple) and len(gk) == 1 and isinstance(gkey, list):
                gk = gk[0]
            members = [int(str(c)[1:]) for c in obs.labels_of(g.columns)]
            if obs.labels_of(g.index) != obs.labels_of(f.index):
                raise Failure('labels', 'axis-1 group %r index %s' % (gk, short(obs.labels_of(g.index))))
            for q, p in enumerate(members):
                if not eq(arr_list(g.values[0])[q], arr_list(k)[p]):
                    raise Failure('value', 'axis-1 group %r column c%d key cell %r' % (gk, p, g.values[0][q]))
            groups.append((gk, members))
        _partition_check(groups, m, lambda p: arr_list(k)[p], None, 'Frame.iter_group_items(axis=1)')
    elif what == 'series':
        k = keys[0]
        s = sf.Series(gen.freeze(k), index=gen.build_index(case['index'], for_frame=True))
        row_labels = obs.labels_of(s.index)
        r = lib(lambda: list(s.iter_group_items()))
        if isinstance(r, Raised):
            raise Failure('raised:%s' % r.cls, 'Series.iter_group_items raised %r' % r.exc, r.where)
        groups = []
        for gk, g in r:
            gl = obs.labels_of(g.index)
            members = [row_labels.index(l) for l in gl]
            for q, p in enumerate(members):
                if not eq(arr_list(g.values)[q], arr_list(k)[p]):
                    raise Failure('value', 'Series group %r member %r value %r' % (gk, gl[q], g.values[q]))
            groups.append((gk, members))
        _partition_check(groups, n, lambda p: arr_list(k)[p], None, 'Series.iter_group_items')
        # apply over the groups of a Series: one result per group, labelled by its key (whatever the class of the source index)
        r2 = lib(lambda: s.iter_group().apply(len))
        if isinstance(r2, Raised):
            raise Failure('raised:%s' % r2.cls, 'Series.iter_group().apply raised %r (index %s)' % (r2.exc, type(s.index).__name__), r2.where)
        want = {}
        for p in range(n):
            want[_hk(arr_list(k)[p])] = want.get(_hk(arr_list(k)[p]), 0) + 1
        got_labels = obs.labels_of(r2.index)
        got = {_hk(l): v for l, v in zip(got_labels, arr_list(r2.values))}
        if len(got_labels) != len(want) or got != want:
            raise Failure('apply-value', 'Series.iter_group().apply(len) -> %s expected %s' % (short(sorted(got.items(), key=repr)), short(sorted(want.items(), key=repr))))
        classes.append('s-index:' + case['index']['kind'])
    else:  # labels: group by index label depth
        if n == 0:
            raise Discard('empty hierarchical index')
        tl = None
        depth_keys = case['depths']
        # build a hierarchical index whose outer depths carry the group keys
        outer = arr_list(keys[0])
        tuples = []
        seen = {}
        for p in range(n):
            o = outer[p]
            seen[_hk(o)] = seen.get(_hk(o), 0) + 1
            tuples.append((o, seen[_hk(o)]))
        order = sorted(range(n), key=lambda p: (list(dict.fromkeys(_hk(x) for x in outer)).index(_hk(outer[p])), tuples[p][1]))
        tuples = [tuples[p] for p in order]
        if any(x is None for x in outer) or case['kinds'][0] == 'object_mixed':
            raise Discard('mixed-object labels')
        ih = lib(lambda: sf.IndexHierarchy.from_labels(tuples))
        if isinstance(ih, Raised):
            raise Discard('index rejected')
        f = sf.Frame(np.arange(n * 2).reshape(n, 2), index=ih, columns=('uid', 'v'))
        dl = depth_keys if len(depth_keys) > 1 else depth_keys[0]
        r = lib(lambda: list(f.iter_group_labels_items(dl)))
        if isinstance(r, Raised):
            raise Failure('raised:%s' % r.cls, 'iter_group_labels_items(%r) raised %r' % (dl, r.exc), r.where)
        groups = []
        for gk, g in r:
            members = [int(x) // 2 for x in arr_list(g['uid'].values)]
            if obs.labels_of(g.index) != [canon(tuples[p]) for p in members]:
                raise Failure('labels', 'label group %r index %s' % (gk, short(obs.labels_of(g.index))))
            groups.append((tuple(gk) if isinstance(gk, (tuple, np.ndarray)) and len(depth_keys) > 1 else gk, members))

        def lk(p):
            t = tuple(tuples[p][d] for d in depth_keys)
            return t if len(depth_keys) > 1 else t[0]
        _partition_check(groups, n, lk, None, 'iter_group_labels_items(%r)' % (dl,))
        # apply over label groups
        r2 = lib(lambda: f.iter_group_labels(dl).apply(lambda g: len(g)))
        if isinstance(r2, Raised):
            raise Failure('raised:%s' % r2.cls, 'iter_group_labels(%r).apply raised %r' % (dl, r2.exc), r2.where)
        want = {}
        for p in range(n):
            want[_hk(lk(p))] = want.get(_hk(lk(p)), 0) + 1
        got = {_hk(l): v for l, v in zip(obs.labels_of(r2.index), arr_list(r2.values))}
        if got != want:
            raise Failure('apply-value', 'iter_group_labels(%r).apply(len) -> %s expected %s' % (dl, short(got), short(want)))
        classes.append('depths:%s' % depth_keys)
        keys = [np.array([repr(lk(p)) for p in range(n)], dtype=object)]
    # non-trivial rule
    ks = [_hk(tuple(arr_list(k)[p] for k in keys)) for p in range(n)]
    nt = False
    if len(set(ks)) >= 2:
        for v in set(ks):
            pos = [p for p in range(n) if ks[p] == v]
            if len(pos) >= 2 and pos[-1] - pos[0] >= len(pos):
                nt = True
    return {'nt': nt, 'cls': classes}


# ---------------------------------------------------------------------------------------------
# windows

@st.composite
def window_cases(draw):
    # decisive choices first
    target = draw(st.sampled_from(['series', 'frame0', 'frame1', 'series_array', 'frame0_array']))
    kind, other = draw(st.sampled_from(['int', 'str', 'date', 'ih'])), draw(st.sampled_from(['str', 'date', 'str', 'ih']))
    wfunc, wvalid = draw(st.sampled_from([None, 'double', None])), draw(st.sampled_from([None, None, 'first_even']))
    n = draw(st.sampled_from([5, 4, 6, 3, 2, 1, 0, 7, 8]))
    return {'n': n, 'size': draw(st.integers(1, 4)), 'step': draw(st.integers(0, 3)), 'sized': draw(st.booleans()),
            'label_shift': draw(st.integers(-3, 2)), 'start_shift': draw(st.integers(-2, 2)), 'inc': draw(st.sampled_from([0, 1, -1, 2, -2])),
            'target': target, 'kind': kind, 'other': other, 'wfunc': wfunc, 'wvalid': wvalid}


def _window_axis_index(kind, n):
    """Labels of the windowed axis: plain, date-typed or hierarchical."""
    if kind == 'int':
        return sf.Index(list(range(10, 10 + n)))
    if kind == 'str':
        return sf.Index(['l%d' % i for i in range(n)])
    if kind == 'date':
        return sf.IndexDate([np.datetime64('2020-01-01') + i for i in range(n)])
    if n == 0:
        return sf.Index(())
    return sf.IndexHierarchy.from_labels([('abc'[i // 3], i) for i in range(n)])


def _other_axis_index(kind):
    if kind == 'date':
        return sf.IndexDate(('2021-03-01', '2021-03-02'))
    if kind == 'ih':
        return sf.IndexHierarchy.from_labels((('p', 1), ('p', 2)))
    return sf.Index(('a', 'b'))


def ref_windows(n, size, step, sized, label_shift, start_shift, inc):
    out = []
    cmax = n if start_shift >= 0 else n + abs(start_shift)
    left = start_shift
    count = 0
    while True:
        right = left + size - 1
        lo = max(left, 0)
        win = list(range(lo, min(max(right, -1) + 1, n)))
        lab = right + label_shift
        ok = 0 <= lab < n
        if ok and sized and len(win) != size:
            ok = False
        if ok:
            out.append((lab, win))
        left += step
        size += inc
        count += 1
        if count > cmax or left > cmax - 1 or size < 0:
            break
    return out


def check_windows(case):
    n = case['n']
    if case['step'] == 0 and case['inc'] == 0:
        raise Discard('step 0 without size increment')
    ix = _window_axis_index(case['kind'], n)
    ox = _other_axis_index(case.get('other', 'str'))
    labels = obs.labels_of(ix)
    vals = np.arange(n) * 3 + 1
    kw = dict(size=case['size'], step=case['step'], window_sized=case['sized'], label_shift=case['label_shift'],
              start_shift=case['start_shift'], size_increment=case['inc'])
    want = ref_windows(n, case['size'], case['step'], case['sized'], case['label_shift'], case['start_shift'], case['inc'])
    mult = 1
    if case.get('wvalid'):
        # only windows accepted by the predicate are yielded (here: the first cell of the window is even; empty windows pass)
        def _first_even(w):
            a = np.asarray(w.values if hasattr(w, 'values') else w).ravel()
            return True if a.size == 0 else int(a[0]) % 2 == 0
        kw['window_valid'] = _first_even
        want = [(wl, ww) for wl, ww in want if not ww or int(vals[ww[0]]) % 2 == 0]
    if case.get('wfunc'):
        # every yielded window is passed through the function first
        kw['window_func'] = lambda w: w * 2
        mult = 2
    t = case['target']
    if t.startswith('series'):
        s = sf.Series(vals, index=ix)
        r = lib(lambda: list(s.iter_window_array_items(**kw) if t.endswith('array') else s.iter_window_items(**kw)))
    elif t.startswith('frame0'):
        f = sf.Frame(np.column_stack([vals, vals * 2]) if n else np.empty((0, 2), dtype=np.int64), index=ix, columns=ox)
        r = lib(lambda: list(f.iter_window_array_items(**kw) if t.endswith('array') else f.iter_window_items(**kw)))
    else:
        f = sf.Frame(np.vstack([vals, vals * 2]) if n else np.empty((2, 0), dtype=np.int64), index=ox, columns=ix)
        r = lib(lambda: list(f.iter_window_items(axis=1, **kw)))
    if isinstance(r, Raised):
        raise Failure('raised:%s' % r.cls, 'iter_window_items(%s) raised %r' % (kw, r.exc), r.where)
    if len(r) != len(want):
        raise Failure('count', 'windows %s: %d windows, expected %d (%s)' % (kw, len(r), len(want), short([w[0] for w in want])))
    for (gl, gw), (wl, ww) in zip(r, want):
        if not eq(canon(gl), canon(labels[wl])):
            raise Failure('label', 'windows %s: label %r expected %r' % (kw, gl, labels[wl]))
        if t == 'series':
            got = arr_list(gw.values)
            gl2 = obs.labels_of(gw.index)
        elif t == 'series_array':
            got, gl2 = arr_list(gw), None
        elif t == 'frame0':
            got, gl2 = arr_list(gw.iloc[:, 0].values), obs.labels_of(gw.index)
        elif t == 'frame0_array':
            got, gl2 = arr_list(gw[:, 0]), None
        else:
            got, gl2 = arr_list(gw.values[0]), obs.labels_of(gw.columns)
        if got != [int(vals[p]) * mult for p in ww]:
            raise Failure('window', 'windows %s at label %r: values %s expected positions %s' % (kw, gl, got, ww))
        if gl2 is not None and gl2 != [canon(labels[p]) for p in ww]:
            raise Failure('window-labels', 'windows %s at label %r: window labels %s' % (kw, gl, gl2))
    # the values-only forms yield exactly the windows of the items form, and apply() labels one result per window
    if t.startswith('series'):
        node = (lambda: s.iter_window_array(**kw)) if t.endswith('array') else (lambda: s.iter_window(**kw))
    elif t.startswith('frame0'):
        node = (lambda: f.iter_window_array(**kw)) if t.endswith('array') else (lambda: f.iter_window(**kw))
    else:
        node = lambda: f.iter_window(axis=1, **kw)  # noqa: E731
    vr = lib(lambda: list(node()))
    if isinstance(vr, Raised):
        raise Failure('raised:%s' % vr.cls, 'iter_window(%s) (values only) raised %r' % (kw, vr.exc), vr.where)
    if len(vr) != len(r) or any(obs.snap(a) != obs.snap(b) for a, (_, b) in zip(vr, r)):
        raise Failure('values-form', 'windows %s: the values-only form yields %d windows %s, the items form %d windows %s' % (
            kw, len(vr), short([obs.snap(a)[-1] for a in vr], 200), len(r), short([obs.snap(b)[-1] for _, b in r], 200)))
    if len({wl for wl, _ in want}) == len(want):  # (repeated window labels cannot label a result: rightly rejected; no window at all gives an empty result)
        ar = lib(lambda: node().apply(lambda w: int(np.asarray(w.values if hasattr(w, 'values') else w).size)))
        if isinstance(ar, Raised):
            raise Failure('raised:%s' % ar.cls, 'iter_window(%s).apply raised %r' % (kw, ar.exc), ar.where)
        al = obs.labels_of(ar.index)
        if al != [canon(labels[wl]) for wl, _ in want]:
            raise Failure('apply-labels', 'windows %s: apply() labels %s expected %s' % (kw, short(al), short([labels[wl] for wl, _ in want])))
        # the function applied is handed the same kind of window that iteration yields (an array for the array forms)
        if want and not case.get('wfunc'):
            kinds = lib(lambda: sorted(set(arr_list(node().apply(lambda w: type(w).__name__).values))))
            seen = sorted({type(w).__name__ for w in vr})
            if isinstance(kinds, Raised) or kinds != seen:
                raise Failure('apply-window-kind', 'windows %s (%s): apply() handed the function %s, iteration yields %s' % (kw, t, kinds if not isinstance(kinds, Raised) else kinds.exc, seen))
    return {'nt': len(want) >= 2, 'cls': ['w:' + t, 'wlabels:' + case['kind'], 'wother:' + case.get('other', 'str'), 'wfunc:%s' % case.get('wfunc'), 'wvalid:%s' % case.get('wvalid'), 'sized' if case['sized'] else 'unsized', 'step:%d' % case['step'], 'inc:%d' % case['inc']]}


def tag(case, f):
    if case.get('what') == 'frame_axis1' and f.kind == 'raised:RuntimeError' and len(case['keys'][0]) == 0:
        return 'group-axis1-on-zero-columns-raises'
    cells = case.get('mixed_cells')
    if (case.get('what') == 'frame_axis1' and cells and case.get('axis1_list') and f.kind == 'raised:IndexError'
            and any(dt == '<U1' for dt, _ in cells) and any(dt != '<U1' for dt, _ in cells)):
        # only the list key form, only string columns beside numeric ones, only this error class
        return 'group-axis1-list-key-over-str-and-numeric-columns-raises'
    kinds = case.get('kinds', [])
    # object keys of mixed types: the fallback groups by str(), so values whose str() collide are merged
    if 'object_mixed' in kinds and (f.kind in ('wrong-member', 'duplicate-key', 'partition', 'apply-labels', 'apply-value', 'value') or f.kind == 'raised:ErrorInitIndexNonUnique'):
        return 'mixed-type-object-keys-grouped-by-str'
    return None


SUBS = [
    Sub('groups', group_cases(), check_groups, quick=6000, thorough=48000, tag=tag,
        rule='partition oracle over iter_group(_items/_labels/_array) and apply'),
    Sub('windows', window_cases(), check_windows, quick=6000, thorough=48000, tag=tag,
        rule='iter_window_items vs reference enumeration'),
]
