"""C14 — missing-value operations act per cell exactly as specified.

directional (exhaustive): every missing pattern over small shapes x block layout x axis x
    direction x limit vs a single-scan pure-Python reference per row / column.
random: isna / notna / dropna / fillna (element, Series, Frame with partial or permuted labels) /
    fillna_leading / fillna_trailing / count on Series and Frame vs the cell-wise reference.
"""
import itertools

import numpy as np
from hypothesis import strategies as st

from vf import gen, obs
from vf.base import Discard, Failure, Raised, arr_list, canon, eq, is_missing, lib, sf, short
from vf.harness import Sub

PID = 'C14'
RULE = ('(directional) ALL missing patterns over 2x5 and 3x4 (quick) / 4x5 (thorough, 2**20) cells x {one float block, per-column blocks, mixed layout with never-missing int and str columns, '
        'object/datetime columns holding None/NaT} x axis x forward/backward x limit 0..n; (random) isna/notna/dropna/fillna(element|Series|Frame)/fillna_leading/trailing/count; '
        'non-trivial = a missing run that crosses a block boundary along axis 1, or a run longer than the limit, or a partially covering fill container')
ASSUMPTIONS = ['limit=0 means unlimited (documented)', 'non-missing cells must be identical in value; a filled cell must equal the carried value']
EXHAUSTIVE = {'quick': True, 'thorough': True}


def fill_line(vals, forward, limit):
    """Reference: copy the nearest preceding (forward) non-missing value into at most `limit`
    consecutive missing cells (limit 0 = unlimited); returns the new list."""
    seq = list(vals) if forward else list(vals)[::-1]
    out = list(seq)
    carry = None
    have = False
    run = 0
    for i, x in enumerate(seq):
        if is_missing(x):
            run += 1
            if have and (limit == 0 or run <= limit):
                out[i] = carry
        else:
            carry, have, run = x, True, 0
    return out if forward else out[::-1]


VARIANTS = ('float_one_block', 'float_split', 'mixed_int_str', 'object_none', 'datetime_nat', 'float_pairs', 'int_pair_mid')


def build_variant(variant, mask):
    """Columns (list of 1-D arrays) and a block layout for a missing mask (rows x cols)."""
    r, c = mask.shape
    cols = []
    for j in range(c):
        if variant in ('float_one_block', 'float_split', 'float_pairs'):
            a = (np.arange(r) * 10.0 + j + 1)
            a[mask[:, j]] = np.nan
        elif variant == 'int_pair_mid':
            # columns 1 and 2 form a never-missing 2-D int block between float blocks
            if j in (1, 2):
                a = np.arange(r) * 10 + j + 1
            else:
                a = (np.arange(r) * 10.0 + j + 1)
                a[mask[:, j]] = np.nan
        elif variant == 'mixed_int_str':
            # column 1 is a never-missing int column, column 3 a never-missing str column (when present)
            if j == 1:
                a = np.arange(r) * 10 + j + 1
            elif j == 3:
                a = np.array(['s%d' % i for i in range(r)], dtype='<U2')
            else:
                a = (np.arange(r) * 10.0 + j + 1)
                a[mask[:, j]] = np.nan
        elif variant == 'object_none':
            a = np.empty(r, dtype=object)
            for i in range(r):
                a[i] = None if mask[i, j] else ('v%d%d' % (i, j) if j % 2 else i * 10 + j)
        else:
            a = np.array([np.datetime64(18000 + i * 10 + j, 'D') for i in range(r)], dtype='M8[D]')
            a[mask[:, j]] = np.datetime64('NaT')
        cols.append(a)
    if variant == 'float_one_block':
        blocks = [np.column_stack(cols)] if c else []
    elif variant == 'float_split':
        blocks = [np.array(x) for x in cols]
    elif variant == 'float_pairs':
        # 2-D blocks of width 2 (a block without a missing cell then hands its edge column to the next block)
        blocks = [np.column_stack(cols[k:k + 2]) if len(cols[k:k + 2]) == 2 else np.array(cols[k]) for k in range(0, c, 2)]
    else:
        blocks = gen.layout_consolidated(cols)
    return cols, blocks


def enum_directional(tier):
    shapes = [(2, 5), (3, 4)] if tier == 'quick' else [(4, 5)]
    for (r, c) in shapes:
        n = r * c
        patterns = range(2 ** n)
        for bits in patterns:
            # each pattern is paired with a deterministic rotation of the other factors so that the
            # product pattern x variant x axis x direction x limit is covered by the full enumeration
            # of patterns (every pattern) times a Latin-style assignment (every factor level equally often)
            if tier == 'quick':
                for variant in VARIANTS:
                    for axis in (0, 1):
                        yield {'shape': (r, c), 'bits': bits, 'variant': variant, 'axis': axis}
            else:
                yield {'shape': (r, c), 'bits': bits, 'variant': VARIANTS[bits % len(VARIANTS)], 'axis': (bits // 7) % 2}


def check_directional(case):
    r, c = case['shape']
    bits = case['bits']
    mask = np.array([(bits >> q) & 1 for q in range(r * c)], dtype=bool).reshape(r, c)
    variant, axis = case['variant'], case['axis']
    cols, blocks = build_variant(variant, mask)
    f = sf.Frame(sf.TypeBlocks.from_blocks([gen.freeze(b) for b in blocks], shape_reference=(r, c)), own_data=True)
    model = [arr_list(x) for x in cols]
    length = r if axis == 0 else c
    nt = False
    for forward in (True, False):
        for limit in range(0, length + 1):
            name = 'fillna_forward' if forward else 'fillna_backward'
            res = lib(lambda: getattr(f, name)(limit, axis=axis))
            if isinstance(res, Raised):
                raise Failure('raised:%s' % res.cls, '%s(limit=%d, axis=%d) raised %r' % (name, limit, axis, res.exc), res.where)
            got = [arr_list(x) for x in obs.frame_cols(res)]
            if axis == 0:
                want = [fill_line(model[j], forward, limit) for j in range(c)]
            else:
                rows = [fill_line([model[j][i] for j in range(c)], forward, limit) for i in range(r)]
                want = [[rows[i][j] for i in range(r)] for j in range(c)]
            for j in range(c):
                for i in range(r):
                    g, w = got[j][i], want[j][i]
                    if not (eq(g, w) or (is_missing(g) and is_missing(w))):
                        raise Failure('value', '%s(limit=%d, axis=%d) variant %s mask %s: cell (%d,%d) = %r expected %r' % (
                            name, limit, axis, variant, mask.astype(int).tolist(), i, j, g, w))
            if res.shape != (r, c):
                raise Failure('shape', '%s changed the shape to %s' % (name, res.shape))
    if axis == 1 and len(blocks) > 1:
        for i in range(r):
            row = mask[i]
            for j in range(1, c):
                if row[j] and row[j - 1]:
                    nt = True
    if mask.any() and not mask.all():
        nt = nt or axis == 0
    return {'nt': nt, 'cls': ['variant:' + variant, 'axis:%d' % axis]}


# ---------------------------------------------------------------------------------------------
# random sub-check

KINDS = ('float64', 'object', 'M8[D]', 'int64', 'bool', '<U2', 'float32')


@st.composite
def random_cases(draw):
    # decisive choices first (Hypothesis pins late draws to their first option for a share of its examples)
    target = draw(st.sampled_from(['frame', 'frame', 'series']))
    op = draw(st.sampled_from(['isna', 'dropna', 'fillna_el', 'fillna_container', 'fillna_sided', 'count', 'fill_dir_series']))
    ch = {'axis': draw(st.integers(0, 1)), 'cond': draw(st.sampled_from(['all', 'any'])),
          'fill': draw(st.sampled_from([0, -1.5, 'ff', True, None])), 'keep': draw(st.integers(0, 2 ** 12)), 'sided': draw(st.sampled_from(['leading', 'trailing'])),
          'limit': draw(st.integers(0, 3)), 'forward': draw(st.booleans()), 'skipna': draw(st.booleans())}
    if target == 'frame':
        rec = draw(gen.frame_recipe(min_rows=0, max_rows=5, min_cols=0, max_cols=5, kinds=KINDS,
                                    index_kinds=('auto', 'int', 'str') if op != 'fillna_container' else ('auto', 'int', 'str', 'ih', 'date'),
                                    column_kinds=('auto', 'str', 'int') if op != 'fillna_container' else ('auto', 'str', 'ih', 'int')))
    else:
        rec = draw(gen.series_recipe(max_size=7, kinds=KINDS, index_kinds=('auto', 'int', 'str')))
    return dict({'target': target, 'op': op, 'rec': rec}, **ch)


def _extra_labels(labels, kind, bits):
    """Labels of the axis' own type that the axis does not hold (for integer labels: negative ones and ones beyond the length)."""
    if bits % 3 == 0:
        return []
    if kind in ('auto', 'int'):
        cand = [-1, -2, len(labels) + 5, -len(labels)] if bits % 3 == 1 else [-1, len(labels)]
        return [c for c in cand if not any(eq(c, x) for x in labels)][:2]
    if kind == 'str':
        return ['zz_absent']
    return []


def check_random(case):
    op = case['op']
    rec = case['rec']
    classes = ['r:%s:%s' % (case['target'], op)]
    if case['target'] == 'series':
        s = gen.build_series(rec)
        vals = arr_list(rec['values'])
        il = [canon(x) for x in rec['index']['labels']]
        ilr = list(s.index)
        n = len(vals)
        miss = [is_missing(v) for v in vals]
        if op == 'isna':
            r1, r2 = lib(s.isna), lib(s.notna)
            for r, want in ((r1, miss), (r2, [not m for m in miss])):
                if isinstance(r, Raised):
                    raise Failure('raised:%s' % r.cls, 'isna/notna raised %r' % r.exc, r.where)
                obs.expect_series(r, il, want, 'Series.isna/notna', dtype=np.dtype(bool))
        elif op == 'dropna':
            r = lib(s.dropna)
            if isinstance(r, Raised):
                raise Failure('raised:%s' % r.cls, 'dropna raised %r' % r.exc, r.where)
            obs.expect_series(r, [il[i] for i in range(n) if not miss[i]], [vals[i] for i in range(n) if not miss[i]], 'Series.dropna')
            # only rows are removed: name, dtype and the class of the index stay (also when no row is left)
            if not eq(obs.canon_name(r.name), obs.canon_name(s.name)) or r.values.dtype != s.values.dtype or type(r.index) is not type(s.index):
                raise Failure('kept-metadata', 'Series.dropna of %d rows (%d kept): name %r -> %r, dtype %s -> %s, index %s -> %s' % (
                    n, n - sum(miss), s.name, r.name, s.values.dtype, r.values.dtype, type(s.index).__name__, type(r.index).__name__))
            classes.append('dropna-kept:%s' % ('none' if all(miss) and n else 'some'))
        elif op == 'fillna_el':
            v = case['fill']
            if v is None:
                raise Discard('None fill')
            r = lib(lambda: s.fillna(v))
            if isinstance(r, Raised):
                raise Failure('raised:%s' % r.cls, 'fillna(%r) raised %r' % (v, r.exc), r.where)
            obs.expect_series(r, il, [v if miss[i] else vals[i] for i in range(n)], 'Series.fillna')
        elif op == 'fillna_container':
            keep = [i for i in range(n) if (case['keep'] >> i) & 1][::-1]
            fv = [100 + i for i in keep]
            if not keep:
                raise Discard('empty fill container')
            # the container also carries labels the target does not have (negative / beyond its length for integer labels):
            # they address nothing
            xl = _extra_labels(ilr, rec['index']['kind'], case['keep'])
            other = sf.Series(fv + [7777] * len(xl), index=[ilr[i] for i in keep] + xl)
            r = lib(lambda: s.fillna(other))
            if isinstance(r, Raised):
                raise Failure('raised:%s' % r.cls, 'fillna(Series) raised %r' % r.exc, r.where)
            m = dict(zip(keep, fv))
            obs.LOOSE_MISSING[0] = True
            obs.expect_series(r, il, [m[i] if (miss[i] and i in m) else vals[i] for i in range(n)], 'Series.fillna(Series)')
        elif op == 'fillna_sided':
            v = case['fill']
            if v is None:
                raise Discard('None fill')
            r = lib(lambda: getattr(s, 'fillna_' + case['sided'])(v))
            if isinstance(r, Raised):
                raise Failure('raised:%s' % r.cls, 'fillna_%s raised %r' % (case['sided'], r.exc), r.where)
            want = list(vals)
            rng = range(n) if case['sided'] == 'leading' else range(n - 1, -1, -1)
            for i in rng:
                if miss[i]:
                    want[i] = v
                else:
                    break
            obs.LOOSE_MISSING[0] = True
            obs.expect_series(r, il, want, 'Series.fillna_' + case['sided'])
        elif op == 'count':
            r = lib(lambda: s.count())
            if isinstance(r, Raised) or int(r) != sum(1 for m in miss if not m):
                raise Failure('count', 'Series.count() = %r expected %d' % (r, sum(1 for m in miss if not m)))
        else:
            name = 'fillna_forward' if case['forward'] else 'fillna_backward'
            r = lib(lambda: getattr(s, name)(case['limit']))
            if isinstance(r, Raised):
                raise Failure('raised:%s' % r.cls, 'Series.%s raised %r' % (name, r.exc), r.where)
            obs.LOOSE_MISSING[0] = True
            obs.expect_series(r, il, fill_line(vals, case['forward'], case['limit']), 'Series.' + name)
        return {'nt': any(miss) and not all(miss), 'cls': classes}
    f = gen.build_frame(rec)
    cols = gen.block_columns(rec['blocks'])
    model = [arr_list(c) for c in cols]
    il, cl = [canon(x) for x in rec['index']['labels']], [canon(x) for x in rec['columns']['labels']]
    ilr, clr = list(f.index), list(f.columns)
    n, m = len(il), len(cl)
    miss = [[is_missing(v) for v in col] for col in model]
    anym = any(any(c) for c in miss)
    if op == 'isna':
        for r, neg in ((lib(f.isna), False), (lib(f.notna), True)):
            if isinstance(r, Raised):
                raise Failure('raised:%s' % r.cls, 'isna/notna raised %r' % r.exc, r.where)
            obs.expect_frame(r, il, cl, [[(not x) if neg else x for x in c] for c in miss], 'isna/notna', dtypes=[np.dtype(bool)] * m)
    elif op == 'dropna':
        axis, cond = case['axis'], case['cond']
        fn = all if cond == 'all' else any
        r = lib(lambda: f.dropna(axis=axis, condition=np.all if cond == 'all' else np.any))
        if axis == 0:
            keep_r = [i for i in range(n) if not (fn(miss[j][i] for j in range(m)) if m else (cond == 'all'))]
            keep_c = list(range(m))
        else:
            keep_c = [j for j in range(m) if not (fn(miss[j]) if n else (cond == 'all'))]
            keep_r = list(range(n))
        if isinstance(r, Raised):
            if (not keep_r and keep_c) or (not keep_c and keep_r):
                raise Failure('raised:%s' % r.cls, 'dropna leaving an empty axis raised %r' % r.exc, r.where)
            raise Failure('raised:%s' % r.cls, 'dropna(axis=%d, %s) raised %r' % (axis, cond, r.exc), r.where)
        obs.LOOSE_MISSING[0] = True
        obs.expect_frame(r, [il[i] for i in keep_r], [cl[j] for j in keep_c], [[model[j][i] for i in keep_r] for j in keep_c], 'dropna(%d,%s)' % (axis, cond))
    elif op == 'fillna_el':
        v = case['fill']
        if v is None:
            raise Discard('None fill')
        r = lib(lambda: f.fillna(v))
        if isinstance(r, Raised):
            raise Failure('raised:%s' % r.cls, 'fillna(%r) raised %r' % (v, r.exc), r.where)
        obs.expect_frame(r, il, cl, [[v if miss[j][i] else model[j][i] for i in range(n)] for j in range(m)], 'fillna')
    elif op == 'fillna_container':
        keep_r = [i for i in range(n) if (case['keep'] >> i) & 1][::-1]
        keep_c = [j for j in range(m) if (case['keep'] >> (j + 6)) & 1]
        if not keep_r or not keep_c:
            raise Discard('empty fill container')
        data = {(i, j): 1000 + i * 10 + j for i in keep_r for j in keep_c}
        xr = _extra_labels(ilr, rec['index']['kind'], case['keep'])
        xc = _extra_labels(clr, rec['columns']['kind'], case['keep'] >> 3)
        if rec['index']['kind'] in ('ih', 'date'):
            # a typed or hierarchical row axis: the container's rows are a sub-index of the same class (tree order kept)
            if f.index.depth > 1:
                keep_r = sorted(keep_r)
            oix = f.index.iloc[keep_r]
        else:
            oix = [ilr[i] for i in keep_r] + xr
        if f.columns.depth > 1:
            # hierarchical columns (a level may be datetime-typed): the container's columns are a sub-index of the same class
            keep_c = sorted(keep_c)
            xc = []
        other = sf.Frame.from_items([(clr[j], [data[(i, j)] for i in keep_r] + [7777] * len(xr)) for j in keep_c] + [(c, [7777] * (len(keep_r) + len(xr))) for c in xc],
                                    index=oix)
        if f.columns.depth > 1:
            other = other.relabel(columns=f.columns.iloc[keep_c])
            classes.append('fill-frame-columns:ih' + ('+date' if any(isinstance(x, np.datetime64) for t in clr for x in t) else ''))
            classes.append('fill-frame-index-depth:%d' % f.index.depth)
        r = lib(lambda: f.fillna(other))
        if isinstance(r, Raised):
            raise Failure('raised:%s' % r.cls, 'fillna(Frame) raised %r' % r.exc, r.where)
        obs.LOOSE_MISSING[0] = True
        obs.expect_frame(r, il, cl, [[data[(i, j)] if (miss[j][i] and (i, j) in data) else model[j][i] for i in range(n)] for j in range(m)], 'fillna(Frame)')
    elif op == 'fillna_sided':
        v = case['fill']
        if v is None:
            raise Discard('None fill')
        axis = case['axis']
        r = lib(lambda: getattr(f, 'fillna_' + case['sided'])(v, axis=axis))
        if isinstance(r, Raised):
            raise Failure('raised:%s' % r.cls, 'fillna_%s(axis=%d) raised %r' % (case['sided'], axis, r.exc), r.where)
        want = [list(c) for c in model]
        lines = [[(i, j) for i in range(n)] for j in range(m)] if axis == 0 else [[(i, j) for j in range(m)] for i in range(n)]
        for line in lines:
            seq = line if case['sided'] == 'leading' else line[::-1]
            for (i, j) in seq:
                if miss[j][i]:
                    want[j][i] = v
                else:
                    break
        obs.LOOSE_MISSING[0] = True
        obs.expect_frame(r, il, cl, want, 'fillna_%s(axis=%d)' % (case['sided'], axis))
        if axis == 0:
            # a block none of whose cells was filled comes back as it was, dtypes included (a fill that does happen may re-type
            # its whole block: listed finding of C03 / C08)
            got_cols = obs.frame_cols(r)
            j0 = 0
            for b in rec['blocks']:
                wdt = 1 if b.ndim == 1 else b.shape[1]
                js = list(range(j0, j0 + wdt))
                j0 += wdt
                if all(not is_missing(model[j][i]) or is_missing(want[j][i]) for j in js for i in range(n)):
                    for j in js:
                        if got_cols[j].dtype != b.dtype:
                            raise Failure('untouched-dtype', 'fillna_%s(%r): nothing in the block of column %d was filled, its dtype %s became %s' % (
                                case['sided'], v, j, b.dtype, got_cols[j].dtype))
    elif op == 'count':
        axis = case['axis']
        r = lib(lambda: f.count(axis=axis))
        if isinstance(r, Raised):
            raise Failure('raised:%s' % r.cls, 'count(axis=%d) raised %r' % (axis, r.exc), r.where)
        if axis == 0:
            obs.expect_series(r, cl, [sum(1 for x in miss[j] if not x) for j in range(m)], 'count(0)')
        else:
            obs.expect_series(r, il, [sum(1 for j in range(m) if not miss[j][i]) for i in range(n)], 'count(1)')
    else:
        # directional fill on a generated block layout (the enumeration covers fixed layouts only)
        axis, forward, limit = case['axis'], case['forward'], case['limit']
        name = 'fillna_forward' if forward else 'fillna_backward'
        r = lib(lambda: getattr(f, name)(limit, axis=axis))
        if isinstance(r, Raised):
            raise Failure('raised:%s' % r.cls, 'Frame.%s(limit=%d, axis=%d) raised %r' % (name, limit, axis, r.exc), r.where)
        if axis == 0:
            want = [fill_line(model[j], forward, limit) for j in range(m)]
        else:
            rows = [fill_line([model[j][i] for j in range(m)], forward, limit) for i in range(n)]
            want = [[rows[i][j] for i in range(n)] for j in range(m)]
        obs.LOOSE_MISSING[0] = True
        obs.expect_frame(r, il, cl, want, 'Frame.%s(limit=%d, axis=%d)' % (name, limit, axis))
        classes.append('dirframe:axis%d' % axis)
    return {'nt': anym, 'cls': classes}


def tag(case, f):
    if case.get('target') == 'frame' and f.kind.startswith('raised:'):
        rec = case['rec']
        if not rec['index']['labels'] or not rec['columns']['labels']:
            return 'missing-value-ops-on-zero-sized-frames-raise'
    return None


SUBS = [
    Sub('directional', None, check_directional, quick=0, thorough=0, tag=tag, enum=enum_directional,
        rule='complete enumeration of missing patterns; directional fills vs single-scan reference'),
    Sub('random', random_cases(), check_random, quick=8000, thorough=64000, tag=tag,
        rule='isna/notna/dropna/fillna/fillna_sided/count vs cell-wise reference'),
]
