"""C15 — axis reductions equal the independent per-column / per-row computation.

Oracle: NumPy applied to each column alone (axis 0, at the column's own dtype) or to each row
alone (axis 1, numeric/bool frames only) — never to the frame.  "Where the function is defined"
= NumPy evaluates it on that 1-D array without raising.  skipna=False with a missing cell must
give a missing result (or, for all/any, a rejection) — never a number.
"""
import math
import warnings

import numpy as np
from hypothesis import strategies as st

from vf import gen, obs
from vf.base import Discard, Failure, Raised, arr_list, canon, eq, is_missing, lib, sf, short
from vf.harness import Sub

PID = 'C15'
RULE = ('frames over sub-domains D1 all-numeric (int/uint/float widths), D2 all-bool, D3 bool mixed with numeric (axis 0 only), D4 str/datetime/object columns (axis 0; min/max/all/any) '
        'x all layouts x {sum, prod, min, max, mean, median, std, var(ddof 0..2), all, any, loc_min/max, iloc_min/max, cumsum, cumprod} x axis x skipna, incl. 0- and 1-sized axes; '
        'non-trivial = >= 2 blocks of different dtype, or a missing cell with skipna=False')
ASSUMPTIONS = ['for float16/float32 lines a result equal to the float64 evaluation of the line is accepted as well as the narrow-dtype NumPy result', 'tolerance: exact for int/bool results, 1e-12 relative for float64, 1e-5 when a float32/float16 column is involved',
               'axis-1 values on object rows (bool mixed with numbers) are not judged: NumPy statistics on object rows are themselves unreliable']

FUNCS = ('sum', 'prod', 'min', 'max', 'mean', 'median', 'std', 'var', 'all', 'any', 'loc_min', 'loc_max', 'iloc_min', 'iloc_max', 'cumsum', 'cumprod')
NP = {'sum': (np.sum, np.nansum), 'prod': (np.prod, np.nanprod), 'min': (np.min, np.nanmin), 'max': (np.max, np.nanmax), 'mean': (np.mean, np.nanmean),
      'median': (np.median, np.nanmedian), 'std': (np.std, np.nanstd), 'var': (np.var, np.nanvar), 'cumsum': (np.cumsum, np.nancumsum),
      'cumprod': (np.cumprod, np.nancumprod), 'iloc_min': (np.argmin, np.nanargmin), 'iloc_max': (np.argmax, np.nanargmax),
      'loc_min': (np.argmin, np.nanargmin), 'loc_max': (np.argmax, np.nanargmax)}
D1 = ('int64', 'float64', 'int32', 'float32', 'uint8', 'int8', 'int16', 'uint16', 'uint32', 'float16')
D1_SAFE = ('int64', 'float64', 'int32', 'float32')


@st.composite
def cases(draw):
    dom = draw(st.sampled_from(['D1', 'D1', 'D1safe', 'D2', 'D3', 'D4', 'D4h', 'D5c']))
    kinds = {'D1': D1, 'D1safe': D1_SAFE, 'D2': ('bool',), 'D3': ('bool', 'int64', 'float64'), 'D4': ('<U3', 'M8[D]', 'int64', 'float64'),
             'D5c': ('complex128', 'float64', 'complex128', 'int64'),   # complex beside real columns: the sums and averages NumPy defines for them
             'D4h': (draw(st.sampled_from(['<U3', 'M8[D]', 'M8[s]'])),)}[dom]
    # decisive choices first (Hypothesis pins late draws to their first option for a share of the examples)
    if dom in ('D4', 'D4h'):
        allowed = ('min', 'max') if (dom == 'D4h' and kinds[0].startswith('M8')) else ('min', 'max', 'all', 'any')
        fn = draw(st.sampled_from(allowed))
    elif dom == 'D5c':
        fn = draw(st.sampled_from(('sum', 'mean', 'median', 'cumsum')))
    else:
        fn = draw(st.sampled_from(FUNCS))
    axis = 0 if dom in ('D3', 'D4', 'D4h') else draw(st.integers(0, 1))
    skipna, ddof = draw(st.booleans()), draw(st.integers(0, 2))
    inf_mode = draw(st.sampled_from([0, 0, 2, 0, 1]))   # infinities are values, not missing cells: none / one / both signs in one block
    il, cl = draw(st.sampled_from(['auto', 'str', 'auto', 'str', 'ih'])), draw(st.sampled_from(['auto', 'str', 'auto', 'str', 'ih']))
    n = draw(st.sampled_from([3, 1, 2, 0, 2, 1, 3, 4, 4, 5, 5, 6]))
    m = draw(st.sampled_from([3, 1, 2, 0, 2, 1, 3, 4, 4, 5, 5, 6]))
    blks = draw(gen.blocks(n, m, kinds=kinds, missing=True))
    if inf_mode and dom != 'D5c':   # (beside complex columns a real infinity is evaluated as inf+0j, whose average has no defined imaginary part)
        fb = [b for b in blks if b.dtype.kind == 'f' and b.size >= inf_mode]
        if fb:
            b = fb[draw(st.integers(0, len(fb) - 1))]
            pos = draw(st.lists(st.integers(0, b.size - 1), min_size=inf_mode, max_size=inf_mode, unique=True))
            flat = b.reshape(-1)   # (a view: the generated arrays are C-contiguous)
            for k, p_ in enumerate(pos):
                flat[p_] = np.inf if k == 0 else -np.inf
    return {'dom': dom, 'blocks': blks, 'n': n, 'm': m, 'fn': fn, 'axis': axis, 'skipna': skipna, 'ddof': ddof, 'ilabels': il, 'clabels': cl}


def _tol(dtypes):
    if any(np.dtype(d) in (np.dtype('float32'), np.dtype('float16')) for d in dtypes):
        # float16 has an epsilon of 9.8e-4: a handful of roundings in a different accumulation order (block-wise against line-wise) is 2-4 units
        return 5e-3 if any(np.dtype(d) == np.dtype('float16') for d in dtypes) else 1e-5
    return 1e-12


def _close(g, w, tol):
    if is_missing(g) and is_missing(w):
        return True
    if is_missing(g) or is_missing(w):
        return False
    if eq(g, w):
        return True
    try:
        gf, wf = complex(g), complex(w)
    except Exception:  # noqa: BLE001
        return False
    if math.isinf(abs(gf)) or math.isinf(abs(wf)):
        return gf == wf
    return abs(gf - wf) <= tol * max(abs(gf), abs(wf), 1e-300) + (1e-300 if tol < 1e-6 else 1e-6)


def oracle_line(arr, fn, skipna, ddof):
    """NumPy on one column/row alone.  Returns ('value', v) | ('raise', exc) ."""
    a = arr
    with warnings.catch_warnings():
        warnings.simplefilter('ignore')
        with np.errstate(all='ignore'):
            try:
                if fn in ('all', 'any'):
                    f = np.all if fn == 'all' else np.any
                    if a.dtype.kind in 'fc' or a.dtype == object or a.dtype.kind in 'mM':
                        miss = np.array([is_missing(x) for x in arr_list(a)], dtype=bool)
                        if miss.any():
                            if not skipna:
                                return ('missing-or-reject', None)
                            a = a[~miss]
                    return ('value', bool(f(a.astype(bool) if a.dtype != object else np.array([bool(x) for x in a], dtype=bool))))
                plain, nanv = NP[fn]
                if a.dtype == object or a.dtype.kind in 'mM':
                    miss = np.array([is_missing(x) for x in arr_list(a)], dtype=bool)
                    if miss.any():
                        if not skipna:
                            return ('missing-or-reject', None)
                        if fn.startswith(('cum', 'loc', 'iloc')):
                            return ('raise', ValueError('positional result over a filtered object line'))
                        a = a[~miss]
                use = nanv if (skipna and a.dtype.kind in 'fc') else plain
                kw = {'ddof': ddof} if fn in ('std', 'var') else {}
                if fn in ('std', 'var'):
                    cnt = len(a) - (int(np.isnan(a).sum()) if (skipna and a.dtype.kind in 'fc') else 0)
                    if ddof >= cnt:
                        return ('raise', ValueError('ddof >= number of observations: undefined'))
                if fn in ('loc_min', 'loc_max', 'iloc_min', 'iloc_max') and a.dtype.kind in 'fc' and not skipna and np.isnan(a).any():
                    return ('missing-or-reject', None)
                v = use(a, **kw)
                return ('value', v)
            except Exception as e:  # noqa: BLE001
                return ('raise', e)


def check(case):
    blks = case['blocks']
    n, m = case['n'], case['m']
    def _labels(kind, k, pre):
        if kind == 'auto':
            return list(range(k))
        if kind == 'ih' and k:  # two-level labels: results are labelled by (or hold) whole label tuples
            return [(pre + 'g%d' % (i * 2 // k), i) for i in range(k)]
        return [pre + '%d' % i for i in range(k)]
    il, cl = _labels(case['ilabels'], n, 'r'), _labels(case['clabels'], m, 'c')
    f = sf.Frame(sf.TypeBlocks.from_blocks([gen.freeze(b) for b in blks], shape_reference=(n, m)),
                 index=sf.IndexHierarchy.from_labels(il) if (case['ilabels'] == 'ih' and n) else il,
                 columns=sf.IndexHierarchy.from_labels(cl) if (case['clabels'] == 'ih' and m) else cl, own_data=True)
    cols = gen.block_columns(blks)
    fn, axis, skipna, ddof = case['fn'], case['axis'], case['skipna'], case['ddof']
    dom = case['dom']
    if dom in ('D3', 'D4', 'D4h') and axis == 1:
        raise Discard('axis 1 over object rows is outside the sound domain')
    if dom in ('D4', 'D4h') and fn not in ('min', 'max', 'all', 'any'):
        raise Discard('function not defined for str/datetime/object columns')
    kw = {'axis': axis, 'skipna': skipna}
    if fn in ('std', 'var'):
        kw['ddof'] = ddof
    with warnings.catch_warnings():
        warnings.simplefilter('ignore')
        with np.errstate(all='ignore'):
            r = lib(lambda: getattr(f, fn)(**kw))
    # lines
    if axis == 0:
        lines = cols
        labels, other = cl, il
    else:
        kinds = {c.dtype.kind for c in cols}
        if kinds <= {'b'}:
            rdt = np.dtype(bool)
        elif kinds <= {'i', 'u', 'b'} and 'b' not in kinds:
            rdt = np.result_type(*[c.dtype for c in cols]) if cols else np.dtype(float)
            if rdt.kind == 'f':
                rdt = np.dtype(np.float64)
        else:
            rdt = np.result_type(*[c.dtype for c in cols]) if cols else np.dtype(float)
        if 'b' in kinds and len(kinds) > 1:
            raise Discard('object row dtype')
        lines = [np.array([arr_list(c)[i] for c in cols], dtype=rdt) for i in range(n)]
        labels, other = il, cl
    tol = _tol([c.dtype for c in cols])
    classes = ['dom:' + dom, 'fn:' + fn, 'axis:%d' % axis, 'skipna' if skipna else 'noskip', 'labels:%s/%s' % (case['ilabels'], case['clabels'])]
    expected = [oracle_line(a, fn, skipna, ddof) for a in lines]
    defined = [e for e in expected if e[0] != 'raise']
    if isinstance(r, Raised):
        if expected and all(e[0] == 'raise' for e in expected):
            raise Discard('numpy rejects every line too')
        if any(e[0] == 'missing-or-reject' for e in expected):
            return {'nt': True, 'cls': classes + ['missing-rejected']}
        if not expected:
            raise Discard('reduction over no lines raised')
        if len(defined) < len(expected):
            raise Discard('numpy rejects some line')
        raise Failure('raised:%s' % r.cls, '%s(%s) raised %r; NumPy evaluates every %s alone: %s' % (fn, kw, r.exc, 'column' if axis == 0 else 'row', short([e[1] for e in expected])), r.where)
    if len(defined) < len(expected):
        raise Discard('numpy rejects some line; the frame did not raise')
    if fn in ('cumsum', 'cumprod'):
        if not isinstance(r, sf.Frame) or r.shape != (n, m):
            raise Failure('shape', '%s returned %s' % (fn, short(r)))
        obs.expect_labels(r.index, il, fn + '.index')
        obs.expect_labels(r.columns, cl, fn + '.columns')
        got_cols = [arr_list(c) for c in obs.frame_cols(r)]
        for q, e in enumerate(expected):
            w = arr_list(np.asarray(e[1]))
            g = got_cols[q] if axis == 0 else [got_cols[j][q] for j in range(m)]
            if len(g) != len(w) or not all(_close(a, b, tol) for a, b in zip(g, w)):
                raise Failure('value', '%s(axis=%d, skipna=%s) %s %r: got %s expected %s' % (fn, axis, skipna, 'column' if axis == 0 else 'row', labels[q], short(g), short(w)))
    else:
        if not isinstance(r, sf.Series):
            raise Failure('kind', '%s returned %s' % (fn, short(r)))
        obs.expect_labels(r.index, labels, fn + ' result labels')
        got = arr_list(r.values)
        for q, e in enumerate(expected):
            g = got[q]
            if isinstance(g, np.ndarray):
                raise Failure('value', '%s(axis=%d, skipna=%s)[%r] is an array %s, expected an element' % (fn, axis, skipna, labels[q], short(g)))
            if e[0] == 'missing-or-reject':
                if not is_missing(g):
                    raise Failure('missing-not-propagated', '%s(axis=%d, skipna=False)[%r] = %r although the line holds a missing value %s' % (fn, axis, labels[q], g, short(lines[q])))
                continue
            w = e[1]
            if fn in ('loc_min', 'loc_max'):
                w = other[int(w)]
                if not eq(canon(g), canon(w)):
                    raise Failure('value', '%s(axis=%d, skipna=%s)[%r] = %r expected label %r (line %s)' % (fn, axis, skipna, labels[q], g, w, short(lines[q])))
                continue
            if isinstance(w, (np.floating, float)) and math.isnan(float(w)) and not skipna and lines[q].dtype.kind in 'fc':
                if not is_missing(g):
                    raise Failure('missing-not-propagated', '%s(axis=%d, skipna=False)[%r] = %r, NumPy propagates the missing value (line %s)' % (fn, axis, labels[q], g, short(lines[q])))
                continue
            if not _close(g, w, tol) and lines[q].dtype.kind == 'f' and lines[q].dtype.itemsize < 8:
                # a narrow float line: NumPy accumulates in the narrow dtype (float16 overflows to inf at 65504, loses
                # digits); a result computed at a wider precision is the better answer and is accepted as well
                e64 = oracle_line(lines[q].astype(np.float64), fn, skipna, ddof)
                if e64[0] == 'value' and _close(g, e64[1], max(tol, 1e-3)):
                    continue
            if not _close(g, w, tol):
                raise Failure('value', '%s(axis=%d, skipna=%s%s)[%r] = %r expected %r (line %s, dtype %s)' % (
                    fn, axis, skipna, ', ddof=%d' % ddof if fn in ('std', 'var') else '', labels[q], g, w, short(lines[q]), lines[q].dtype))
    multi = len({b.dtype for b in blks}) >= 2
    has_missing = any(is_missing(x) for c in cols for x in arr_list(c))
    return {'nt': bool(expected) and (multi or (has_missing and not skipna)), 'cls': classes + (['multi-dtype'] if multi else [])}


def tag(case, f):
    blks = case['blocks']
    dts = [b.dtype for b in blks]
    fn = case['fn']
    narrow = any(d.kind in 'iu' and d.itemsize < 8 for d in dts) or any(d.kind == 'b' for d in dts)
    # (a) sum/prod/cumsum/cumprod over narrow ints or bools in a multi-block frame: the output array takes the
    # row dtype, so the value wraps (int8) or stays Boolean, where NumPy on the column alone widens to int64
    # (axis 0 only: along axis 1 sum/prod are evaluated on the consolidated array and are correct)
    # ... and only when the line that differs is itself a narrow-int / Boolean column (the detail names its dtype)
    import re
    mline = re.search(r'dtype (\w+)\)\s*$', f.detail)
    line_narrow = True
    if mline:
        try:
            ld = np.dtype(mline.group(1))
            line_narrow = ld.kind == 'b' or (ld.kind in 'iu' and ld.itemsize < 8)
        except TypeError:
            line_narrow = True
    if f.kind == 'value' and fn in ('sum', 'prod', 'cumsum', 'cumprod') and narrow and line_narrow and len(blks) > 1 and case['axis'] == 0:
        return 'narrow-output-dtype-in-multiblock-sum-prod'
    if f.kind.startswith('raised:OverflowError') and fn in ('sum', 'prod') and narrow and case['axis'] == 0:
        return 'narrow-output-dtype-in-multiblock-sum-prod'
    # (f) cumulative operations run on the consolidated values
    if fn in ('cumsum', 'cumprod') and f.kind == 'value' and len({d for d in dts}) > 1:
        return 'cumulative-ops-evaluated-at-consolidated-row-dtype'
    # (b) zero-sized axes
    if case['n'] == 0 or case['m'] == 0:
        return 'reduction-over-zero-sized-axis-raises-or-differs'
    # (c) frames whose row dtype is object (bool mixed with numbers, str/datetime/object mixes): the axis-0 reduction is
    # evaluated on object rows instead of on each typed column: NaN is not propagated by min/max, comparisons raise
    kinds = {d.kind for d in dts}
    if case['dom'] in ('D3', 'D4') and len(kinds) > 1 and (f.kind == 'missing-not-propagated' or f.kind.startswith('raised:')):  # (a wrong *value* is not this finding)
        return 'axis0-reduction-over-object-row-dtype'
    # (e) min/max with skipna=True over a datetime64 column do not skip NaT
    if fn in ('min', 'max') and case['skipna'] and f.kind == 'value' and any(d.kind in 'mM' for d in dts) and 'NaT' in f.detail:
        return 'datetime-min-max-skipna-does-not-skip-nat'
    # (d) all/any over datetime64 columns holding NaT
    if fn in ('all', 'any') and any(d.kind in 'mM' for d in dts) and f.kind.startswith('raised:TypeError'):
        return 'logical-reduction-over-datetime-with-nat-raises'
    return None


def enum_dt_logical(tier):
    for n in (1, 2, 3):
        for widths in ((1, 2), (2, 1), (1, 1, 2), (3, 2), (2, 2, 2)):
            for unit in ('D', 's'):
                for fn in ('all', 'any'):
                    for skipna in (True, False):
                        yield {'n': n, 'widths': widths, 'unit': unit, 'fn': fn, 'skipna': skipna}


def check_dt_logical(case):
    """Regression probe for results read from an uninitialised output array: the allocator is primed with
    zero-filled Boolean buffers of the result size before every call; every datetime64 value is truthy."""
    n, widths = case['n'], case['widths']
    m = sum(widths)
    blks = []
    for w in widths:
        a = np.array([np.datetime64(18000 + i, case['unit']) for i in range(n * w)]).reshape(n, w)
        blks.append(a if w > 1 else (a.reshape(n) if n % 2 else a))
    f = sf.Frame(sf.TypeBlocks.from_blocks([gen.freeze(b) for b in blks]))
    for trial in range(12):
        junk = [np.zeros(m, dtype=bool) for _ in range(8)]
        del junk
        r = lib(lambda: getattr(f, case['fn'])(axis=0, skipna=case['skipna']))
        if isinstance(r, Raised):
            raise Failure('raised:%s' % r.cls, '%s over datetime64 blocks raised %r' % (case['fn'], r.exc), r.where)
        if not all(bool(x) for x in arr_list(r.values)):
            raise Failure('uninitialised', '%s(axis=0, skipna=%s) over truthy datetime64 blocks %s returned %s on trial %d' % (
                case['fn'], case['skipna'], [b.shape for b in blks], arr_list(r.values), trial))
    return {'nt': len(widths) >= 2, 'cls': ['dt-logical:' + case['fn']]}


# ---------------------------------------------------------------------------------------------
# frames with a single row or a single column: every assignment of column kinds (bool / int / float, with and without
# a NaN) x both layouts x every function x skipna x axis; the size-one short cuts of the block-wise reduction live here

LINE_KINDS = ('f_nan', 'f_val', 'int', 'bool', 'f32_nan')


def _line_col(kind, n, j):
    if kind == 'f_nan':
        a = np.array([2.5 + j + i for i in range(n)], dtype=np.float64)
        a[0] = np.nan
    elif kind == 'f_val':
        a = np.array([1.5 + j + i for i in range(n)], dtype=np.float64)
    elif kind == 'int':
        a = np.array([3 + j + i for i in range(n)], dtype=np.int64)
    elif kind == 'bool':
        a = np.array([(i + j) % 2 == 0 for i in range(n)], dtype=bool)
    else:
        a = np.array([0.5 + j + i for i in range(n)], dtype=np.float32)
        a[n - 1] = np.nan
    return a


def enum_lines(tier):
    import itertools
    shapes = [(1, 1), (1, 2), (1, 3), (2, 1), (3, 1), (2, 2)] if tier == 'quick' else [(1, 1), (1, 2), (1, 3), (1, 4), (2, 1), (3, 1), (2, 2), (2, 3)]
    for (n, m) in shapes:
        for kinds in itertools.product(LINE_KINDS, repeat=m):
            for layout in ('split', 'cons'):
                if layout == 'cons' and not any(kinds[j] == kinds[j + 1] for j in range(m - 1)) and m > 1:
                    continue
                for fn in FUNCS:
                    for skipna in (True, False):
                        for axis in (0, 1):
                            yield {'line': True, 'n': n, 'm': m, 'kinds': kinds, 'layout': layout, 'fn': fn, 'skipna': skipna, 'axis': axis}


def check_line(case):
    n, m, kinds = case['n'], case['m'], case['kinds']
    cols = [_line_col(k, n, j) for j, k in enumerate(kinds)]
    blocks = gen.layout_consolidated(cols) if case['layout'] == 'cons' else gen.layout_split(cols)
    has_bool = any(k == 'bool' for k in kinds)
    others = any(k != 'bool' for k in kinds)
    dom = 'D2' if (has_bool and not others) else ('D3' if has_bool else 'D1')
    if dom == 'D3' and case['axis'] == 1:
        raise Discard('axis-1 values on object rows are not judged (ASSUMPTIONS)')
    full = {'dom': dom, 'blocks': blocks, 'n': n, 'm': m, 'fn': case['fn'], 'axis': case['axis'], 'skipna': case['skipna'], 'ddof': 0,
            'ilabels': 'auto', 'clabels': 'str'}
    case['blocks'], case['dom'] = blocks, dom  # for the classifier
    info = check(full) or {}
    return {'nt': m >= 2 or n >= 2, 'cls': ['line:%dx%d' % (n, m), 'line-dom:' + dom] + [c for c in info.get('cls', ()) if c.startswith('fn:')]}


# ---------------------------------------------------------------------------------------------
# frames reached by growth: a FrameGO of narrow columns grown by wider columns of the same kind (nothing read in between);
# reductions are judged against NumPy on each line of the true cells (no missing values, functions every row dtype supports)

GROWN_FUNCS = ('sum', 'min', 'max', 'iloc_min', 'iloc_max', 'loc_max', 'cumsum', 'mean')   # (no prod: where an int64 product overflows, rows held as objects do not wrap)


@st.composite
def grown_cases(draw):
    fn = draw(st.sampled_from(GROWN_FUNCS))
    axis = draw(st.integers(0, 1))
    fam = draw(st.sampled_from([('int8', 'int64'), ('float32', 'float64'), ('int8', 'int64'), ('uint8', 'int64'), ('int64', 'int64')]))
    how = draw(st.sampled_from(['setitem', 'extend', 'extend_items']))
    n = draw(st.integers(1, 4))
    m0, m1 = draw(st.integers(1, 3)), draw(st.integers(1, 2))
    narrow = [draw(st.lists(st.integers(1, 9), min_size=n, max_size=n)) for _ in range(m0)]
    big = {'int64': [1000, 70000, -300, 2 ** 40 + 3], 'float64': [0.1, 16777217.0, 1e-3, 2.0 ** 60]}[fam[1]]
    wide = [draw(st.lists(st.sampled_from(big), min_size=n, max_size=n)) for _ in range(m1)]
    return {'fn': fn, 'axis': axis, 'fam': fam, 'how': how, 'n': n, 'narrow': narrow, 'wide': wide, 'skipna': draw(st.booleans()), 'one_block': draw(st.booleans())}


def check_grown(case):
    fn, axis, n = case['fn'], case['axis'], case['n']
    d0, d1 = case['fam']
    a0 = [np.array(c, dtype=d0) for c in case['narrow']]
    a1 = [np.array(c, dtype=d1) for c in case['wide']]
    first = np.column_stack(a0) if (case['one_block'] and len(a0) > 1) else None
    labels = ['c%d' % j for j in range(len(a0) + len(a1))]
    index = ['r%d' % i for i in range(n)]
    if first is not None:
        f = sf.FrameGO(gen.freeze(first), index=index, columns=labels[:len(a0)])
    else:
        f = sf.FrameGO.from_items(zip(labels[:len(a0)], [gen.freeze(a) for a in a0]), index=index)
    new = list(zip(labels[len(a0):], [gen.freeze(a) for a in a1]))
    if case['how'] == 'setitem':
        for k, a in new:
            f[k] = a
    elif case['how'] == 'extend_items':
        f.extend_items(new)
    else:
        f.extend(sf.Frame.from_items(new, index=index))
    cols = a0 + a1
    wide_dt = np.result_type(*[c.dtype for c in cols])
    lines = [c.astype(wide_dt) for c in cols] if axis == 0 else [np.array([c[i] for c in cols], dtype=wide_dt) for i in range(n)]
    other = labels if axis == 1 else index   # labels of the axis reduced along
    npf = {'iloc_min': np.argmin, 'iloc_max': np.argmax, 'loc_max': np.argmax}.get(fn) or getattr(np, fn)
    with np.errstate(all='ignore'):
        want = [npf(l) for l in lines]
    if fn == 'loc_max':
        want = [other[int(p)] for p in want]
    kw = {} if fn == 'cumsum' else {'skipna': case['skipna']}
    r = lib(lambda: getattr(f, fn)(axis=axis, **kw))
    what = 'FrameGO of %d %s column(s) grown (%s) by %d %s column(s): %s(axis=%d)' % (len(a0), d0, case['how'], len(a1), d1, fn, axis)
    if isinstance(r, Raised):
        raise Failure('raised:%s' % r.cls, '%s raised %r' % (what, r.exc), r.where)
    if fn == 'cumsum':
        got = [arr_list(c) for c in obs.frame_cols(r)] if axis == 0 else [arr_list(row) for row in r.values]
        want = [arr_list(w) for w in want]
        ok = len(got) == len(want) and all(len(g) == len(w) and all(_close(x, y, 1e-12) for x, y in zip(g, w)) for g, w in zip(got, want))
    else:
        got = arr_list(r.values)
        ok = len(got) == len(want) and all((eq(g, w) if fn == 'loc_max' else _close(g, w, 1e-12)) for g, w in zip(got, want))
    if not ok:
        raise Failure('value', '%s -> %s; NumPy on each line of the true cells gives %s' % (what, short(got, 200), short([arr_list(w) if hasattr(w, 'tolist') and np.ndim(w) else w for w in want], 200)))
    return {'nt': d0 != d1, 'cls': ['grown:' + fn, 'grown-axis:%d' % axis, 'grown-fam:%s>%s' % (d0, d1), 'grown-how:' + case['how']]}


SUBS = [
    Sub('reduce', cases(), check, quick=20000, thorough=160000, tag=tag,
        rule='frame.f(axis, skipna) vs NumPy on each column/row alone'),
    Sub('lines', None, check_line, quick=0, thorough=0, tag=tag, enum=enum_lines,
        rule='complete enumeration of single-row / single-column frames over 5 column kinds, both layouts, every function, skipna, axis'),
    Sub('dt_logical', None, check_dt_logical, quick=0, thorough=0, enum=enum_dt_logical,
        rule='all/any over multi-block datetime64 frames with a primed allocator (regression probe for uninitialised results)'),
    Sub('grown', grown_cases(), check_grown, quick=2400, thorough=16000,
        rule='reductions over a FrameGO of narrow columns grown by wider columns of the same kind (setitem / extend / extend_items) vs NumPy on each line of the true cells'),
]
