"""C16 — single-table export/import round trips reproduce the Frame.

delimited: to_csv / to_tsv / to_delimited -> text -> from_* with the matching depths, for cells
    whose text is unambiguous for their type (rule stated below and in evidence).
structural: to_pairs -> from_items, iter_tuple -> from_records, items() -> from_items,
    pickle (dtypes, names, flags, class), deepcopy.
"""
import copy
import io
import os
import shutil
import tempfile
import pickle

import numpy as np
from hypothesis import strategies as st

from vf import gen, obs
from vf.base import Discard, Failure, Raised, arr_list, canon, eq, is_missing, lib, sf, short
from vf.harness import Sub

PID = 'C16'
RULE = ('Frames over bool/int64/float64/str columns, str or int labels, index depth 1-3, columns depth 1-2, delimiters , TAB | ; x include_index/include_columns with matching '
        'index_depth/columns_depth. Unambiguous-text rule: a str cell or label is drawn from an alphabet incl. the delimiter, double quote, single quote, inner/leading/trailing '
        'space, backslash, #, digits, but stripped it must not parse as int/float/complex/bool nor be one of nan NaN NAN NULL #N/A None inf -inf, and is non-empty under the '
        'default StoreFilter (a second configuration with StoreFilter disabled includes the empty string); non-trivial = a str cell holding delimiter/quote/space, or depth > 1 on an axis')
ASSUMPTIONS = ['names of the index/columns are not compared (the statement lists labels, values, kinds of types)', 'int widths and str widths may widen; the dtype kind must be kept',
               'cells with newline / carriage return are not generated']

ALPHABET = 'ab Z,"\';|#\\1-.:_é'
AMBIG = {'nan', 'NaN', 'NAN', 'NULL', '#N/A', 'None', 'inf', '-inf', 'Inf', 'NA', 'N/A', 'null', 'n/a', 'nan.', ''}


def unambiguous(s):
    t = s.strip()
    if t != s and not t:
        return False
    if t in AMBIG or t.lower() in ('true', 'false', 'nan', 'inf', '-inf', '+inf', 'infinity', '-infinity', 'none', 'null', 'na'):
        return False
    for conv in (int, float, complex):
        try:
            conv(t)
            return False
        except ValueError:
            pass
    if t.replace('_', '').lstrip('+-').replace('.', '', 1).replace('e', '', 1).replace('E', '', 1).replace('-', '').replace('+', '').isdigit():
        return False
    return True


EDGE = [False, False]  # [allow leading/trailing space, allow the quote char]: set per case (known findings kept rare)
QUOTE = ['"']  # the quote character of the case being generated


def text_cells(allow_tab=False, min_size=1):
    alpha = ALPHABET + ('\t' if allow_tab else '')

    def ok(s):
        if not EDGE[0] and s != s.strip():
            return False
        if not EDGE[1] and QUOTE[0] in s:
            return False
        return unambiguous(s) or (min_size == 0 and s == '')
    return st.text(alphabet=alpha, min_size=min_size, max_size=6).filter(ok)


@st.composite
def labels_strategy(draw, n, kind):
    if kind == 'int':
        return draw(st.lists(st.integers(-50, 500), min_size=n, max_size=n, unique=True))
    return draw(st.lists(text_cells(), min_size=n, max_size=n, unique=True))


@st.composite
def axis_labels(draw, n, depth):
    if depth == 1:
        return draw(labels_strategy(n, draw(st.sampled_from(['int', 'str'])))), 1
    if n == 0:
        return [], 1
    # tree-shaped tuples with str / int levels
    kinds = [draw(st.sampled_from(['int', 'str'])) for _ in range(depth)]
    pools = [draw(labels_strategy(max(2, min(n, 4)), k)) for k in kinds]
    labels = [()]
    for d in range(depth):
        new = []
        for parent in labels:
            if d == depth - 1:
                for lab in pools[d]:
                    new.append(parent + (lab,))
            else:
                k = draw(st.integers(1, min(len(pools[d]), 2)))
                for lab in pools[d][:k]:
                    new.append(parent + (lab,))
        labels = new
    labels = labels[:n]
    if len(labels) < n:
        return None, depth
    return labels, depth


@st.composite
def frame_cases(draw):
    # decisive choices first (late draws are pinned to their first option for a share of Hypothesis's examples)
    delim = draw(st.sampled_from([',', '\t', '|', ';']))
    route = draw(st.sampled_from(['delimited', 'delimited', 'named']))
    quote = draw(st.sampled_from(['"', "'", '"']))
    QUOTE[0] = quote
    via = draw(st.sampled_from(['stringio', 'path', 'lines']))
    inc_i, inc_c, consolidate = draw(st.booleans()), draw(st.booleans()), draw(st.booleans())
    n = draw(st.sampled_from([3, 2, 1, 4, 5]))
    m = draw(st.sampled_from([3, 2, 1, 4]))
    EDGE[0] = draw(st.integers(0, 7)) == 7
    EDGE[1] = delim != '\t' or draw(st.integers(0, 7)) == 7
    idepth = draw(st.sampled_from([1, 1, 2, 3]))
    cdepth = draw(st.sampled_from([1, 1, 2]))
    il, idepth = draw(axis_labels(n, idepth))
    cl, cdepth = draw(axis_labels(m, cdepth))
    if il is None or cl is None:
        il, idepth = draw(axis_labels(n, 1))
        cl, cdepth = draw(axis_labels(m, 1))
    disable_filter = draw(st.booleans()) and draw(st.booleans())
    cols = []
    for j in range(m):
        kind = draw(st.sampled_from(['str', 'int64', 'float64', 'bool', 'str', 'ostr']))
        if kind == 'ostr' and not disable_filter:
            # text with missing cells (None / NaN) in an object column: written as 'None' / '' and read back through the filter
            vals = draw(st.lists(st.one_of(text_cells(min_size=1), st.sampled_from([None, float('nan')])), min_size=n, max_size=n))
            if not any(v is None or v != v for v in vals):
                vals[-1] = None
            if all(v is None or v != v for v in vals):
                vals[0] = 'a b'  # a column of empty cells only carries no type information (as for float columns)
            a = np.empty(n, dtype=object)
            a[:] = vals
            cols.append(a)
        elif kind in ('str', 'ostr'):
            vals = draw(st.lists(text_cells(min_size=0 if disable_filter else 1), min_size=n, max_size=n))
            if all(v == '' for v in vals):
                vals[0] = 'a b'
            w = max([len(v) for v in vals] + [1])
            cols.append(np.array(vals, dtype='<U%d' % w))
        elif kind == 'float64':
            vals = draw(st.lists(st.one_of(st.floats(allow_nan=False, allow_infinity=False, width=64), st.sampled_from([float('nan'), float('inf'), -float('inf'), -0.0, 1e300, 0.1, 2.0 ** 53])),
                                 min_size=n, max_size=n))
            if all(v != v for v in vals):
                vals[0] = 1.5  # a column of empty cells only carries no type information
            cols.append(np.array(vals, dtype=np.float64))
        elif kind == 'int64':
            cols.append(np.array(draw(st.lists(st.integers(-2 ** 62, 2 ** 62), min_size=n, max_size=n)), dtype=np.int64))
        else:
            cols.append(np.array(draw(st.lists(st.booleans(), min_size=n, max_size=n)), dtype=bool))
    return {'il': il, 'cl': cl, 'idepth': idepth, 'cdepth': cdepth, 'cols': cols, 'delim': delim,
            'include_index': inc_i or idepth > 1 or (m == 1 and draw(st.integers(0, 7)) < 7), 'include_columns': inc_c or cdepth > 1, 'disable_filter': disable_filter,
            'consolidate': consolidate, 'route': route, 'quote': quote, 'via': via}


def _index(labels, depth):
    if depth == 1:
        return sf.Index(labels)
    return sf.IndexHierarchy.from_labels(labels)


def check_delimited(case):
    il, cl, cols = case['il'], case['cl'], case['cols']
    n, m = len(il), len(cl)
    inc_i, inc_c = case['include_index'], case['include_columns']
    delim = case['delim']
    blocks = gen.layout_consolidated(cols) if case['consolidate'] else gen.layout_split(cols)
    idx = lib(_index, il, case['idepth'])
    cix = lib(_index, cl, case['cdepth'])
    if isinstance(idx, Raised) or isinstance(cix, Raised):
        raise Discard('labels rejected by the index constructor')
    f = sf.Frame(sf.TypeBlocks.from_blocks([gen.freeze(b) for b in blocks], shape_reference=(n, m)),
                 index=idx if inc_i else None, columns=cix if inc_c else None, own_data=True)
    sfl = {'store_filter': sf.StoreFilter(from_nan=False, from_nat=False, from_none=False, from_posinf=False, from_neginf=False,
                                          to_nan=frozenset(), to_nat=frozenset(), to_none=frozenset(), to_posinf=frozenset(), to_neginf=frozenset())} if case['disable_filter'] else {}
    if case['disable_filter'] and any(c.dtype.kind == 'f' and (np.isnan(c).any() or np.isinf(c).any()) for c in cols):
        raise Discard('disabled filter with non-finite floats')
    buf = io.StringIO()
    quote = case.get('quote', '"')
    qkw = {'quote_char': quote} if quote != '"' else {}
    if case['route'] == 'named' and delim in (',', '\t'):
        w = lib(lambda: (f.to_csv if delim == ',' else f.to_tsv)(buf, include_index=inc_i, include_columns=inc_c, **sfl, **qkw))
    else:
        w = lib(lambda: f.to_delimited(buf, delimiter=delim, include_index=inc_i, include_columns=inc_c, **sfl, **qkw))
    if isinstance(w, Raised):
        raise Failure('raised:%s' % w.cls, 'export raised %r' % w.exc, w.where)
    text = buf.getvalue()
    kw = dict(index_depth=case['idepth'] if inc_i else 0, columns_depth=case['cdepth'] if inc_c else 0, **sfl, **qkw)
    # reader options without effect on the content: the name given to the Frame, merging of equal-typed neighbouring blocks
    ropt = (n * 7 + m * 3 + len(text)) % 4
    if ropt in (1, 3):
        kw['name'] = 'rn'
    if ropt in (2, 3):
        kw['consolidate_blocks'] = True
    via = case.get('via', 'stringio')
    tmpdir = None
    if via == 'path':
        tmpdir = tempfile.mkdtemp(prefix='vf_c16_', dir='/dev/shm' if os.path.isdir('/dev/shm') else None)
        src = os.path.join(tmpdir, 't.txt')
        with open(src, 'w', newline='') as fh:
            fh.write(text)
        mk = lambda: src  # noqa: E731
    elif via == 'lines':
        mk = lambda: iter(text.splitlines(keepends=True)) if '\n' not in text.replace('\r\n', '').replace('\n', '', text.count('\n')) else io.StringIO(text)  # noqa: E731
    else:
        mk = lambda: io.StringIO(text)  # noqa: E731
    try:
        if case['route'] == 'named' and delim in (',', '\t'):
            r = lib(lambda: (sf.Frame.from_csv if delim == ',' else sf.Frame.from_tsv)(mk(), **kw))
        else:
            r = lib(lambda: sf.Frame.from_delimited(mk(), delimiter=delim, **kw))
    finally:
        if tmpdir:
            shutil.rmtree(tmpdir, ignore_errors=True)
    classes = ['quote:' + quote, 'via:' + via, 'delim:' + repr(delim), 'idepth:%d' % (case['idepth'] if inc_i else 0), 'cdepth:%d' % (case['cdepth'] if inc_c else 0),
               'filter-off' if case['disable_filter'] else 'filter-default']
    if isinstance(r, Raised):
        raise Failure('raised:%s' % r.cls, 'import of %r raised %r' % (text[:300], r.exc), r.where)
    want_il = [canon(x) for x in il] if inc_i else list(range(n))
    want_cl = [canon(x) for x in cl] if inc_c else list(range(m))
    if obs.canon_name(r.name) != obs.canon_name(kw.get('name')):
        raise Failure('name', 'import with name=%r returned a Frame named %r' % (kw.get('name'), r.name))
    try:
        obs.LOOSE_MISSING[0] = True
        obs.expect_frame(r, want_il, want_cl, [arr_list(c) for c in cols], 'round trip')
    except Failure as e:
        raise Failure(e.kind, '%s; text=%r' % (e.detail, text[:400]))
    for j, (g, c) in enumerate(zip(obs.frame_cols(r), cols)):
        kg = 'i' if g.dtype.kind in 'iu' else g.dtype.kind
        kw_ = 'i' if c.dtype.kind in 'iu' else c.dtype.kind
        if kg != kw_:
            # an all-NaN float column has no text to infer a type from
            if c.dtype.kind == 'f' and np.isnan(c).all():
                continue
            # an object column of text without a missing cell comes back as a str column
            if c.dtype == object and g.dtype.kind == 'U' and not any(is_missing(v) for v in c.tolist()):
                continue
            raise Failure('dtype', 'column %d: dtype %s came back as %s; text=%r' % (j, c.dtype, g.dtype, text[:300]))
    special = any(c.dtype.kind in 'UO' and any(isinstance(v, str) and ((delim in v) or ('"' in v) or ("'" in v) or (' ' in v)) for v in c.tolist()) for c in cols)
    return {'nt': special or (inc_i and case['idepth'] > 1) or (inc_c and case['cdepth'] > 1), 'cls': classes + (['special-cell'] if special else [])}


# ---------------------------------------------------------------------------------------------

@st.composite
def struct_cases(draw):
    route = draw(st.sampled_from(['pairs', 'records', 'items', 'pickle', 'deepcopy', 'pickle_he', 'pickle_go', 'pairs_rows']))  # decisive choice first
    # (column kinds: any mix, or numbers only / numbers and bools, whose rows would resolve to one numeric type)
    kinds = draw(st.sampled_from([('bool', 'int64', 'float64', '<U3', 'object', 'M8[D]', 'int32'), ('int64', 'float64'), ('int64', 'float64', 'int32', 'bool'),
                                  ('bool', 'int64', 'float64', '<U3')]))
    # one case in four exports a frame reached by growth (a FrameGO grown block by block, nothing read in between); half of those
    # draw their columns from one dtype kind, narrow before wide
    grown = draw(st.integers(0, 3)) == 3
    if grown:
        kinds = draw(st.sampled_from([('<U1', '<U3'), kinds, ('M8[D]', 'M8[s]'), kinds]))
        route = draw(st.sampled_from(['records', 'pairs_rows', 'pairs', 'items']))
    rec = draw(gen.frame_recipe(min_rows=0, max_rows=5, min_cols=0, max_cols=5, kinds=kinds,
                                index_kinds=('auto', 'int', 'str', 'date', 'ih'), column_kinds=('auto', 'int', 'str', 'ih')))
    return {'rec': rec, 'route': route, 'grown': grown,
            'iname': draw(st.sampled_from([None, 'in'])), 'cname': draw(st.sampled_from([None, 'cn']))}


def check_struct(case):
    rec = case['rec']
    route = case['route']
    cls = {'pickle_he': sf.FrameHE, 'pickle_go': sf.FrameGO}.get(route, sf.Frame)
    f = gen.build_frame(rec, cls)
    grown = bool(case.get('grown')) and route in ('pairs', 'records', 'items', 'pairs_rows') and len(rec['blocks']) >= 2 and rec['columns']['kind'] != 'ih' \
        and all(b.size or b.ndim == 1 for b in rec['blocks'])
    if grown:
        from vf.props.c03 import _grown_frame
        f = _grown_frame(rec)
    if rec['index']['kind'] != 'auto':
        f = f.rename(index=case['iname']) if route.startswith('pickle') else f
    n, m = f.shape
    s0 = obs.snap(f)
    if route in ('pickle', 'pickle_he', 'pickle_go', 'deepcopy'):
        r = lib(lambda: pickle.loads(pickle.dumps(f)) if route != 'deepcopy' else copy.deepcopy(f))
        if isinstance(r, Raised):
            raise Failure('raised:%s' % r.cls, '%s raised %r' % (route, r.exc), r.where)
        if obs.snap(r) != s0:
            raise Failure('roundtrip', '%s: %s -> %s' % (route, short(s0, 400), short(obs.snap(r), 400)))
        if type(r) is not type(f):
            raise Failure('class', '%s changed class %s -> %s' % (route, type(f).__name__, type(r).__name__))
        from vf.props.c01 import assert_frozen
        assert_frozen(r, route)
        if not f.equals(r, compare_name=True, compare_dtype=True, compare_class=True):
            raise Failure('equals', '%s: original.equals(copy) is False' % route)
        return {'nt': n > 0 and m > 0, 'cls': ['struct:' + route]}
    cols = gen.block_columns(rec['blocks'])
    il, cl = list(f.index), list(f.columns)
    if route == 'pairs':
        tp = f.to_pairs(0)
        ckw = {'columns_constructor': sf.IndexHierarchy.from_labels} if f.columns.depth > 1 else {}
        ikw = {'index_constructor': sf.IndexHierarchy.from_labels} if f.index.depth > 1 else ({'index_constructor': sf.IndexDate} if isinstance(f.index, sf.IndexDate) else {})
        r = lib(lambda: sf.Frame.from_items(((c, [v for _, v in pairs]) for c, pairs in tp), index=[k for k, _ in tp[0][1]] if tp else None, **ckw, **ikw))
        if m == 0:
            raise Discard('no columns to rebuild from pairs')
    elif route == 'pairs_rows':
        # pairs by row: (row label, ((column label, cell), ...)), rebuilt as records
        tp = f.to_pairs(1)
        if n == 0 or m == 0:
            raise Discard('no rows/columns')
        r = lib(lambda: sf.Frame.from_records([[v for _, v in pairs] for _, pairs in tp], index=f.index, columns=f.columns))
    elif route == 'records':
        rows = list(f.iter_tuple(axis=1, constructor=tuple))
        if n == 0 or m == 0:
            raise Discard('no rows/columns')
        r = lib(lambda: sf.Frame.from_records(rows, index=f.index, columns=f.columns))
    else:
        if m == 0:
            raise Discard('no columns')
        ckw = {'columns_constructor': sf.IndexHierarchy.from_labels} if f.columns.depth > 1 else {}
        r = lib(lambda: sf.Frame.from_items(((k, v.values) for k, v in f.items()), index=f.index, **ckw))
    if isinstance(r, Raised):
        raise Failure('raised:%s' % r.cls, 'rebuild via %s raised %r' % (route, r.exc), r.where)
    want_il = obs.labels_of(f.index)
    want_cl = obs.labels_of(f.columns)
    obs.LOOSE_MISSING[0] = True
    got_il, got_cl = obs.labels_of(r.index), obs.labels_of(r.columns)
    if not (len(got_il) == len(want_il) and all(eq(a, b) for a, b in zip(got_il, want_il))):
        raise Failure('labels', '%s: index %s expected %s' % (route, short(got_il), short(want_il)))
    if not (len(got_cl) == len(want_cl) and all(eq(a, b) for a, b in zip(got_cl, want_cl))):
        raise Failure('labels', '%s: columns %s expected %s' % (route, short(got_cl), short(want_cl)))
    for j, (g, c) in enumerate(zip(obs.frame_cols(r), cols)):
        obs.expect_values(arr_list(g), arr_list(c), '%s col %d' % (route, j))
    if route in ('pairs', 'items'):
        # column-wise export: every column travels alone, so it comes back with the same kind of type
        for j, (g, c) in enumerate(zip(obs.frame_cols(r), cols)):
            if c.dtype.kind in 'biufU' and g.dtype.kind != c.dtype.kind and len(c):  # (bool / int / float / str columns, as quantified)
                raise Failure('kind', '%s: column %d of kind %r (%s) came back as %r (%s): %s' % (route, j, c.dtype.kind, c.dtype, g.dtype.kind, g.dtype, short(arr_list(g), 120)))
    if not r.equals(f):
        raise Failure('equals', '%s: rebuilt frame does not equal the original' % route)
    return {'nt': n > 0 and m > 0, 'cls': ['struct:' + route, 'struct-source:' + ('grown' if grown else 'built')]}


def tag(case, f):
    if 'delim' not in case:
        return None
    text_columns = (case['idepth'] if case['include_index'] else 0) + len(case['cl'])
    if text_columns == 1:
        # np.genfromtxt returns a 1-D (or 0-d) array for single-column text; rows and columns are confused
        return 'single-column-text-not-round-tripped'
    delim = case['delim']
    cells = [v for c in case['cols'] if c.dtype.kind in 'UO' for v in c.tolist() if isinstance(v, str)]
    labs = []
    for l in list(case['il']) + list(case['cl']):
        labs += [x for x in (l if isinstance(l, tuple) else (l,)) if isinstance(x, str)]
    texts = cells + labs
    # leading / trailing white space of a str cell or label is stripped on import
    if f.kind in ('labels', 'value') and any(t != t.strip() for t in texts):
        import re
        mm = re.search(r"expected '((?:[^'\\]|\\.)*)' got '((?:[^'\\]|\\.)*)'", f.detail)
        if mm is None or mm.group(1).strip() == mm.group(2).strip():
            return 'leading-trailing-space-stripped-on-import'
    if f.kind.startswith('raised:ErrorInitIndex') and len({t.strip() for t in labs}) < len(set(labs)):
        return 'leading-trailing-space-stripped-on-import'
    # TSV output is never un-quoted on import: a cell holding the quote char (or needing quotes) comes back quoted
    # (the active quote character; only label / value mismatches, the form the finding takes)
    if delim == '\t' and f.kind in ('labels', 'value') and any((case.get('quote', '"') in t) for t in texts):
        return 'tsv-quoted-cells-not-unquoted'
    return None


# ---------------------------------------------------------------------------------------------
# long files: row counts around powers of two (writers and readers that work in batches or buffers change path there)

def enum_long(tier):
    rows = (1022, 1023, 1024, 1025, 2049) if tier == 'quick' else (255, 256, 257, 511, 512, 513, 1022, 1023, 1024, 1025, 2047, 2048, 2049, 4097, 8193)
    for n in rows:
        for header in (True, False):
            for index in (True, False):
                for delim in (',', '\t', '|'):
                    yield {'n': n, 'header': header, 'index': index, 'delim': delim}


def check_long(case):
    n = case['n']
    f = sf.Frame.from_items((('a', np.arange(n)), ('b', np.arange(n) * 0.5), ('c', np.array(['s%d' % (i % 97) for i in range(n)])), ('d', np.arange(n) % 3 == 0)),
                            index=np.arange(n) + 10 ** 6)
    buf = io.StringIO()
    kw = dict(include_index=case['index'], include_columns=case['header'])
    w = lib(lambda: f.to_delimited(buf, delimiter=case['delim'], **kw))
    if isinstance(w, Raised):
        raise Failure('raised:%s' % w.cls, 'to_delimited of %d rows raised %r' % (n, w.exc), w.where)
    text = buf.getvalue()
    lines = text.split('\n')
    want_lines = n + (1 if case['header'] else 0)
    if len(lines) - 1 != want_lines:
        raise Failure('lines', 'to_delimited(%r) of %d rows wrote %d lines, expected %d' % (kw, n, len(lines) - 1, want_lines))
    r = lib(lambda: sf.Frame.from_delimited(io.StringIO(text), delimiter=case['delim'], index_depth=1 if case['index'] else 0, columns_depth=1 if case['header'] else 0))
    if isinstance(r, Raised):
        raise Failure('raised:%s' % r.cls, 'reading %d rows back (%r) raised %r' % (n, kw, r.exc), r.where)
    if r.shape != f.shape:
        raise Failure('shape', '%d rows (%r): read back with shape %s' % (n, kw, r.shape))
    for j in range(4):
        if arr_list(r.iloc[:, j].values) != arr_list(f.iloc[:, j].values):
            raise Failure('value', '%d rows (%r): column %d differs after the round trip' % (n, kw, j))
    if case['index'] and arr_list(r.index.values) != arr_list(f.index.values):
        raise Failure('labels', '%d rows (%r): index differs after the round trip' % (n, kw))
    return {'nt': True, 'cls': ['long:%d' % n]}


SUBS = [
    Sub('long_files', None, check_long, quick=0, thorough=0, enum=enum_long,
        rule='enumerated row counts around 2**k (1022..2049 quick, 255..8193 thorough) x header x index x delimiter: line count and round trip'),
    Sub('delimited', frame_cases(), check_delimited, quick=4800, thorough=48000, tag=tag,
        rule='to_delimited/to_csv/to_tsv -> from_* round trip under the unambiguous-text rule'),
    Sub('structural', struct_cases(), check_struct, quick=4000, thorough=24000, tag=tag,
        rule='pairs / records / items / pickle / deepcopy round trips'),
]
