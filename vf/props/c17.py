"""C17 — Bus and multi-table stores: faithful, lazy, bounded, stale-file safe.

A history (list of step recipes) is interpreted against a Bus opened on a freshly written store
and against an eager model: dict label -> Frame as an eager full load returns it, plus an explicit
LRU list.  After every step: returned Frames equal the model, label order is the written order,
the number of loaded Frames never exceeds max_persist, evictions follow least-recently-used order,
status properties do not load, and after the backing file was touched / rewritten / deleted /
replaced the next operation that has to read the store raises StoreFileMutation.
"""
import os
import shutil
import tempfile

import numpy as np
from hypothesis import strategies as st

from vf import gen, obs
from vf.base import Discard, Failure, Raised, arr_list, canon, eq, is_missing, lib, sf, short
from vf.harness import Sub
from static_frame.core.bus import FrameDeferred
from static_frame.core.exception import StoreFileMutation

PID = 'C17'
RULE = ('1..5 Frames (varied shapes, int/float/str/bool columns, index depth 1-2 with a per-label StoreConfig) written to zip_pickle / zip_csv / zip_tsv / sqlite, a Bus opened with '
        'max_persist in {None, 1..n}, then a history of <= 14 (quick) / 30 (thorough) steps: single / list / slice / iloc / bool access, items(), values, iteration, get, '
        'status/shapes/nbytes/mloc (must not load), derivations (selection, drop, reindex, sort_index, rename, head) whose Buses are accessed later, and faults (touch forwards / backwards in time, rewrite, delete, replace with a newer / older file); '
        'non-trivial = an eviction followed by a re-access of the evicted label, or a fault followed by an access')
ASSUMPTIONS = ['optional formats (xlsx, hdf5, parquet) are not installed and are not exercised',
               'the eager model for text/SQL formats is the eager full read with the same config; faithfulness of the format is asserted separately against the written Frames',
               'mtime changes are applied with os.utime to an explicitly different time (no timing dependence)']

FORMATS = ('zip_pickle', 'zip_csv', 'zip_tsv', 'sqlite')
# (the first entry is favoured by Hypothesis for late draws: a multi-label selection, the access that loads in batches)
ACCESS = ('list', 'get', 'slice', 'get', 'bool', 'get', 'iloc', 'items', 'values', 'iter', 'get_method', 'contains')
INSPECT = ('status', 'shapes', 'nbytes', 'mloc', 'len', 'index', 'display')
DERIVE = ('sel_list', 'drop', 'reindex', 'sort_index', 'rename', 'head', 'iloc_slice')
FAULT = ('touch', 'rewrite_same', 'replace_back', 'delete', 'replace', 'touch_back')


@st.composite
def frame_spec(draw, fmt):
    n = draw(st.integers(1, 4))
    m = draw(st.integers(1, 3))
    kinds = ('int64', 'float64', '<U3', 'bool') if fmt != 'zip_pickle' else ('int64', 'float64', '<U3', 'bool', 'object', 'M8[D]')
    cols = []
    # one frame in five is homogeneous in a narrow numeric type (a single 2-D block of NumPy scalars of that type)
    narrow = draw(st.sampled_from([None, None, 'int8', None, 'float32', None, 'uint8', None, 'int16', None]))
    for j in range(m):
        k = draw(st.sampled_from(kinds))
        if narrow:
            pool = [0, 1, 2, 100, 7] if narrow == 'uint8' else ([0.5, -1.25, 3.0, 2.75] if narrow == 'float32' else [0, -1, 2, 100, -7])
            cols.append(np.array(draw(st.lists(st.sampled_from(pool), min_size=n, max_size=n)), dtype=narrow))
        elif k == '<U3':
            vals = draw(st.lists(st.sampled_from(['a', 'bb', 'c d', 'x']), min_size=n, max_size=n))
            cols.append(np.array(vals, dtype='<U3'))
        elif k == 'float64':
            cols.append(np.array(draw(st.lists(st.sampled_from([0.5, -1.25, 3.0, 1e10, 2.75]), min_size=n, max_size=n))))
        else:
            cols.append(draw(gen.column(k, n, missing=False)))
    idepth = draw(st.sampled_from([1, 0, 1, 2])) if fmt != 'sqlite' else draw(st.sampled_from([1, 0, 1]))
    if idepth == 0 and m < 2 and fmt in ('zip_csv', 'zip_tsv'):
        idepth = 1  # single-column delimited text is a listed C16 finding
    if idepth == 0:
        idx = list(range(n))  # an auto index that is not stored (include_index=False for this label only)
    elif idepth == 1:
        idx = draw(gen.flat_labels(n, draw(st.sampled_from(['int', 'str']))))
    else:
        idx = draw(gen.tree_labels_n(n, depth=2))
        if any(isinstance(x, np.datetime64) for t in idx for x in t):
            idx = [('p', i) for i in range(n)]
    if fmt == 'sqlite' and draw(st.integers(0, 5)) < 5:
        idx = sorted(idx)  # SQLite returns rows in primary-key order (known finding): keep unsorted labels rare
    return {'cols': cols, 'index': idx, 'idepth': idepth, 'columns': ['c%d' % j for j in range(m)]}


@st.composite
def step(draw):
    k = draw(st.sampled_from(['access'] * 6 + ['inspect', 'derive', 'fault']))
    s = draw(st.sampled_from({'access': ACCESS, 'inspect': INSPECT, 'derive': DERIVE, 'fault': FAULT}[k]))
    return {'k': k, 's': s, 'i': draw(st.integers(0, 30)), 'j': draw(st.integers(0, 30)), 'b': draw(st.integers(0, 3)), 'mask': 31 - draw(st.integers(0, 31))}  # (minimal draw = every label)


def cases(max_steps):
    @st.composite
    def s(draw):
        # the history and the options first, the frame contents last (late draws are pinned to their minimal choice
        # for a share of Hypothesis's examples)
        fmt = draw(st.sampled_from(FORMATS))
        label_kind = draw(st.sampled_from(['str', 'int', 'tuple', 'str']))
        k = draw(st.sampled_from([4, 3, 5, 2, 1]))
        mp = draw(st.sampled_from([x for x in (2, 3, None, 1, 4, 5) if x is None or x <= k]))
        workers = draw(st.sampled_from([None, 2, None]))
        steps = draw(st.lists(step(), min_size=1, max_size=max_steps))
        frames = [draw(frame_spec(fmt)) for _ in range(k)]
        return {'fmt': fmt, 'frames': frames, 'max_persist': mp, 'steps': steps, 'workers': workers, 'label_kind': label_kind}
    return s()


def _label_enc(x):
    def py(v):
        return v.item() if hasattr(v, 'item') else v
    return repr(tuple(py(v) for v in x) if isinstance(x, tuple) else py(x))


def _label_dec(s):
    import ast
    return ast.literal_eval(s)


def _mk_frame(spec, name):
    idx = None if spec['idepth'] == 0 else (sf.Index(spec['index']) if spec['idepth'] == 1 else sf.IndexHierarchy.from_labels(spec['index']))
    return sf.Frame.from_items(zip(spec['columns'], spec['cols']), index=idx, name=name)


def _frames_equal(a, b, strict_dtype):
    if a.shape != b.shape:
        return 'shape %s vs %s' % (a.shape, b.shape)
    la, lb = obs.labels_of(a.index), obs.labels_of(b.index)
    if not (len(la) == len(lb) and all(eq(x, y) for x, y in zip(la, lb))):
        return 'index %s vs %s' % (short(la), short(lb))
    ca, cb = obs.labels_of(a.columns), obs.labels_of(b.columns)
    if not (len(ca) == len(cb) and all(eq(x, y) for x, y in zip(ca, cb))):
        return 'columns %s vs %s' % (short(ca), short(cb))
    for j, (x, y) in enumerate(zip(obs.frame_cols(a), obs.frame_cols(b))):
        if not all(eq(p, q) or (is_missing(p) and is_missing(q)) for p, q in zip(arr_list(x), arr_list(y))):
            return 'column %d values %s vs %s' % (j, short(x), short(y))
        kx = 'i' if x.dtype.kind in 'iu' else x.dtype.kind
        ky = 'i' if y.dtype.kind in 'iu' else y.dtype.kind
        if (strict_dtype and x.dtype != y.dtype) or (not strict_dtype and kx != ky):
            return 'column %d dtype %s vs %s' % (j, x.dtype, y.dtype)
    return None


WRITERS = {'zip_pickle': 'to_zip_pickle', 'zip_csv': 'to_zip_csv', 'zip_tsv': 'to_zip_tsv', 'sqlite': 'to_sqlite'}
READERS = {'zip_pickle': 'from_zip_pickle', 'zip_csv': 'from_zip_csv', 'zip_tsv': 'from_zip_tsv', 'sqlite': 'from_sqlite'}


class BusModel:
    def __init__(self, bus, labels, max_persist):
        self.bus = bus
        self.labels = list(labels)
        self.max_persist = max_persist
        self.lru = []  # least recently used first; only meaningful with max_persist
        self.loaded = set()
        self.exact_lru = True

    def access(self, label):
        """Model of one label access; returns the evicted label or None."""
        ev = None
        if label in self.loaded:
            if self.max_persist is not None:
                self.lru.remove(label)
                self.lru.append(label)
            return None
        self.loaded.add(label)
        if self.max_persist is not None:
            self.lru.append(label)
            if len(self.loaded) > self.max_persist:
                ev = self.lru.pop(0)
                self.loaded.discard(ev)
        return ev


def check(case):
    fmt = case['fmt']
    base = '/dev/shm' if os.path.isdir('/dev/shm') else None
    tmp = tempfile.mkdtemp(prefix='vf_c17_', dir=base)
    try:
        return _check(case, tmp)
    finally:
        shutil.rmtree(tmp, ignore_errors=True)


def _check(case, tmp):
    fmt = case['fmt']
    fp = os.path.join(tmp, 'store.' + ('zip' if fmt.startswith('zip') else 'sqlite'))
    lk = case.get('label_kind', 'str')
    # non-string labels go through the documented label_encoder / label_decoder pair of the store configuration
    names = [{'str': 'f%d' % q, 'int': 10 * (q + 1), 'tuple': ('t', q)}[lk] for q in range(len(case['frames']))]
    written = [_mk_frame(spec, nm) for spec, nm in zip(case['frames'], names)]
    wkw = {}
    if case['workers'] and fmt.startswith('zip'):
        wkw = dict(read_max_workers=case['workers'], write_max_workers=case['workers'])
    if lk != 'str':
        wkw.update(label_encoder=_label_enc, label_decoder=_label_dec)
    config = sf.StoreConfigMap({nm: sf.StoreConfig(index_depth=spec['idepth'], columns_depth=1, include_index=spec['idepth'] > 0, include_columns=True, **wkw)
                                for spec, nm in zip(case['frames'], names)}, default=sf.StoreConfig(**wkw))
    src = sf.Bus.from_frames(written)
    w = lib(lambda: getattr(src, WRITERS[fmt])(fp, config=config))
    if isinstance(w, Raised):
        raise Failure('raised:%s' % w.cls, 'writing %d frames to %s raised %r' % (len(written), fmt, w.exc), w.where)
    reader = getattr(sf.Bus, READERS[fmt])
    eager = lib(lambda: reader(fp, config=config))
    if isinstance(eager, Raised):
        raise Failure('raised:%s' % eager.cls, 'opening the %s store raised %r' % (fmt, eager.exc), eager.where)
    # faithfulness of the store format (once)
    if list(eager.index) != names:
        raise Failure('labels', '%s: labels %s after reopening, written %s' % (fmt, list(eager.index), names))
    ev = lib(lambda: list(eager.values))
    if isinstance(ev, Raised):
        raise Failure('raised:%s' % ev.cls, 'eager load of the %s store raised %r' % (fmt, ev.exc), ev.where)
    model = {}
    for nm, wf, ef in zip(names, written, ev):
        d = _frames_equal(ef, wf, strict_dtype=(fmt == 'zip_pickle'))
        if d:
            raise Failure('unfaithful', '%s: frame %s read back differs from the one written: %s' % (fmt, nm, d))
        # the frame comes back under its label and carries it as its name (the frames were written named by their labels)
        if not eq(obs.canon_name(ef.name), obs.canon_name(nm)):
            raise Failure('unfaithful', '%s: frame stored under %r came back named %r' % (fmt, nm, ef.name))
        model[nm] = ef
    mp = case['max_persist']
    bus = reader(fp, config=config, max_persist=mp)
    main = BusModel(bus, names, mp)
    buses = [main]
    stale = False
    classes = ['labels:' + lk, 'fmt:' + fmt, 'mp:%s' % ('none' if mp is None else ('1' if mp == 1 else ('n' if mp == len(names) else 'mid')))]
    evicted_ever = set()
    reaccess_after_evict = False
    fault_then_access = False
    other_fp = os.path.join(tmp, 'other.' + ('zip' if fmt.startswith('zip') else 'sqlite'))

    def check_frame(label, got, what):
        if got is FrameDeferred or not isinstance(got, sf.Frame):
            raise Failure('deferred', '%s: %r returned %s instead of a loaded Frame' % (what, label, short(got)))
        if not eq(obs.canon_name(got.name), obs.canon_name(model[label].name)):
            raise Failure('wrong-frame', '%s: frame under %r is named %r, the eager load %r' % (what, label, got.name, model[label].name))
        d = _frames_equal(got, model[label], strict_dtype=True)
        if d:
            raise Failure('wrong-frame', '%s: frame under %r differs from the eager load: %s' % (what, label, d))
        if got.name != label and fmt == 'zip_pickle':
            pass

    def verify_state(bm, what):
        st_ = lib(lambda: bm.bus.status)
        if isinstance(st_, Raised):
            raise Failure('raised:%s' % st_.cls, '%s: status raised %r' % (what, st_.exc), st_.where)
        loaded = [l for l, v in zip(list(bm.bus.index), arr_list(st_['loaded'].values)) if v]
        if bm.max_persist is not None and len(loaded) > bm.max_persist:
            raise Failure('bound', '%s: %d frames loaded with max_persist=%d (%s)' % (what, len(loaded), bm.max_persist, loaded))
        if bm.exact_lru and set(loaded) != bm.loaded:
            raise Failure('lru', '%s: loaded %s, LRU model expects %s (recency order %s)' % (what, sorted(loaded), sorted(bm.loaded), bm.lru))
        if list(bm.bus.index) != bm.labels:
            raise Failure('labels', '%s: bus labels %s expected %s' % (what, list(bm.bus.index), bm.labels))

    for stp in case['steps']:
        k, s = stp['k'], stp['s']
        bm = buses[stp['b'] % len(buses)]
        b = bm.bus
        labels = bm.labels
        n = len(labels)
        what = '%s on bus#%d' % (s, stp['b'] % len(buses))
        if k == 'fault':
            if stale or n == 0:
                continue
            if s in ('touch', 'touch_back'):
                # (a file restored from an older copy carries an earlier time: any time other than the recorded one is a change)
                t = os.path.getmtime(fp) + (37.0 if s == 'touch' else -41.0)
                os.utime(fp, (t, t))
            elif s == 'rewrite_same':
                getattr(src, WRITERS[fmt])(other_fp, config=config)
                shutil.copyfile(other_fp, fp)
                t = os.path.getmtime(fp) + 53.0
                os.utime(fp, (t, t))
            elif s == 'delete':
                os.remove(fp)
            else:
                alt = sf.Bus.from_frames([sf.Frame.from_records([(9, 9)], columns=('z', 'w'), index=('q',), name=nm) for nm in names])
                getattr(alt, WRITERS[fmt])(other_fp, config=sf.StoreConfig(index_depth=1, **({'label_encoder': _label_enc, 'label_decoder': _label_dec} if lk != 'str' else {})))
                shutil.copyfile(other_fp, fp)
                t = os.path.getmtime(fp) + (71.0 if s == 'replace' else -73.0)
                os.utime(fp, (t, t))
            stale = True
            classes.append('fault:' + s)
            continue
        if n == 0:
            continue
        if k == 'inspect':
            before = set(bm.loaded)
            r = lib({'status': lambda: b.status, 'shapes': lambda: b.shapes, 'nbytes': lambda: b.nbytes, 'mloc': lambda: b.mloc,
                     'len': lambda: len(b), 'index': lambda: list(b.index), 'display': lambda: str(b)}[s])
            if isinstance(r, Raised):
                raise Failure('raised:%s' % r.cls, '%s raised %r' % (what, r.exc), r.where)
            verify_state(bm, what + ' (must not load)')
            continue
        # which labels must come from the store for this operation?
        if k == 'derive':
            targets = []
        elif s in ('get', 'get_method', 'contains'):
            targets = [labels[stp['i'] % n]]
        elif s == 'iloc':
            targets = [labels[stp['i'] % n]]
        elif s == 'list':
            pos = [p for p in range(n) if (stp['mask'] >> p) & 1] or [stp['i'] % n]
            if stp['j'] % 2:
                pos = pos[::-1]
            targets = [labels[p] for p in pos]
        elif s == 'slice':
            a, c = sorted((stp['i'] % n, stp['j'] % n))
            targets = labels[a:c + 1]
        elif s == 'bool':
            targets = [labels[p] for p in range(n) if (stp['mask'] >> p) & 1]
        else:
            targets = list(labels)
        if s == 'contains':
            r = lib(lambda: (labels[stp['i'] % n] in b, 'zzz' in b))
            if isinstance(r, Raised) or r != (True, False):
                raise Failure('contains', '%s returned %r' % (what, r))
            verify_state(bm, what)
            continue
        needs_store = any(t not in bm.loaded for t in targets)
        if k == 'derive':
            d = None
            if s == 'sel_list':
                pos = [p for p in range(n) if (stp['mask'] >> p) & 1] or [0]
                d = lib(lambda: b[[labels[p] for p in pos]])
                dl = [labels[p] for p in pos]
                acc = dl
            elif s == 'iloc_slice':
                d = lib(lambda: b.iloc[: max(1, stp['i'] % (n + 1))])
                dl = labels[: max(1, stp['i'] % (n + 1))]
                acc = dl
            elif s == 'drop':
                if n < 2:
                    continue
                d = lib(lambda: b.drop[labels[stp['i'] % n]])
                dl = [l for l in labels if l != labels[stp['i'] % n]]
                acc = []
            elif s == 'reindex':
                perm = labels[::-1]
                d = lib(lambda: b.reindex(perm, fill_value=None))
                dl = perm
                acc = None
            elif s == 'sort_index':
                d = lib(lambda: b.sort_index(ascending=False))
                dl = sorted(labels, reverse=True)
                acc = None
            elif s == 'rename':
                d = lib(lambda: b.rename('renamed'))
                dl = list(labels)
                acc = []
            else:
                d = lib(lambda: b.head(2))
                dl = labels[:2]
                acc = None
            selecting = acc is not None and any(t not in bm.loaded for t in acc)
            if isinstance(d, Raised):
                if stale and isinstance(d.exc, StoreFileMutation):
                    fault_then_access = True
                    continue
                if stale:
                    continue
                raise Failure('raised:%s' % d.cls, '%s raised %r' % (what, d.exc), d.where)
            if stale and selecting and acc:
                raise Failure('stale-served', '%s: selection that had to read the modified store returned without StoreFileMutation' % what)
            if acc:
                for t in acc:
                    e = bm.access(t)
                    if e:
                        evicted_ever.add(e)
            else:
                bm.exact_lru = bm.exact_lru and acc == []
            if acc is None:
                # head / reindex / sort_index may load frames in the source as a side effect: re-read what is held,
                # after which only the max_persist bound (not the eviction order) is checked on this Bus
                bm.exact_lru = False
                if not stale:
                    st1 = b.status
                    bm.loaded = {l for l, v in zip(list(b.index), arr_list(st1['loaded'].values)) if v}
                    bm.lru = [l for l in bm.lru if l in bm.loaded] + [l for l in bm.labels if l in bm.loaded and l not in bm.lru]
            if len(buses) < 4 and isinstance(d, sf.Bus):
                nb = BusModel(d, dl, bm.max_persist)
                st0 = d.status
                held = [l for l, v in zip(list(d.index), arr_list(st0['loaded'].values)) if v]
                nb.loaded = set(held)
                nb.lru = list(held)  # a new Bus ranks the frames it already holds in index order
                buses.append(nb)
                if list(d.index) != dl:
                    raise Failure('labels', '%s: derived bus labels %s expected %s' % (what, list(d.index), dl))
            classes.append('derive:' + s)
            try:
                verify_state(bm, what)
            except Failure:
                if not bm.exact_lru:
                    pass
                raise
            continue
        # access
        call = {
            'get': lambda: b[targets[0]],
            'get_method': lambda: b.get(targets[0]),
            'iloc': lambda: b.iloc[labels.index(targets[0])],
            'list': lambda: b[list(targets)],
            'slice': lambda: b[targets[0]:targets[-1]],
            'bool': lambda: b[np.array([l in targets for l in labels], dtype=bool)],
            'items': lambda: list(b.items()),
            'values': lambda: list(b.values),
            'iter': lambda: list(b.iter_element()),
        }[s]
        if s == 'bool' and not targets:
            continue
        r = lib(call)
        if stale:
            if isinstance(r, Raised):
                if isinstance(r.exc, StoreFileMutation):
                    fault_then_access = True
                    classes.append('stale->StoreFileMutation')
                    break
                raise Failure('raised:%s' % r.cls, '%s after the store file was modified raised %r instead of StoreFileMutation' % (what, r.exc), r.where)
            if needs_store and s != 'get_method':
                # a multi-label selection returns a lazy Bus: the read may be deferred to the element access below
                if s in ('get', 'iloc', 'items', 'values', 'iter'):
                    raise Failure('stale-served', '%s had to read the modified store but returned %s' % (what, short(r, 120)))
            # served from memory: fine
        if isinstance(r, Raised):
            raise Failure('raised:%s' % r.cls, '%s raised %r' % (what, r.exc), r.where)
        if s in ('get', 'iloc', 'get_method'):
            check_frame(targets[0], r, what)
            if s != 'get_method' or True:
                if targets[0] in evicted_ever:
                    reaccess_after_evict = True
                e = bm.access(targets[0])
                if e:
                    evicted_ever.add(e)
        elif s in ('list', 'slice', 'bool'):
            if not isinstance(r, sf.Bus):
                raise Failure('kind', '%s returned %s' % (what, short(r)))
            if list(r.index) != list(targets):
                raise Failure('labels', '%s: labels %s expected %s' % (what, list(r.index), list(targets)))
            for t in targets:
                if t in evicted_ever:
                    reaccess_after_evict = True
                e = bm.access(t)
                if e:
                    evicted_ever.add(e)
            if not stale:
                # the selection is itself a Bus on the same store: each element must be served correctly
                for t in targets:
                    g = lib(lambda: r[t])
                    if isinstance(g, Raised):
                        raise Failure('raised:%s' % g.cls, '%s: element %r of the selection raised %r' % (what, t, g.exc), g.where)
                    check_frame(t, g, what + ' -> element')
        else:
            seq = r
            if s == 'items':
                if [l for l, _ in seq] != labels:
                    raise Failure('labels', '%s: item labels %s expected %s' % (what, [l for l, _ in seq], labels))
                seq = [f for _, f in seq]
            if len(seq) != n:
                raise Failure('length', '%s yielded %d frames for %d labels' % (what, len(seq), n))
            for t, g in zip(labels, seq):
                check_frame(t, g, what)
            if s in ('items', 'values', 'iter'):
                for t in labels:
                    if t in evicted_ever:
                        reaccess_after_evict = True
                    e = bm.access(t)
                    if e:
                        evicted_ever.add(e)
        if not stale:
            verify_state(bm, what)
            if not bm.exact_lru:
                st2 = b.status
                bm.loaded = {l for l, v in zip(list(b.index), arr_list(st2['loaded'].values)) if v}
                bm.lru = [l for l in bm.lru if l in bm.loaded] + [l for l in bm.labels if l in bm.loaded and l not in bm.lru]
        classes.append('access:' + s)
    return {'nt': reaccess_after_evict or fault_then_access, 'cls': classes}


def tag(case, f):
    if case['fmt'] == 'sqlite' and f.kind == 'unfaithful' and ': index ' in f.detail:
        if any(list(spec['index']) != sorted(spec['index']) for spec in case['frames']):
            return 'sqlite-store-returns-rows-in-primary-key-order'
    return None


SUBS = [
    Sub('history', cases(14), check, quick=3200, thorough=24000, tag=tag, thorough_strategy=cases(30),
        rule='Bus access / derivation / fault histories vs eager model with explicit LRU'),
]
