"""C18 — parallel execution gives the same answer as sequential execution.

Schedules: a generated permutation of the task indices is turned into per-task delays inside the
applied (module-level, picklable) function, so tasks complete in that order; in thread mode the
achieved completion order is recorded and reported.  Oracle: apply_pool(...) == apply(...)
(labels, order, pairing); a failing task must surface its error class; Batch with max_workers and
zip-store reads/writes with workers equal the sequential forms.  The oracle never depends on
timing: a missed schedule costs coverage, not correctness.
"""
import os
import shutil
import tempfile
import threading
import time

import numpy as np
from hypothesis import strategies as st

from vf import gen, obs
from vf.base import Discard, Failure, Raised, arr_list, canon, eq, is_missing, lib, sf, short
from vf.harness import Sub

PID = 'C18'
RULE = ('Series/Frames of <= 8 tasks x iterator interface (element, array, series, tuple, group, window; values and items forms) x max_workers 1..8 x chunksize 1..n+1 x threads/processes '
        'x a generated completion order enforced through per-task delays (2-4 ms steps); Batch.apply/reductions with max_workers; zip-store write/read with worker pools and chunk sizes; '
        'one designated failing task; non-trivial = the achieved completion order differs from the submission order (measured in thread mode, intended in process mode)')
ASSUMPTIONS = ['only completion orders are controlled, not preemption points inside executor.map', 'process pools use the fork start method (Linux default)']

DELAYS = {}       # task id -> seconds; set before every parallel call (inherited by forked workers)
FAIL_ID = [None]
FAIL_KIND = [ValueError]   # the class the designated task fails with (the *_except forms silence ValueError only)
DONE = []         # completion log (thread mode only)
_LOCK = threading.Lock()


def _ident(x):
    """A small integer identifying the task from its input (values encode their position)."""
    if isinstance(x, tuple) and len(x) == 2 and not isinstance(x[1], (int, np.integer, float)) or (isinstance(x, tuple) and len(x) == 2 and isinstance(x[0], (str, tuple, np.str_))):
        x = x[1]
    if isinstance(x, sf.Frame):
        v = x.values
        return int(v.flat[0]) // 100 if v.size else 0
    if isinstance(x, sf.Series):
        return int(x.values[0]) // 100 if len(x) else 0
    if isinstance(x, np.ndarray):
        return int(x.flat[0]) // 100 if x.size else 0
    if isinstance(x, tuple):
        return int(x[0]) // 100 if x else 0
    return int(x) // 100


def _digest(x):
    if isinstance(x, tuple) and len(x) == 2 and isinstance(x[0], (str, tuple, np.str_)):
        k, v = x
        return (str(k), _digest(v))
    if isinstance(x, sf.Frame):
        return (x.shape, int(x.values.sum()) if x.size else 0)
    if isinstance(x, sf.Series):
        return (len(x), int(x.values.sum()) if len(x) else 0)
    if isinstance(x, np.ndarray):
        return int(x.sum())
    if isinstance(x, tuple):
        return int(sum(x))
    return int(x) * 3 + 1


def task(*args):
    """The applied function: sleeps according to the schedule, optionally fails, returns a digest.
    apply() passes (key, value) as two arguments for items iterators, apply_pool() passes one tuple."""
    x = args[0] if len(args) == 1 else tuple(args)
    i = _ident(x)
    d = DELAYS.get(i, 0.0)
    if d:
        time.sleep(d)
    if FAIL_ID[0] is not None and i == FAIL_ID[0]:
        raise FAIL_KIND[0]('task %d fails' % i)
    r = _digest(x)
    with _LOCK:
        DONE.append(i)
    return repr(r)


def task_frame(f):
    """Batch function: returns a one-row Frame digest (delay by the frame's first cell)."""
    i = int(f.values.flat[0]) // 100 if f.size else 0
    d = DELAYS.get(i, 0.0)
    if d:
        time.sleep(d)
    if FAIL_ID[0] is not None and i == FAIL_ID[0]:
        raise FAIL_KIND[0]('task %d fails' % i)
    with _LOCK:
        DONE.append(i)
    return f.sum()


def task_frame_items(label, f):
    # the result carries the label the function was handed (the Batch label, which differs from the frame's own name)
    return task_frame(f).rename('got:%r' % (label,))


IFACES = ('s_element', 's_element_items', 's_group', 's_window', 'f_array0', 'f_array1', 'f_array_items1', 'f_series1', 'f_series_items0',
          'f_tuple1', 'f_tuple_items1', 'f_group', 'f_group_items', 'f_window', 'f_window_items', 'f_element')


@st.composite
def cases(draw, processes_share=0.12):
    # decisive choices first; the minimal value of every draw is the common / cheap case (threads, no failing task)
    what = draw(st.sampled_from(['iter'] * 6 + ['batch', 'batch', 'store']))
    store_opts = draw(st.sampled_from(['full', 'no_index', 'no_columns', 'full']))  # options of the per-label store configurations
    iface = draw(st.sampled_from(IFACES))
    akw = draw(st.sampled_from([{}, {'dtype': object}, {}, {'name': 'res'}, {'dtype': object, 'name': ('n', 1)}]))  # options of apply / apply_pool
    use_threads = draw(st.floats(0, 1)) < (1 - processes_share)
    n = draw(st.sampled_from([5, 3, 7, 4, 2, 6, 8, 1]))
    ch = {'workers': draw(st.sampled_from([3, 2, 1, 4, 7, 8, 5, 6])), 'chunksize': draw(st.sampled_from([c for c in (2, 1, 3, n, n + 1, 4) if c <= n + 1])),
          'fail': draw(st.one_of(st.none(), st.none(), st.integers(0, n - 1))), 'step_ms': draw(st.sampled_from([2, 3, 4])),
          'batch_op': draw(st.sampled_from(['apply', 'apply_except', 'apply_items', 'sum', 'apply_items_except', 'iloc'])), 'fmt': draw(st.sampled_from(['zip_pickle', 'zip_csv'])),
          'fail_kind': draw(st.sampled_from(['ValueError', 'KeyError', 'ValueError', 'ZeroDivisionError']))}
    return dict({'what': what, 'store_opts': store_opts, 'iface': iface, 'akw': akw, 'n': n, 'perm': draw(st.permutations(list(range(n)))), 'threads': use_threads}, **ch)


def _set_schedule(case, mult=1):
    DELAYS.clear()
    for pos, i in enumerate(case['perm']):
        DELAYS[i] = pos * case['step_ms'] * mult / 1000.0
    FAIL_ID[0] = case['fail']
    del DONE[:]


def _clear_schedule():
    DELAYS.clear()
    FAIL_ID[0] = None
    del DONE[:]


def _scheduled(case, run, seq):
    """Run the parallel form under the case's completion schedule.  When a recorded failure is being reproduced
    (VERIF_REPRO, set by the harness) the schedule is retried with wider spacing: a loaded machine can blur millisecond
    delays, and any schedule under which the parallel form differs from the sequential one is a violation."""
    par, achieved = None, []
    for mult in ((1, 8, 40) if os.environ.get('VERIF_REPRO') else (1,)):
        _set_schedule(case, mult)
        par = lib(run)
        achieved = list(DONE)
        if isinstance(par, Raised) != isinstance(seq, Raised) or (not isinstance(par, Raised) and _obs(par) != _obs(seq)):
            break
    return par, achieved


def _iter_node(case):
    n = case['n']
    iface = case['iface']
    ids = np.arange(n) * 100  # value // 100 identifies the task
    if iface.startswith('s_'):
        s = sf.Series(ids + 1, index=['r%d' % i for i in range(n)])
        if iface == 's_element':
            return s.iter_element()
        if iface == 's_element_items':
            return s.iter_element_items()
        if iface == 's_group':
            return s.iter_group()
        return s.iter_window(size=1)
    f = sf.Frame(np.column_stack([ids + 1, ids + 2]), index=['r%d' % i for i in range(n)], columns=('a', 'b'))
    ft = sf.Frame(np.vstack([ids + 1, ids + 2]), index=('a', 'b'), columns=['c%d' % i for i in range(n)])
    return {
        'f_array0': lambda: ft.iter_array(axis=0), 'f_array1': lambda: f.iter_array(axis=1), 'f_array_items1': lambda: f.iter_array_items(axis=1),
        'f_series1': lambda: f.iter_series(axis=1), 'f_series_items0': lambda: ft.iter_series_items(axis=0),
        'f_tuple1': lambda: f.iter_tuple(axis=1, constructor=tuple), 'f_tuple_items1': lambda: f.iter_tuple_items(axis=1, constructor=tuple),
        'f_group': lambda: f.iter_group('a'), 'f_group_items': lambda: f.iter_group_items('a'),
        'f_window': lambda: f.iter_window(size=1), 'f_window_items': lambda: f.iter_window_items(size=1),
        'f_element': lambda: sf.Frame((ids + 1).reshape(n, 1), index=['r%d' % i for i in range(n)], columns=('a',)).iter_element(),
    }[iface]()


def check(case):
    what = case['what']
    n = case['n']
    classes = ['what:' + what, 'threads' if case['threads'] else 'processes', 'workers:%d' % case['workers']]
    FAIL_KIND[0] = {'KeyError': KeyError, 'ZeroDivisionError': ZeroDivisionError}.get(case.get('fail_kind'), ValueError)
    if case['fail'] is not None:
        classes.append('fails-with:' + FAIL_KIND[0].__name__)
    try:
        if what == 'iter':
            classes.append('iface:' + case['iface'])
            _clear_schedule()
            FAIL_ID[0] = case['fail']
            akw = dict(case.get('akw') or {})
            classes.append('akw:' + ','.join(sorted(akw)))
            seq = lib(lambda: _iter_node(case).apply(task, **akw))
            par, achieved = _scheduled(case, lambda: _iter_node(case).apply_pool(task, max_workers=case['workers'], chunksize=case['chunksize'], use_threads=case['threads'], **akw), seq)
            return _compare(case, seq, par, achieved, classes, 'apply_pool(%s, workers=%d, chunksize=%d, threads=%s%s)' % (
                case['iface'], case['workers'], case['chunksize'], case['threads'], ''.join(', %s=%r' % kv for kv in sorted(akw.items()))))
        if what == 'batch':
            # the Batch labels are not the frames' names (every third frame has no name at all)
            grown = bool(case.get('akw'))   # (grow-only members that gained a column which nothing has read yet: half of the cases)

            def mk_items():
                # built anew for every run, so that the sequential run does not read (and thereby refresh) what the pool is given
                out = []
                for i in range(n):
                    f = sf.Frame(np.array([[i * 100 + 1, i * 100 + 2], [3, 4]]), columns=('a', 'b'), name=('f%d' % i if i % 3 else None))
                    if grown:
                        f = f.to_frame_go()
                        f.columns.values  # the labels are read once, then the frame grows
                        f['c'] = np.array([i, 5])
                    out.append(('L%d' % i, f))
                return out
            op = case['batch_op']
            classes.append('members:grown-go' if grown else 'members:static')

            def run(workers):
                # (the *_except forms document chunksize 1 only)
                cs = 1 if op.endswith('_except') else case['chunksize']
                items = mk_items()
                b = sf.Batch(iter(items), max_workers=workers, use_threads=case['threads'], chunksize=cs) if workers else sf.Batch(iter(items))
                if op == 'apply':
                    return b.apply(task_frame).to_frame()
                if op == 'apply_items':
                    # pairs in yielded order (the order of the labels is part of the claim)
                    return [(k, v.name, repr(v.values.tolist())) for k, v in b.apply_items(task_frame_items).items()]
                if op == 'apply_except':
                    return [(k, repr(v.values.tolist())) for k, v in b.apply_except(task_frame, ValueError).items()]
                if op == 'apply_items_except':
                    return [(k, v.name, repr(v.values.tolist())) for k, v in b.apply_items_except(task_frame_items, ValueError).items()]
                if op == 'sum':
                    return b.sum().to_frame()
                return b.iloc[:, 0].to_frame()
            _clear_schedule()
            FAIL_ID[0] = case['fail'] if op.startswith('apply') else None
            seq = lib(lambda: run(None))
            if not op.startswith('apply'):
                case = dict(case, fail=None)
            par, achieved = _scheduled(case, lambda: run(case['workers']), seq)
            classes.append('batch:' + op)
            return _compare(case, seq, par, achieved, classes, 'Batch(max_workers=%d, chunksize=%d, threads=%s).%s' % (case['workers'], case['chunksize'], case['threads'], op))
        # store
        tmp = tempfile.mkdtemp(prefix='vf_c18_', dir='/dev/shm' if os.path.isdir('/dev/shm') else None)
        try:
            # every other frame has a depth-2 index, so the per-label configurations differ from one another and from the default
            frames = [sf.Frame(np.array([[i * 100 + 1, i * 7], [3, i]]), columns=('a', 'b'), name='f%d' % i,
                               index=('x', 'y') if i % 2 == 0 else sf.IndexHierarchy.from_labels((('x', 0), ('y', 1)))) for i in range(n)]
            # (labels are the names the frames were built with; the frames stored under them are renamed for the pickle format,
            # which keeps a frame's own name: every other frame is stored unnamed, the others under another name)
            if case['fmt'] == 'zip_pickle':
                bus = sf.Bus.from_items((f.name, f.rename(None if i % 2 else 'own-%d' % i)) for i, f in enumerate(frames))
            else:
                bus = sf.Bus.from_frames(frames)
            fmt = case['fmt']
            writer = 'to_' + fmt
            reader = 'from_' + fmt

            sopts = case.get('store_opts', 'full')

            def cfgmap(**wkw):
                # options set to False / 0 must reach the workers exactly as they reach the sequential route
                def one(f):
                    if sopts == 'no_index':
                        return sf.StoreConfig(index_depth=0, columns_depth=1, include_index=False, include_columns=True, **wkw)
                    if sopts == 'no_columns':
                        return sf.StoreConfig(index_depth=f.index.depth, columns_depth=0, include_index=True, include_columns=False, **wkw)
                    return sf.StoreConfig(index_depth=f.index.depth, columns_depth=1, include_index=True, include_columns=True, **wkw)
                return sf.StoreConfigMap({f.name: one(f) for f in frames}, default=sf.StoreConfig(**wkw))
            cfg_seq = cfgmap()
            cfg_par = cfgmap(read_max_workers=case['workers'], write_max_workers=case['workers'],
                             read_chunksize=case['chunksize'], write_chunksize=case['chunksize'])
            fp_seq, fp_par = os.path.join(tmp, 'seq.zip'), os.path.join(tmp, 'par.zip')
            w1 = lib(lambda: getattr(bus, writer)(fp_seq, config=cfg_seq))
            w2 = lib(lambda: getattr(bus, writer)(fp_par, config=cfg_par))
            if isinstance(w1, Raised) or isinstance(w2, Raised):
                bad = w2 if isinstance(w2, Raised) else w1
                raise Failure('raised:%s' % bad.cls, 'writing the store raised %r' % bad.exc, bad.where)
            outs = []
            for fp in (fp_seq, fp_par):
                for cfg in (cfg_seq, cfg_par):
                    r = lib(lambda: [(k, obs.snap(f)) for k, f in getattr(sf.Bus, reader)(fp, config=cfg).items()])
                    if isinstance(r, Raised):
                        raise Failure('raised:%s' % r.cls, 'reading the store (workers=%s) raised %r' % (cfg is cfg_par, r.exc), r.where)
                    outs.append(r)
            for o in outs[1:]:
                if o != outs[0]:
                    raise Failure('store-mismatch', 'store written/read with worker pools differs from the sequential form: %s vs %s' % (short(o, 300), short(outs[0], 300)))
            if [k for k, _ in outs[0]] != ['f%d' % i for i in range(n)]:
                raise Failure('labels', 'store labels %s' % [k for k, _ in outs[0]])
            if fmt != 'zip_pickle':
                for o in outs:
                    for k, sn in o:
                        if tuple(sn[3]) != (2, 2):
                            raise Failure('store-shape', 'store (%s, %s): frame %s read back with shape %s, written as (2, 2)' % (fmt, sopts, k, sn[3]))
            classes.append('store:' + fmt)
            classes.append('store-opts:' + sopts)
            return {'nt': n >= 2 and case['workers'] >= 2, 'cls': classes}
        finally:
            shutil.rmtree(tmp, ignore_errors=True)
    finally:
        _clear_schedule()


def _obs(x):
    if isinstance(x, (sf.Series, sf.Frame)):
        return obs.snap(x)
    return x


def _compare(case, seq, par, achieved, classes, what):
    if isinstance(seq, Raised):
        if isinstance(par, Raised):
            if type(par.exc) is not type(seq.exc):
                raise Failure('error-class', '%s raised %s, the sequential form raised %s' % (what, par.cls, seq.cls))
            classes.append('failing-task-surfaced')
            return {'nt': case['fail'] is not None, 'cls': classes}
        raise Failure('error-swallowed', '%s returned %s although the sequential form raised %r' % (what, short(_obs(par), 200), seq.exc))
    if isinstance(par, Raised):
        raise Failure('raised:%s' % par.cls, '%s raised %r; the sequential form succeeded' % (what, par.exc), par.where)
    a, b = _obs(seq), _obs(par)
    if a != b:
        raise Failure('parallel-differs', '%s: %s, sequential: %s (completion order intended %s, achieved %s)' % (what, short(b, 400), short(a, 400), list(case['perm']), achieved))
    reordered = False
    if case['threads'] and len(achieved) >= 2:
        first_seen = list(dict.fromkeys(achieved))
        reordered = first_seen != sorted(first_seen)
        classes.append('achieved-reordered' if reordered else 'achieved-in-order')
    elif not case['threads']:
        reordered = list(case['perm']) != sorted(case['perm']) and case['workers'] >= 2
        classes.append('intended-reordered' if reordered else 'intended-in-order')
    return {'nt': reordered and case['workers'] >= 2 and case['n'] >= 2, 'cls': classes}


def tag(case, f):
    return None


SUBS = [
    Sub('pool', cases(), check, quick=1600, thorough=40000, tag=tag, thorough_strategy=cases(processes_share=0.4),
        rule='apply_pool / Batch(max_workers) / zip store workers == sequential under enforced completion orders'),
]
