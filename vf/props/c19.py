"""C19 — Quilt and Batch are faithful views over the Frames they hold.

quilt: Quilt(bus, axis, retain_labels).<op>(key) must equal the same <op>(key) on the single
       Frame obtained by concatenating the Bus's Frames along the axis (from_concat_items when
       labels are retained, from_concat otherwise); with max_persist on the underlying Bus no
       more than max_persist Frames may be loaded after any operation.
batch: dict(Batch.<chain>.items()) == {label: frame.<chain>}, and to_frame() concatenates them.
"""
import os
import shutil
import tempfile

import numpy as np
from hypothesis import strategies as st

from vf import gen, obs
from vf.base import Discard, Failure, Raised, arr_list, canon, eq, is_missing, lib, sf, short
from vf.harness import Sub

PID = 'C19'
RULE = ('Buses of 1..5 Frames with aligned opposite-axis labels (1-row members included, int/float/str/bool columns) x axis 0/1 x retain_labels x max_persist (zip-pickle backed) x '
        'operation in {shape, index/columns, values, to_frame, head/tail, iloc/loc/getitem with int, slice, list, bool keys on both axes (ascending and non-ascending), full tuples, '
        'HLoc, iter_array/series/tuple(_items), iter_window(_items)}; Batch chains of depth <= 3; '
        'non-trivial = the key selects cells from >= 2 member Frames or starts and stops inside different members')
ASSUMPTIONS = ['the container-level name of a Quilt selection is not compared (not in the statement); names of reduced rows/columns are',
               'NotImplementedAxis is a documented refusal: discarded and counted']

OPS = ('shape', 'labels', 'values', 'to_frame', 'head_tail', 'iloc', 'iloc', 'iloc', 'loc', 'loc', 'getitem', 'iter_array', 'iter_series', 'iter_tuple', 'iter_items', 'window', 'loc_tuple', 'hloc')


@st.composite
def quilt_cases(draw):
    # decisive choices first (late draws are pinned to their first option for a share of Hypothesis's examples)
    op = draw(st.sampled_from(OPS))
    axis = draw(st.integers(0, 1))
    retain = draw(st.booleans())
    ascending_only = draw(st.integers(0, 3)) < 3
    # Bus labels: names, or the integers 0.. (0 is a falsy label); in sorted order or not (the Bus order is what counts)
    blabels = draw(st.sampled_from(['str', 'int', 'str_unsorted', 'int_unsorted', 'str']))
    datelabels = draw(st.integers(0, 3)) == 3   # member labels on the quilt axis are dates (an IndexDate)
    backed = draw(st.booleans())
    k = draw(st.sampled_from([3, 2, 1, 4, 5]))
    w = draw(st.integers(1, 4))       # size of the aligned (opposite) axis
    kinds = [draw(st.sampled_from(['int64', 'float64', '<U3', 'bool'])) for _ in range(w)]
    members = []
    for q in range(k):
        # a member may be homogeneous in a type of its own, so neighbouring members differ in their array type
        mk = draw(st.sampled_from([None, 'int64', None, '<U3', None, 'bool', 'float64']))
        ln = draw(st.integers(1, 4))
        cols = [draw(gen.column(mk or kd, ln, missing=False)) for kd in kinds]
        members.append({'len': ln, 'cols': cols})
    total = sum(m['len'] for m in members)
    case = {'members': members, 'axis': axis, 'retain': retain, 'kinds': kinds, 'op': op, 'max_persist': draw(st.one_of(st.none(), st.integers(1, k))),
            'backed': backed and blabels.startswith('str'), 'ascending_only': ascending_only, 'blabels': blabels, 'datelabels': datelabels}
    if op in ('iloc', 'loc', 'getitem'):
        if case['ascending_only']:
            case['k0'] = draw(asc_key(total))
            case['k1'] = draw(st.one_of(st.none(), asc_key(w)))
        else:
            case['k0'] = draw(gen.iloc_key(total))
            case['k1'] = draw(st.one_of(st.none(), gen.iloc_key(w)))
    elif op in ('loc_tuple', 'hloc'):
        case['i'] = draw(st.integers(0, total - 1))
        case['q'] = draw(st.integers(0, k - 1))
    elif op == 'window':
        case['size'] = draw(st.integers(1, 3))
        case['step'] = draw(st.integers(1, 2))
        case['wopts'] = {'label_shift': draw(st.sampled_from([1, 0, -1, 2])), 'size_increment': draw(st.sampled_from([0, 1, 0])),
                         'window_sized': not draw(st.booleans()), 'start_shift': draw(st.sampled_from([0, 0, 0, 0, 0, 0, 1, -1]))}  # (a shifted start extracts empty windows: listed finding, rare)
        case['wform'] = draw(st.sampled_from(['values', 'items', 'array', 'array_items', 'apply']))
    elif op.startswith('iter'):
        case['iaxis'] = draw(st.integers(0, 1))
    elif op == 'head_tail':
        case['count'] = draw(st.integers(1, 4))
    return case


@st.composite
def asc_key(draw, n):
    kind = draw(st.sampled_from(['int', 'slice', 'list', 'bool', 'null']))
    if kind == 'int':
        return draw(st.integers(0, n - 1))
    if kind == 'slice':
        a = draw(st.integers(0, n - 1))
        b = draw(st.integers(a + 1, n))
        return slice(a, b, draw(st.sampled_from([None, 1, 2])))
    if kind == 'list':
        return sorted(draw(st.lists(st.integers(0, n - 1), min_size=1, max_size=n, unique=True)))
    if kind == 'bool':
        m = draw(st.lists(st.booleans(), min_size=n, max_size=n))
        if not any(m):
            m[draw(st.integers(0, n - 1))] = True
        return np.array(m, dtype=bool)
    return slice(None)


def _bname(case):
    kind = case.get('blabels', 'str')
    if kind == 'int':
        return lambda q: q
    if kind == 'int_unsorted':
        return lambda q: [3, 0, 4, 1, 2][q]
    if kind == 'str_unsorted':
        return lambda q: ['north', 'east', 'west', 'a', 'south'][q]
    return lambda q: 'f%d' % q


def _build(case, tmp):
    axis = case['axis']
    w = len(case['kinds'])
    frames = []
    off = 0
    bname = _bname(case)
    for q, m in enumerate(case['members']):
        ln = m['len']
        # member labels along the quilt axis: unique across members unless labels are retained
        if case['retain']:
            own = ['m%d' % i for i in range(ln)]
        else:
            own = ['x%d' % (off + i) for i in range(ln)]
        if case.get('datelabels'):
            own = sf.IndexDate([np.datetime64('2020-01-01') + (int(x[1:]) if isinstance(x, str) else x) for x in own])
        off += ln
        other = ['o%d' % j for j in range(w)]
        if axis == 0:
            f = sf.Frame.from_items(zip(other, m['cols']), index=own, name=bname(q))
        else:
            f = sf.Frame.from_items(zip(other, m['cols']), index=own, name=bname(q)).transpose().rename(bname(q))
        frames.append(f)
    bus = sf.Bus.from_frames(frames)
    if case['backed']:
        fp = os.path.join(tmp, 'q.zip')
        bus.to_zip_pickle(fp)
        bus = sf.Bus.from_zip_pickle(fp, max_persist=case['max_persist'])
    if case['retain']:
        ref = sf.Frame.from_concat_items(((f.name, f) for f in frames), axis=axis)
    else:
        ref = sf.Frame.from_concat(frames, axis=axis)
    quilt = sf.Quilt(bus, axis=axis, retain_labels=case['retain'], deepcopy_from_bus=bool(case.get('size', len(case['members'])) % 2))
    return quilt, ref, bus, frames


def _snap_any(x):
    if isinstance(x, (sf.Frame, sf.Series)):
        s = list(obs.snap(x))
        if isinstance(x, sf.Frame):
            s[2] = None  # container-level name not compared
        return tuple(s)
    if isinstance(x, np.ndarray):
        return obs.snap(x)
    if isinstance(x, tuple):
        return tuple(_snap_any(y) for y in x)
    if isinstance(x, list):
        return [_snap_any(y) for y in x]
    return canon(x)


def _cast_like(got, want):
    """The Quilt resolves the array type of a selection over the member Frames the selection touches; the concatenated Frame
    resolves it over every member. Where the two types differ, the Quilt's must be one the Frame's type absorbs
    (resolve(got, want) == want) and the values, cast to the Frame's type, are then compared exactly."""
    from static_frame.core.util import resolve_dtype
    if isinstance(got, np.ndarray) and isinstance(want, np.ndarray):
        if got.dtype != want.dtype and got.shape == want.shape and resolve_dtype(got.dtype, want.dtype) == want.dtype:
            return got.astype(want.dtype)
        return got
    if isinstance(got, sf.Series) and isinstance(want, sf.Series):
        v = _cast_like(got.values, want.values)
        return got if v is got.values else sf.Series(v, index=got.index, name=got.name)
    if isinstance(got, sf.Frame) and isinstance(want, sf.Frame) and got.shape == want.shape:
        gd, wd = list(got.dtypes.values), list(want.dtypes.values)
        if gd != wd and all(g == w or resolve_dtype(g, w) == w for g, w in zip(gd, wd)):
            cast = sf.Frame.from_items(((j, got.iloc[:, j].values.astype(wd[j])) for j in range(got.shape[1])), index=got.index, name=got.name)
            return cast.relabel(columns=got.columns)
        return got
    if isinstance(got, tuple) and isinstance(want, tuple) and len(got) == len(want):
        return tuple(_cast_like(g, w) for g, w in zip(got, want))
    if isinstance(got, list) and isinstance(want, list) and len(got) == len(want):
        return [_cast_like(g, w) for g, w in zip(got, want)]
    return got


def check_quilt(case):
    tmp = tempfile.mkdtemp(prefix='vf_c19_', dir='/dev/shm' if os.path.isdir('/dev/shm') else None)
    try:
        return _check_quilt(case, tmp)
    finally:
        shutil.rmtree(tmp, ignore_errors=True)


def _check_quilt(case, tmp):
    quilt, ref, bus, frames = lib(_build, case, tmp) if False else _build(case, tmp)
    axis, op = case['axis'], case['op']
    total = sum(m['len'] for m in case['members'])
    w = len(case['kinds'])
    classes = ['op:' + op, 'axis:%d' % axis, 'retain' if case['retain'] else 'noretain', 'backed' if case['backed'] else 'memory',
               'mp:%s' % case['max_persist'] if case['backed'] else 'mp:n/a']
    spans = False

    def keys_for(obj):
        k0, k1 = case['k0'], case['k1']
        # k0 addresses the quilt axis, k1 the aligned axis
        rk, ck = (k0, k1) if axis == 0 else (k1, k0)
        return rk, ck

    def member_of(p):
        acc = 0
        for q, m in enumerate(case['members']):
            if p < acc + m['len']:
                return q
            acc += m['len']
        return len(case['members']) - 1

    def run(obj):
        if op == 'shape':
            return (obj.shape, obj.ndim, obj.size, len(obj.index), len(obj.columns))
        if op == 'labels':
            # (labels and the class of each axis index, per depth for a hierarchy)
            def _cls(ax):
                return [t.__name__ for t in ax.index_types.values] if ax.depth > 1 else [type(ax).__name__]
            return (obs.labels_of(obj.index), obs.labels_of(obj.columns), _cls(obj.index), _cls(obj.columns))
        if op == 'values':
            return obj.values
        if op == 'to_frame':
            return obj.to_frame() if isinstance(obj, sf.Quilt) else obj
        if op == 'head_tail':
            return (obj.head(case['count']), obj.tail(case['count']))
        if op in ('iloc', 'loc', 'getitem'):
            rk, ck = keys_for(obj)
            if op == 'iloc':
                return obj.iloc[rk] if ck is None else obj.iloc[rk if rk is not None else slice(None), ck]
            il, cl = list(ref.index), list(ref.columns)

            def tr(key, labels):
                if key is None:
                    return slice(None)
                if isinstance(key, (int, np.integer)):
                    return labels[int(key)]
                if isinstance(key, slice):
                    if key == slice(None):
                        return key
                    pos = list(range(*key.indices(len(labels))))
                    if not pos:
                        return []
                    if key.step in (None, 1):
                        return slice(labels[pos[0]], labels[pos[-1]])
                    return [labels[p] for p in pos]
                if isinstance(key, np.ndarray) and key.dtype == bool:
                    return key
                return [labels[int(p)] for p in key]
            if op == 'loc':
                return obj.loc[tr(rk, il), tr(ck, cl)]
            return obj[tr(ck, cl)]
        if op == 'loc_tuple':
            if not case['retain']:
                raise Discard('full tuples only with retained labels')
            lab = list(ref.index if axis == 0 else ref.columns)[case['i']]
            return obj.loc[lab] if axis == 0 else obj.loc[:, lab]
        if op == 'hloc':
            if not case['retain']:
                raise Discard('HLoc only with retained labels')
            key = sf.HLoc[_bname(case)(case['q'])]
            return obj.loc[key] if axis == 0 else obj.loc[:, key]
        if op == 'iter_array':
            return list(obj.iter_array(axis=case['iaxis']))
        if op == 'iter_series':
            return list(obj.iter_series(axis=case['iaxis']))
        if op == 'iter_tuple':
            return list(obj.iter_tuple(axis=case['iaxis'], constructor=tuple))
        if op == 'iter_items':
            return [(k, v) for k, v in obj.iter_array_items(axis=case['iaxis'])]
        if op == 'window':
            kw = dict(size=case['size'], step=case['step'], axis=axis, **case.get('wopts', {}))
            form = case.get('wform', 'items')
            if form == 'items':
                return [(k, v) for k, v in obj.iter_window_items(**kw)]
            if form == 'values':
                return list(obj.iter_window(**kw))
            if form == 'array':
                return list(obj.iter_window_array(**kw))
            if form == 'array_items':
                return [(k, v) for k, v in obj.iter_window_array_items(**kw)]
            return obj.iter_window(**kw).apply(lambda w: w.shape)
        raise AssertionError(op)

    want = lib(run, ref)
    got = lib(run, quilt)
    if isinstance(want, Raised):
        if isinstance(want.exc, Discard):
            raise want.exc
        raise Discard('the reference Frame rejects the operation: %s' % want.cls)
    if isinstance(got, Raised):
        if isinstance(got.exc, Discard):
            raise got.exc
        if got.cls in ('NotImplementedAxis', 'AxisInvalid') or isinstance(got.exc, NotImplementedError):
            raise Discard('documented refusal: %s' % got.cls)
        raise Failure('raised:%s' % got.cls, 'Quilt %s raised %r; the concatenated Frame gives %s' % (_describe(case), got.exc, short(_snap_any(want), 300)), got.where)
    if len(frames) >= 2 and w >= 2 and not case['backed']:
        # members whose labels on the other axis are the same set in another order are not aligned: a Quilt over them is refused
        # (it would stack their values by position under the first member's labels)
        f1 = frames[1]
        perm = f1.iloc[:, ::-1] if axis == 0 else f1.iloc[::-1]
        bad = lib(lambda: sf.Quilt(sf.Bus.from_frames([frames[0], perm] + list(frames[2:])), axis=axis, retain_labels=case['retain']).values)
        if not isinstance(bad, Raised):
            raise Failure('no-raise', 'a Quilt (axis=%d) over members whose opposite-axis labels are permuted was accepted: values %s' % (axis, short(bad.tolist(), 200)))
        if bad.cls != 'ErrorInitQuilt':
            raise Failure('raised:%s' % bad.cls, 'a Quilt over members with permuted opposite-axis labels raised %r, not the Quilt initialisation error' % bad.exc, bad.where)
    a, b = _snap_any(want), _snap_any(got)
    if not _same_snap(a, b):
        b = _snap_any(_cast_like(got, want))
    if not _same_snap(a, b):
        raise Failure('quilt-differs', 'Quilt %s -> %s; concatenated Frame -> %s' % (_describe(case), short(b, 500), short(a, 500)))
    if case['backed'] and case['max_persist'] is not None:
        loaded = int(bus.status['loaded'].sum())
        if loaded > case['max_persist']:
            raise Failure('bound', 'after Quilt %s the Bus holds %d loaded Frames with max_persist=%d' % (_describe(case), loaded, case['max_persist']))
    if op in ('iloc', 'loc', 'getitem'):
        k0 = case['k0']
        try:
            pos, _ = gen.positions_of(k0, total)
            spans = len({member_of(p) for p in pos}) >= 2
        except Exception:  # noqa: BLE001
            spans = False
    else:
        spans = len(case['members']) >= 2
    return {'nt': spans, 'cls': classes + (['spans-members'] if spans else [])}


def _describe(case):
    d = {k: v for k, v in case.items() if k not in ('members', 'kinds')}
    d['member_lens'] = [m['len'] for m in case['members']]
    return short(d, 400)


# ---------------------------------------------------------------------------------------------
# Batch

BATCH_OPS = ('iloc', 'loc_col', 'neg', 'mul', 'sum', 'mean', 'min', 'max', 'apply_T', 'apply_fillna', 'isin', 'sort_index', 'sort_values', 'clip', 'head', 'tail', 'cumsum', 'abs', 'transpose', 'drop', 'shift', 'count', 'std',
             # keyword options forwarded to every member: each flag and each axis on its own and combined
             'roll_c_ic', 'roll_i_ii', 'roll_ic_ic', 'roll_ic_ii', 'roll_ic', 'shift_c', 'sort_desc_cols')


@st.composite
def batch_cases(draw):
    chain = draw(st.lists(st.sampled_from(BATCH_OPS), min_size=1, max_size=3))  # decisive choices first
    export = draw(st.sampled_from(['items', 'to_frame', 'to_bus', 'to_frame']))
    tf = {'axis': draw(st.integers(0, 1)), 'union': draw(st.booleans()), 'fill': draw(st.sampled_from(['default', 0, -1.5]))}
    k = draw(st.sampled_from([2, 3, 1, 4]))
    frames = []
    for q in range(k):
        n = draw(st.integers(1, 4))
        cols = [draw(gen.column(draw(st.sampled_from(['int64', 'float64'])), n, missing=True)) for _ in range(2)]
        # members share column 'a'; the second column differs between members two times out of three, so that the
        # union and the intersection of the member results differ
        frames.append({'cols': cols, 'index': draw(gen.flat_labels(n, 'int')), 'names': ('a', draw(st.sampled_from(['b', 'c', 'b'])))})
    return {'frames': frames, 'chain': chain, 'export': export, 'tf': tf}


def _same_snap(a, b):
    """Equality of two snapshots; snapshots of unexpected results may hold arrays (an element-wise ==), which are compared by their text."""
    try:
        r = a == b
        return bool(r) if not isinstance(r, np.ndarray) else bool(r.all())
    except ValueError:
        return repr(a) == repr(b)


def _apply_chain(x, chain, rep=None):
    """Apply the chain to a Frame/Series, or to a Batch (``rep`` is a member result used to pick the call form)."""
    cur = rep if rep is not None else x
    for op in chain:
        is_frame = isinstance(cur, sf.Frame)

        def step(y):
            if op == 'iloc':
                return y.iloc[:1]
            if op == 'loc_col':
                return y['a'] if is_frame else y
            if op == 'neg':
                return -y
            if op == 'mul':
                return y * 2
            if op in ('sum', 'mean', 'min', 'max'):
                return getattr(y, op)() if is_frame else y
            if op == 'apply_T':
                if isinstance(y, sf.Batch):
                    return y.apply(lambda f: f.transpose()) if is_frame else y
                return y.transpose() if is_frame else y
            if op == 'apply_fillna':
                return y.apply(lambda f: f.fillna(0)) if isinstance(y, sf.Batch) else y.fillna(0)
            if op == 'isin':
                return y.isin((0, 1, 2.0))
            if op == 'sort_index':
                return y.sort_index(ascending=False)
            if op == 'sort_values':
                if is_frame:
                    return y.sort_values('a') if 'a' in cur.columns else y
                return y
            if op == 'clip':
                return y.clip(lower=0, upper=5) if is_frame else y
            if op == 'head':
                return y.head(2)
            if op == 'tail':
                return y.tail(2)
            if op == 'transpose':
                return y.transpose() if is_frame else y
            if op == 'drop':
                return y.drop.iloc[0] if is_frame else y
            if op == 'shift':
                return y.shift(1, fill_value=-1) if is_frame else y
            if op.startswith('roll_'):
                if not is_frame:
                    return y
                kw = {'roll_c_ic': dict(columns=1, include_columns=True), 'roll_i_ii': dict(index=1, include_index=True),
                      'roll_ic_ic': dict(index=1, columns=1, include_columns=True), 'roll_ic_ii': dict(index=1, columns=-1, include_index=True),
                      'roll_ic': dict(index=-1, columns=1)}[op]
                return y.roll(**kw)
            if op == 'shift_c':
                return y.shift(columns=1, fill_value=-1) if is_frame else y
            if op == 'sort_desc_cols':
                return y.sort_columns(ascending=False) if is_frame else y
            if op == 'count':
                return y.count() if is_frame else y
            if op == 'std':
                return y.std() if is_frame else y
            if op == 'cumsum':
                return y.cumsum()
            if op == 'abs':
                return abs(y)
            return y
        x = step(x)
        if rep is not None:
            cur = step(cur)
        else:
            cur = x
    return x


def _except_clause(frames, chain):
    """apply_except / apply_items_except: a member whose task fails with the named class is left out, every other member keeps
    its own result under its own label, and a failure of any other class surfaces (sequential and pooled routes alike)."""
    n = len(frames)
    silenced = frames[len(chain) % n].name
    other = frames[(len(chain) + 1) % n].name if n >= 3 and (n + len(chain)) % 2 else None

    def fn(f):
        if f.name == silenced:
            raise KeyError(f.name)
        if f.name == other:
            raise ValueError(f.name)
        return f.iloc[:1]

    def fn_items(label, f):
        if label == silenced:
            raise KeyError(label)
        if label == other:
            raise ValueError(label)
        return f.iloc[:1]
    want = [(f.name, _snap_any(f.iloc[:1])) for f in frames if f.name != silenced]
    for workers in (None, 2):
        for form, func in (('apply_except', fn), ('apply_items_except', fn_items)):
            what = 'Batch(max_workers=%r).%s(func, KeyError)' % (workers, form)
            r = lib(lambda: [(k, _snap_any(v)) for k, v in getattr(sf.Batch.from_frames(frames, max_workers=workers, use_threads=True), form)(func, KeyError).items()])
            if other is not None:
                if not isinstance(r, Raised):
                    raise Failure('except-swallowed', '%s: the ValueError of member %r did not surface; labels %s' % (what, other, [k for k, _ in r]))
                if not isinstance(r.exc, ValueError):
                    raise Failure('raised:%s' % r.cls, '%s raised %r where the member task raised ValueError' % (what, r.exc), r.where)
            else:
                if isinstance(r, Raised):
                    raise Failure('raised:%s' % r.cls, '%s raised %r although only the silenced class was raised' % (what, r.exc), r.where)
                if r != want:
                    raise Failure('except-differs', '%s -> %s; expected %s' % (what, short(r, 300), short(want, 300)))


def check_batch(case):
    frames = [sf.Frame.from_items(zip(spec.get('names', ('a', 'b')), spec['cols']), index=spec['index'], name='f%d' % q) for q, spec in enumerate(case['frames'])]
    chain = case['chain']
    expected = {}
    for f in frames:
        r = lib(_apply_chain, f, chain)
        if isinstance(r, Raised):
            raise Discard('the chain is not defined on a member Frame: %s' % r.cls)
        if not isinstance(r, (sf.Frame, sf.Series)):
            raise Discard('the chain reduces a member to an element')
        expected[f.name] = r
    got = lib(lambda: list(_apply_chain(sf.Batch.from_frames(frames), chain, rep=frames[0]).items()))
    if isinstance(got, Raised):
        raise Failure('raised:%s' % got.cls, 'Batch chain %s raised %r although it is defined on every member' % (chain, got.exc), got.where)
    if [k for k, _ in got] != [f.name for f in frames]:
        raise Failure('labels', 'Batch chain %s yields labels %s' % (chain, [k for k, _ in got]))
    for k, v in got:
        a, b = _snap_any(expected[k]), _snap_any(v)
        if isinstance(expected[k], sf.Series):
            a, b = list(a), list(b)
        if a != b:
            raise Failure('batch-differs', 'Batch chain %s under %r -> %s; the member alone -> %s' % (chain, k, short(b, 400), short(a, 400)))
    if case['export'] == 'to_frame':
        tf = case.get('tf', {'axis': 0, 'union': True, 'fill': 'default'})
        kw = {'axis': tf['axis'], 'union': tf['union']}
        if tf['fill'] != 'default':
            kw['fill_value'] = tf['fill']
        if (len(frames) + len(chain)) % 2:  # the name of the exported Frame, merging of equal-typed neighbouring blocks
            kw.update(name='bn', consolidate_blocks=True)
        r = lib(lambda: _apply_chain(sf.Batch.from_frames(frames), chain, rep=frames[0]).to_frame(**kw))
        vals = list(expected.values())
        if all(isinstance(v, sf.Frame) for v in vals):
            want = lib(lambda: sf.Frame.from_concat_items(expected.items(), **kw))
        elif all(isinstance(v, sf.Series) for v in vals):
            want = lib(lambda: sf.Frame.from_concat([v.rename(k) for k, v in expected.items()], **kw))
        else:
            want = None
        if want is not None and not isinstance(want, Raised):
            if isinstance(r, Raised):
                raise Failure('raised:%s' % r.cls, 'Batch chain %s .to_frame(%r) raised %r' % (chain, kw, r.exc), r.where)
            if obs.canon_name(r.name) != obs.canon_name(kw.get('name')):
                raise Failure('export-name', 'Batch chain %s .to_frame(%r) returned a Frame named %r' % (chain, kw, r.name))
            if _snap_any(r) != _snap_any(want):
                raise Failure('export-differs', 'Batch chain %s .to_frame(%r) -> %s; concatenating the member results -> %s' % (chain, kw, short(_snap_any(r), 400), short(_snap_any(want), 400)))
    elif case['export'] == 'to_bus':
        vals = list(expected.values())
        if all(isinstance(v, sf.Frame) for v in vals):
            r = lib(lambda: _apply_chain(sf.Batch.from_frames(frames), chain, rep=frames[0]).to_bus())
            if isinstance(r, Raised):
                raise Failure('raised:%s' % r.cls, 'Batch chain %s .to_bus() raised %r' % (chain, r.exc), r.where)
            for k, v in r.items():
                if _snap_any(v) != _snap_any(expected[k]):
                    raise Failure('export-differs', 'Batch chain %s .to_bus()[%r] differs' % (chain, k))
    if case['export'] not in ('to_frame', 'to_bus'):
        _except_clause(frames, chain)
    return {'nt': len(frames) >= 2, 'cls': ['chain:%d' % len(chain)] + ['bop:' + c for c in chain]}


def tag(case, f):
    if 'members' not in case:
        return None
    op = case['op']
    if op in ('iloc', 'loc', 'getitem') and f.kind.startswith('raised:'):
        try:
            total = sum(m['len'] for m in case['members'])
            p0, _ = gen.positions_of(case['k0'], total)
            p1 = gen.positions_of(case['k1'], len(case['kinds']))[0] if case['k1'] is not None else [0]
            if not p0 or not p1:
                return 'quilt-empty-selection-raises'
        except Exception:  # noqa: BLE001
            pass
    # windows whose extent is empty (shifted start) are extracted before they are judged invalid: the same empty selection
    if op == 'window' and case.get('wopts', {}).get('start_shift', 0) != 0 and (
            (f.kind == 'raised:UnboundLocalError' and 'component_is_series' in f.detail) or (f.kind == 'raised:RuntimeError' and 'StopIteration' in f.detail)):
        return 'quilt-empty-selection-raises'
    # non-ascending keys on the quilt axis: order inside a member is lost / a member is revisited
    if op in ('iloc', 'loc', 'getitem') and not case['ascending_only']:
        try:
            total = sum(m['len'] for m in case['members'])
            pos, _ = gen.positions_of(case['k0'], total)
            if pos != sorted(pos):
                return 'quilt-non-ascending-key-on-quilt-axis'
            if case['k1'] is not None:
                pos1, _ = gen.positions_of(case['k1'], len(case['kinds']))
                if pos1 != sorted(pos1):
                    return None
        except Exception:  # noqa: BLE001
            pass
    return None


SUBS = [
    Sub('quilt', quilt_cases(), check_quilt, quick=4800, thorough=40000, tag=tag,
        rule='Quilt op == same op on the concatenated Frame; loaded count bounded by max_persist'),
    Sub('batch', batch_cases(), check_batch, quick=2000, thorough=16000, tag=tag,
        rule='Batch chain == per-frame chain; exports concatenate the member results'),
]
