"""C20 — reshaping and relational operations follow their relational definitions.

labels:  set_index / set_index_hierarchy / unset_index / relabel_shift_in / relabel_shift_out move
         columns into labels and back without changing any cell or its row.
stack:   pivot_stack followed by pivot_unstack restores every original cell.
pivot:   one row per distinct index value, one column per (column value, data field), each cell
         the aggregation of exactly the source rows with that pair, fill elsewhere.
join:    inner/left/right/outer joins return exactly the matching row pairs (plus unmatched rows
         of the preserved side filled with the fill value), compared as multisets of value rows.
"""
import numpy as np
from hypothesis import strategies as st

from vf import gen, obs
from vf.base import Discard, Failure, Raised, arr_list, canon, eq, is_missing, lib, sf, short
from vf.harness import Sub

PID = 'C20'
RULE = ('Frames with repeated and unique key values (int/str keys), 1-2 key / index / column / data fields, keys from columns or the index, aggregations sum/min/max/first-like and '
        'non-idempotent (len, std) functions and function maps, fill values of another type, join cardinalities 1-1 / 1-n / n-n / no match, composite_index on/off with overlapping and '
        'disjoint index labels, both templates, both block layouts; non-trivial = a key value repeated on both sides (join) or an (index, column) group with >= 2 rows (pivot)')
ASSUMPTIONS = ['join results are compared as multisets of value rows (labels only for the composite form are not compared)', 'pivot row/column order is not compared (as sets of labels)']


def _hk(x):
    c = canon(x)
    if isinstance(c, tuple):
        return tuple(_hk(y) for y in c)
    if isinstance(c, (bool, int, float)) and not isinstance(c, bool):
        return float(c) if float(c) == c else c
    return c


def same_set(a, b):
    return len(a) == len(b) and all(any(eq(x, y) for y in b) for x in a) and all(any(eq(x, y) for y in a) for x in b)


def _frame(cols, labels, index, consolidate, name=None):
    blocks = gen.layout_consolidated(cols) if consolidate else gen.layout_split(cols)
    return sf.Frame(sf.TypeBlocks.from_blocks([gen.freeze(b) for b in blocks], shape_reference=(len(index), len(cols))), index=index, columns=labels, name=name, own_data=True)


# ---------------------------------------------------------------------------------------------
# label moves

@st.composite
def label_cases(draw):
    # decisive choices first (late draws are pinned to their first option for a share of Hypothesis's examples)
    what = draw(st.sampled_from(['set_unset', 'set_hier', 'shift_in_out', 'shift_out_in', 'set_keep', 'shift_out_list', 'set_shift_round']))
    perm = draw(st.permutations([0, 1, 2]))[: draw(st.sampled_from([2, 3, 1]))]
    consolidate, axis = draw(st.booleans()), draw(st.integers(0, 1))
    m = draw(st.sampled_from([3, 2, 4, 1]))   # (with one or two columns a move with drop=True leaves no data column)
    k0, k1 = draw(st.integers(0, m - 1)), draw(st.integers(0, m - 1))
    n = draw(st.sampled_from([4, 2, 3, 1, 5, 6]))
    cols = []
    for j in range(m):
        k = draw(st.sampled_from(['int', 'str', 'float']))
        if k == 'int':
            cols.append(np.array(draw(st.lists(st.integers(0, 3), min_size=n, max_size=n)), dtype=np.int64))
        elif k == 'str':
            cols.append(np.array(draw(st.lists(st.sampled_from(['a', 'b', 'c']), min_size=n, max_size=n)), dtype='<U1'))
        else:
            cols.append(np.array(draw(st.lists(st.sampled_from([0.5, 1.5, 2.5]), min_size=n, max_size=n))))
    return {'cols': cols, 'n': n, 'what': what, 'k0': k0, 'k1': k1, 'consolidate': consolidate, 'axis': axis, 'perm': list(perm)}


def check_labels(case):
    cols, n = case['cols'], case['n']
    m = len(cols)
    labels = ['c%d' % j for j in range(m)]
    f = _frame(cols, labels, list(range(n)), case['consolidate'])
    rows = [tuple(arr_list(c)[i] for c in cols) for i in range(n)]
    what = case['what']
    k0, k1 = case['k0'], case['k1']

    def rows_of(g, order):
        """Rows of frame g as tuples in the column order `order` (labels of g's columns)."""
        gc = obs.frame_cols(g)
        glabels = [canon(x) for x in g.columns]
        pos = [glabels.index(canon(l)) for l in order]
        return [tuple(arr_list(gc[p])[i] for p in pos) for i in range(g.shape[0])]

    if what in ('set_unset', 'set_keep'):
        key_vals = [r[k0] for r in rows]
        unique = len({_hk(v) for v in key_vals}) == n
        drop = what == 'set_unset'
        r = lib(lambda: f.set_index(labels[k0], drop=drop))
        if not unique:
            if isinstance(r, Raised):
                return {'nt': False, 'cls': ['labels:dup-key-rejected']}
            raise Failure('no-raise', 'set_index on a column with duplicates %s built an index' % short(key_vals))
        if isinstance(r, Raised):
            raise Failure('raised:%s' % r.cls, 'set_index raised %r' % r.exc, r.where)
        got_idx = obs.labels_of(r.index)
        if not all(eq(a, canon(b)) for a, b in zip(got_idx, key_vals)) or len(got_idx) != n:
            raise Failure('labels', 'set_index: index %s expected %s' % (short(got_idx), short(key_vals)))
        keep = [l for j, l in enumerate(labels) if not (drop and j == k0)]
        want_rows = [tuple(r_[j] for j, l in enumerate(labels) if l in keep) for r_ in rows]
        if rows_of(r, keep) != want_rows and not all(all(eq(a, b) for a, b in zip(x, y)) for x, y in zip(rows_of(r, keep), want_rows)):
            raise Failure('value', 'set_index changed cells: %s vs %s' % (short(rows_of(r, keep)), short(want_rows)))
        if not drop:
            return {'nt': n >= 2, 'cls': ['labels:' + what]}
        back = lib(lambda: r.unset_index())
        if isinstance(back, Raised):
            raise Failure('raised:%s' % back.cls, 'unset_index raised %r' % back.exc, back.where)
        # first column of `back` is the former index; the rest are the kept columns
        bcols = obs.frame_cols(back)
        if not all(eq(a, b) for a, b in zip(arr_list(bcols[0]), key_vals)):
            raise Failure('value', 'unset_index: restored key column %s expected %s' % (short(bcols[0]), short(key_vals)))
        rest = [tuple(arr_list(c)[i] for c in bcols[1:]) for i in range(n)]
        if not all(all(eq(a, b) for a, b in zip(x, y)) and len(x) == len(y) for x, y in zip(rest, want_rows)):
            raise Failure('value', 'unset_index changed cells: %s vs %s' % (short(rest), short(want_rows)))
        return {'nt': n >= 2, 'cls': ['labels:' + what]}
    if what == 'set_hier':
        if k0 == k1:
            raise Discard('needs two key columns')
        keys = [(r[k0], r[k1]) for r in rows]
        if len({_hk(t) for t in keys}) != n:
            raise Discard('duplicate hierarchical keys')
        drop = bool(case['axis'])  # reuse the spare draw: both drop modes
        r = lib(lambda: f.set_index_hierarchy([labels[k0], labels[k1]], drop=drop, reorder_for_hierarchy=True))
        if isinstance(r, Raised):
            raise Failure('raised:%s' % r.cls, 'set_index_hierarchy(drop=%s) raised %r' % (drop, r.exc), r.where)
        keep = [l for j, l in enumerate(labels) if (j not in (k0, k1) or not drop)]
        got = {}
        gl = obs.labels_of(r.index)
        grows = rows_of(r, keep) if keep else [()] * n
        for lab, row in zip(gl, grows):
            got[_hk(lab)] = row
        for key, r_ in zip(keys, rows):
            w = tuple(r_[j] for j, l in enumerate(labels) if l in keep)
            if _hk(key) not in got:
                raise Failure('labels', 'set_index_hierarchy lost key %r (index %s)' % (key, short(gl)))
            if not all(eq(a, b) for a, b in zip(got[_hk(key)], w)):
                raise Failure('value', 'set_index_hierarchy moved cells: key %r row %s expected %s' % (key, got[_hk(key)], w))
        return {'nt': n >= 2, 'cls': ['labels:set_hier']}
    if what == 'set_shift_round':
        # one column becomes the index (its label becomes the index name), a second one is shifted in next to it, then both
        # depths are shifted out again: the two columns come back under their own labels (labels here are 0, 1, ... or
        # '', 'c1', ...: a label that is falsy is a label like any other)
        if k0 == k1 or m < 3:
            raise Discard('needs two key columns and a data column')
        lab2 = list(range(m)) if case['consolidate'] else [''] + ['c%d' % j for j in range(1, m)]
        f2 = f.relabel(columns=lab2)
        if len({_hk(r_[k0]) for r_ in rows}) != n:
            raise Discard('key column not unique')
        r = lib(lambda: f2.set_index(lab2[k0], drop=True).relabel_shift_in(lab2[k1], axis=0))
        if isinstance(r, Raised):
            raise Failure('raised:%s' % r.cls, 'set_index(%r).relabel_shift_in(%r) raised %r' % (lab2[k0], lab2[k1], r.exc), r.where)
        nm = r.index.name
        if not (isinstance(nm, tuple) and len(nm) == 2 and eq(canon(nm[0]), canon(lab2[k0])) and eq(canon(nm[1]), canon(lab2[k1]))):
            raise Failure('name', 'set_index(%r).relabel_shift_in(%r): index name %r expected %r' % (lab2[k0], lab2[k1], nm, (lab2[k0], lab2[k1])))
        back = lib(lambda: r.relabel_shift_out([0, 1], axis=0))
        if isinstance(back, Raised):
            raise Failure('raised:%s' % back.cls, 'relabel_shift_out([0, 1]) raised %r' % back.exc, back.where)
        bl = [canon(x) for x in back.columns]
        if not same_set(bl, [canon(x) for x in lab2]):
            raise Failure('labels', 'set_index / shift_in / shift_out round trip: columns %s expected (as a set) %s' % (short(bl), short(lab2)))
        bc = obs.frame_cols(back)
        for j, lab in enumerate(lab2):
            g = arr_list(bc[[q for q, x in enumerate(bl) if eq(x, canon(lab))][0]])
            if not all(eq(a, b) for a, b in zip(g, [r_[j] for r_ in rows])):
                raise Failure('value', 'round trip: column %r holds %s expected %s' % (lab, short(g), short([r_[j] for r_ in rows])))
        return {'nt': n >= 2, 'cls': ['labels:set_shift_round', 'falsy-key' if not lab2[k0] else 'truthy-key']}
    # relabel_shift_in / relabel_shift_out
    if what == 'shift_in_out':
        r = lib(lambda: f.relabel_shift_in(labels[k0], axis=0))
        if isinstance(r, Raised):
            raise Failure('raised:%s' % r.cls, 'relabel_shift_in raised %r' % r.exc, r.where)
        gl = obs.labels_of(r.index)
        want_l = [(i, canon(rows[i][k0])) for i in range(n)]
        if not all(eq(a, b) for a, b in zip(gl, want_l)) or len(gl) != n:
            raise Failure('labels', 'relabel_shift_in: index %s expected %s' % (short(gl), short(want_l)))
        keep = [l for j, l in enumerate(labels) if j != k0]
        want_rows = [tuple(r_[j] for j in range(m) if j != k0) for r_ in rows]
        if not all(all(eq(a, b) for a, b in zip(x, y)) for x, y in zip(rows_of(r, keep), want_rows)):
            raise Failure('value', 'relabel_shift_in changed cells')
        back = lib(lambda: r.relabel_shift_out(1, axis=0))
        if isinstance(back, Raised):
            raise Failure('raised:%s' % back.cls, 'relabel_shift_out raised %r' % back.exc, back.where)
        bcols = obs.frame_cols(back)
        if obs.labels_of(back.index) != list(range(n)):
            raise Failure('labels', 'relabel_shift_out: index %s' % short(obs.labels_of(back.index)))
        if not all(eq(a, rows[i][k0]) for i, a in enumerate(arr_list(bcols[0]))):
            raise Failure('value', 'relabel_shift_out: restored column %s' % short(bcols[0]))
        return {'nt': n >= 2, 'cls': ['labels:shift_in_out']}
    if what == 'shift_out_list':
        # a depth-3 hierarchy (unique first depth) whose depths are moved into the frame in an arbitrary order
        perm = case.get('perm') or [1, 0]
        names = ('d0', 'd1', 'd2')
        depth_vals = [list(range(n)), [rows[i][k0] for i in range(n)], [rows[i][k1] for i in range(n)]]
        ih = lib(lambda: sf.IndexHierarchy.from_labels(list(zip(*depth_vals)), name=names))
        if isinstance(ih, Raised):
            raise Discard('labels do not form a hierarchy')
        g = f.relabel(index=ih)
        for axis in (0, 1):
            src = g if axis == 0 else g.transpose()
            r = lib(lambda: src.relabel_shift_out(perm, axis=axis))
            if isinstance(r, Raised):
                remain_ = [d for d in range(3) if d not in perm]
                rem_labels = [tuple(canon(depth_vals[d][i]) for d in remain_) for i in range(n)]
                if remain_ and (len(set(map(repr, rem_labels))) != n or (len(remain_) > 1 and not gen.is_tree_order(rem_labels))) \
                        and isinstance(r.exc, sf.ErrorInitIndex):
                    raise Discard('the depths that remain do not form a valid index (rightly rejected)')
                raise Failure('raised:%s' % r.cls, 'relabel_shift_out(%r, axis=%d) raised %r' % (perm, axis, r.exc), r.where)
            r = r if axis == 0 else r.transpose()
            if r.shape != (n, m + len(perm)):
                raise Failure('shape', 'relabel_shift_out(%r, axis=%d): shape %s expected %s' % (perm, axis, r.shape, (n, m + len(perm))))
            rl = obs.labels_of(r.columns)
            want_new = [names[d] for d in perm]
            if [canon(x) for x in rl[:len(perm)]] != want_new or [canon(x) for x in rl[len(perm):]] != labels:
                raise Failure('labels', 'relabel_shift_out(%r, axis=%d): labels %s expected %s' % (perm, axis, short(rl), want_new + labels))
            rc = obs.frame_cols(r)
            for q, d in enumerate(perm):
                got = arr_list(rc[q])
                if not all(eq(a, canon(b)) for a, b in zip(got, depth_vals[d])):
                    raise Failure('value', 'relabel_shift_out(%r, axis=%d): the new %s named %r holds %s but depth %d of the source is %s' % (
                        perm, axis, 'column' if axis == 0 else 'row', names[d], short(got), d, short(depth_vals[d])))
            rest = [tuple(arr_list(c)[i] for c in rc[len(perm):]) for i in range(n)]
            if not all(all(eq(a, b) for a, b in zip(x, y)) for x, y in zip(rest, rows)):
                raise Failure('value', 'relabel_shift_out(%r, axis=%d) changed cells' % (perm, axis))
            remain = [d for d in range(3) if d not in perm]
            gi = obs.labels_of(r.index)
            if len(remain) == 0:
                want_i = list(range(n))
            elif len(remain) == 1:
                want_i = [canon(x) for x in depth_vals[remain[0]]]
            else:
                want_i = [tuple(canon(depth_vals[d][i]) for d in remain) for i in range(n)]
            if len(gi) != n or not all(eq(a, b) for a, b in zip(gi, want_i)):
                raise Failure('labels', 'relabel_shift_out(%r, axis=%d): remaining index %s expected %s' % (perm, axis, short(gi), short(want_i)))
        return {'nt': n >= 2 and len(perm) >= 2, 'cls': ['labels:shift_out_list', 'perm-%s' % ('ascending' if perm == sorted(perm) else 'permuted')]}
    if what == 'shift_out_in':
        r = lib(lambda: f.relabel_shift_out(0, axis=0))
        if isinstance(r, Raised):
            raise Failure('raised:%s' % r.cls, 'relabel_shift_out(0) raised %r' % r.exc, r.where)
        bcols = obs.frame_cols(r)
        if arr_list(bcols[0]) != list(range(n)) or r.shape != (n, m + 1):
            raise Failure('value', 'relabel_shift_out(0): first column %s shape %s' % (short(bcols[0]), r.shape))
        rest = [tuple(arr_list(c)[i] for c in bcols[1:]) for i in range(n)]
        if not all(all(eq(a, b) for a, b in zip(x, y)) for x, y in zip(rest, rows)):
            raise Failure('value', 'relabel_shift_out changed cells')
        return {'nt': n >= 2, 'cls': ['labels:shift_out_in']}
    raise AssertionError(what)


# ---------------------------------------------------------------------------------------------
# stack / unstack

STACK_KINDS = ('int64', 'float64', '<U1', '<U6', 'float32', 'bool', 'int8', 'M8[D]', 'M8[m]')


def _stack_col(kind, vals):
    """A column of the given dtype whose cells are exactly representable only in that dtype's width."""
    if kind == '<U1':
        return np.array(['abcdefghij'[v % 10] for v in vals], dtype='<U1')
    if kind == '<U6':
        return np.array(['w%05d' % (v % 100000) for v in vals], dtype='<U6')
    if kind == 'float64':
        return np.array([v + 0.1 for v in vals], dtype=np.float64)
    if kind == 'float32':
        return np.array([v + 0.5 for v in vals], dtype=np.float32)
    if kind == 'bool':
        return np.array([v % 2 == 0 for v in vals], dtype=bool)
    if kind == 'int8':
        return np.array([v % 100 for v in vals], dtype=np.int8)
    if kind == 'M8[D]':
        return np.array([np.datetime64(18000 + v, 'D') for v in vals], dtype='M8[D]')
    if kind == 'M8[m]':
        return np.array([np.datetime64(18000 * 1440 + 61 * v + 7, 'm') for v in vals], dtype='M8[m]')
    if kind == 'M8[ns]':
        return np.array([np.datetime64(1577836800000000001 + 1000003 * v, 'ns') for v in vals], dtype='M8[ns]')
    if kind == 'int64big':   # not representable as float64
        return np.array([2 ** 53 + 1 + 2 * v for v in vals], dtype=np.int64)
    return np.array([v * 100003 for v in vals], dtype=np.int64)


@st.composite
def stack_cases(draw):
    n = draw(st.sampled_from([2, 3, 1, 4]))
    a = draw(st.lists(st.sampled_from(['x', 'y', 'z']), min_size=1, max_size=3, unique=True))
    b = draw(st.lists(st.integers(0, 3), min_size=1, max_size=3, unique=True))
    import itertools
    cols = list(itertools.product(a, b))
    # one dtype for all columns half of the time, otherwise a dtype per column (narrow before wide within a kind too)
    if draw(st.booleans()):
        kinds = [draw(st.sampled_from(['int64', 'float64']))] * len(cols)
        by_group = None
    else:
        fam = draw(st.sampled_from([('<U1', '<U6'), ('float32', 'float64'), ('int8', 'int64'), ('M8[D]', 'M8[m]'), STACK_KINDS, 'by_group']))
        by_group = None
        if fam == 'by_group':
            # one dtype per label of the depth that stays on the columns: every stacked column is homogeneous, the frame as a whole is
            # not (large ints beside floats, nanosecond datetimes beside numbers: a whole-frame array could not hold the cells)
            by_group = draw(st.lists(st.sampled_from(['int64big', 'float64', 'M8[ns]', '<U6', 'int64big']), min_size=4, max_size=4))
            kinds = ['int64'] * len(cols)
        else:
            kinds = [draw(st.sampled_from(fam)) for _ in cols]
    # ragged columns (some (outer, inner) pairs absent) leave cells to fill; the fill value may be of another type
    keep = [j for j in range(len(cols)) if draw(st.integers(0, 3)) > 0] or [0]
    fill = draw(st.sampled_from(['default', -1, 0.5, 'zz', 'default']))
    dl = draw(st.sampled_from([1, 0, 1]))   # the depth that is moved
    if by_group is not None:
        # (no ragged columns here: a fill value beside a large int resolves to float64, which is C07's recorded finding, not this property's)
        kinds = [by_group['xyz'.index(a_) if dl == 1 else b_] for a_, b_ in cols]
        keep = list(range(len(cols)))
    cols = [cols[j] for j in keep]
    kinds = [kinds[j] for j in keep]
    data = draw(st.lists(st.integers(0, 40), min_size=n * len(cols), max_size=n * len(cols)))
    return {'n': n, 'cols': cols, 'kinds': kinds, 'fill': fill, 'dl': dl, 'data': np.array(data, dtype=np.int64).reshape(n, len(cols)),
            'index': draw(gen.flat_labels(n, draw(st.sampled_from(['int', 'str']))))}


def check_stack(case):
    n, cols = case['n'], case['cols']
    kinds = case.get('kinds') or [str(case['data'].dtype)] * len(cols)
    arrays = [_stack_col(k, case['data'][:, j].tolist()) if 'kinds' in case else case['data'][:, j] for j, k in enumerate(kinds)]
    data = arrays
    f = sf.Frame.from_items(zip(cols, [gen.freeze(a) for a in arrays]), index=case['index'], columns_constructor=sf.IndexHierarchy.from_labels)
    fill = case.get('fill', 'default')
    fkw = {} if fill == 'default' else {'fill_value': fill}
    dl = case.get('dl', 1)
    st_ = lib(lambda: f.pivot_stack(dl, **fkw))
    if isinstance(st_, Raised):
        raise Failure('raised:%s' % st_.cls, 'pivot_stack(%d, %r) raised %r' % (dl, fkw, st_.exc), st_.where)

    def collect(fr, key_of, what):
        # every cell is either an original cell or (where the source has no such cell) the fill value
        out, filled = {}, 0
        rl, cl_ = obs.labels_of(fr.index), obs.labels_of(fr.columns)
        fc = obs.frame_cols(fr)
        for j, c in enumerate(cl_):
            for i, r in enumerate(rl):
                v = arr_list(fc[j])[i]
                k = key_of(r, c)
                if k in want:
                    out[k] = v
                else:
                    filled += 1
                    if not ((fill == 'default' and is_missing(v)) or (fill != 'default' and eq(v, fill))):
                        raise Failure('fill', '%s: cell %r has no source cell and holds %r, expected the fill value %r' % (what, k, v, 'missing' if fill == 'default' else fill))
        return out, filled
    want = {}
    for i, r in enumerate(case['index']):
        for j, (a, b) in enumerate(cols):
            want[(_hk(r), _hk(a), _hk(b))] = arr_list(data[j])[i]
    # stacked: rows (index, inner), columns outer
    # (the moved depth becomes the inner row depth; unstacking it again appends it as the inner column depth)
    k_st = (lambda r, c: (_hk(r[0]), _hk(c), _hk(r[1]))) if dl == 1 else (lambda r, c: (_hk(r[0]), _hk(r[1]), _hk(c)))
    k_un = (lambda r, c: (_hk(r), _hk(c[0]), _hk(c[1]))) if dl == 1 else (lambda r, c: (_hk(r), _hk(c[1]), _hk(c[0])))
    k_tr = (lambda r, c: (_hk(c[0]), _hk(r), _hk(c[1]))) if dl == 1 else (lambda r, c: (_hk(c[0]), _hk(c[1]), _hk(r)))
    cells, nf1 = collect(st_, k_st, 'pivot_stack(%d, %r)' % (dl, fkw))
    if set(cells) != set(want) or not all(eq(cells[k], want[k]) for k in want):
        raise Failure('stack', 'pivot_stack cells %s expected %s' % (short(sorted(cells.items(), key=repr), 300), short(sorted(want.items(), key=repr), 300)))
    un = lib(lambda: st_.pivot_unstack(1, **fkw))
    if isinstance(un, Raised):
        raise Failure('raised:%s' % un.cls, 'pivot_unstack(1, %r) raised %r' % (fkw, un.exc), un.where)
    got, nf2 = collect(un, k_un, 'stack(%d) then unstack(%r)' % (dl, fkw))
    if set(got) != set(want) or not all(eq(got[k], want[k]) for k in want):
        raise Failure('unstack', 'stack then unstack: cells %s expected %s' % (short(sorted(got.items(), key=repr), 300), short(sorted(want.items(), key=repr), 300)))
    nf3 = 0
    if len(set(kinds)) == 1 and kinds[0] in ('int64', 'float64'):
        # the transposed frame has the ragged hierarchy on its rows: unstacking it meets groups without a target directly
        ft = f.transpose()
        ut = lib(lambda: ft.pivot_unstack(dl, **fkw))
        if isinstance(ut, Raised):
            raise Failure('raised:%s' % ut.cls, 'pivot_unstack(1, %r) on a ragged hierarchical index raised %r' % (fkw, ut.exc), ut.where)
        gt, nf3 = collect(ut, k_tr, 'unstack(%d) of a ragged index (%r)' % (dl, fkw))
        if set(gt) != set(want) or not all(eq(gt[k], want[k]) for k in want):
            raise Failure('unstack', 'unstack of a ragged index: cells %s expected %s' % (short(sorted(gt.items(), key=repr), 300), short(sorted(want.items(), key=repr), 300)))
    return {'nt': n >= 2 and len(cols) >= 2, 'cls': ['stack', 'stack-depth:%d' % dl, 'stack-dtypes:%d' % len(set(kinds)), 'fill:%s' % type(fill).__name__] + (['cells-filled'] if nf1 + nf2 + nf3 else [])}


# ---------------------------------------------------------------------------------------------
# pivot

AGG = {'sum': (np.nansum, sum), 'min': (np.nanmin, min), 'max': (np.nanmax, max), 'len': (len, len), 'std': (np.std, None), 'first': (None, None)}


@st.composite
def pivot_cases(draw):
    opts = {'two_index': draw(st.booleans()), 'use_columns': draw(st.booleans()), 'two_data': draw(st.booleans()),
            'func': draw(st.sampled_from(['sum', 'default', 'min', 'max', 'map', 'sum', 'min', 'max', 'default', 'map', 'len', 'std'])),  # (len / std meet two listed findings: 1 in 6)
            'tree': draw(st.integers(0, 4)) < 4,
            'fill': draw(st.sampled_from([float('nan'), 0, 'ff', None])), 'consolidate': draw(st.booleans())}  # decisive choices first
    n = draw(st.sampled_from([5, 3, 8, 1, 2, 4, 6, 7]))
    ik = draw(st.lists(st.sampled_from(['i0', 'i1', 'i2']), min_size=n, max_size=n))
    ck = draw(st.lists(st.sampled_from(['p', 'q', 'r']), min_size=n, max_size=n))
    ik2 = draw(st.lists(st.integers(0, 1), min_size=n, max_size=n))
    d0 = draw(st.lists(st.integers(-9, 9), min_size=n, max_size=n))
    d1 = draw(st.lists(st.sampled_from([0.5, 1.5, -2.0, 4.0]), min_size=n, max_size=n))
    if opts['tree'] and opts['two_index']:
        # rows ordered so that the (index field, second index field) combinations appear in tree order: several index
        # fields in another order are a listed finding (the constructor rejects the derived labels)
        order = sorted(range(n), key=lambda q: (ik[q], ik2[q]))
        ik, ck, ik2, d0, d1 = ([x[q] for q in order] for x in (ik, ck, ik2, d0, d1))
    return dict({'n': n, 'ik': list(ik), 'ck': list(ck), 'ik2': list(ik2), 'd0': list(d0), 'd1': list(d1)}, **opts)


def check_pivot(case):
    n = case['n']
    cols = [np.array(case['ik'], dtype='<U2'), np.array(case['ck'], dtype='<U1'), np.array(case['ik2'], dtype=np.int64),
            np.array(case['d0'], dtype=np.int64), np.array(case['d1'], dtype=np.float64)]
    labels = ['ik', 'ck', 'ik2', 'd0', 'd1']
    f = _frame(cols, labels, list(range(n)), case['consolidate'])
    index_fields = ['ik', 'ik2'] if case['two_index'] else ['ik']
    columns_fields = ['ck'] if case['use_columns'] else []
    data_fields = ['d0', 'd1'] if case['two_data'] else ['d0']
    fname = case['func']
    if fname == 'default':
        func, agg = None, lambda xs: float(np.nansum(xs)) if any(isinstance(x, float) for x in xs) else int(np.nansum(xs))
    elif fname == 'map':
        func, agg = {'lo': np.min, 'hi': np.max}, None
    else:
        func = {'sum': np.sum, 'min': np.min, 'max': np.max, 'len': len, 'std': np.std}[fname]
        agg = lambda xs: func(np.array(xs))
    kw = {'fill_value': case['fill']}
    if func is not None:
        kw['func'] = func
    r = lib(lambda: f.pivot(index_fields if len(index_fields) > 1 else index_fields[0],
                            columns_fields if columns_fields else (),
                            data_fields if len(data_fields) > 1 else data_fields[0], **kw))
    if isinstance(r, Raised):
        raise Failure('raised:%s' % r.cls, 'pivot(%s, %s, %s, func=%s) raised %r' % (index_fields, columns_fields, data_fields, fname, r.exc), r.where)
    rows = list(zip(case['ik'], case['ck'], case['ik2'], case['d0'], case['d1']))
    pos = {'ik': 0, 'ck': 1, 'ik2': 2, 'd0': 3, 'd1': 4}
    groups = {}
    for row in rows:
        ikey = tuple(row[pos[x]] for x in index_fields)
        ckey = tuple(row[pos[x]] for x in columns_fields)
        groups.setdefault((ikey, ckey), []).append(row)
    ikeys = list(dict.fromkeys(k[0] for k in groups))
    ckeys = list(dict.fromkeys(k[1] for k in groups))
    funcs = [('', None)] if fname != 'map' else [('lo', np.min), ('hi', np.max)]
    # expected cells: {(ikey, column-label-tuple): value}
    want = {}
    for ik_ in ikeys:
        for ck_ in ckeys:
            for d in data_fields:
                for fl, fn in funcs:
                    src = groups.get((ik_, ck_))
                    lab = tuple(ck_) + ((d,) if (len(data_fields) > 1 or not columns_fields) else ()) + ((fl,) if fname == 'map' else ())
                    if src is None:
                        want[(_hk(ik_ if len(ik_) > 1 else ik_[0]), _hk(lab if len(lab) > 1 else lab[0]))] = ('fill', None)
                    else:
                        xs = [row[pos[d]] for row in src]
                        v = (fn(np.array(xs)) if fn is not None else agg(xs))
                        want[(_hk(ik_ if len(ik_) > 1 else ik_[0]), _hk(lab if len(lab) > 1 else lab[0]))] = ('val', v, len(src))
    gi, gc = obs.labels_of(r.index), obs.labels_of(r.columns)
    rcols = obs.frame_cols(r)
    got = {}
    for j, c in enumerate(gc):
        for i, rr in enumerate(gi):
            got[(_hk(rr), _hk(c))] = arr_list(rcols[j])[i]
    if set(got) != set(want):
        raise Failure('pivot-labels', 'pivot(%s,%s,%s,%s): cells %s expected %s' % (index_fields, columns_fields, data_fields, fname, short(sorted(got, key=repr), 300), short(sorted(want, key=repr), 300)))
    multi = False
    for k, w in want.items():
        g = got[k]
        if w[0] == 'fill':
            fill = case['fill']
            if not (eq(g, fill) or (is_missing(g) and is_missing(fill))):
                raise Failure('pivot-fill', 'pivot cell %r has no source rows: got %r expected fill %r' % (k, g, fill))
        else:
            if w[2] >= 2:
                multi = True
            if not (eq(g, w[1]) or (is_missing(g) and is_missing(w[1])) or _close(g, w[1])):
                raise Failure('pivot-value', 'pivot(func=%s) cell %r aggregates %d source rows: got %r expected %r' % (fname, k, w[2], g, w[1]))
    return {'nt': multi, 'cls': ['pivot:' + fname, 'pivot:index%d' % len(index_fields), 'pivot:cols%d' % len(columns_fields), 'pivot:data%d' % len(data_fields)]}


def _close(a, b):
    try:
        return abs(float(a) - float(b)) <= 1e-9 * max(abs(float(a)), abs(float(b)), 1.0)
    except Exception:  # noqa: BLE001
        return False


# ---------------------------------------------------------------------------------------------
# joins

@st.composite
def join_cases(draw):
    opts = {'kind': draw(st.sampled_from(['inner', 'left', 'right', 'outer'])), 'composite': draw(st.integers(0, 4)) < 4,  # (non-composite joins are a listed finding: 1 in 5)
            'index_overlap': draw(st.sampled_from(['same', 'disjoint', 'partial'])), 'fill': draw(st.sampled_from([float('nan'), -1, 'ff', None])),
            'template': draw(st.booleans()), 'key_in_index': draw(st.sampled_from(['none', 'none', 'left', 'right'])), 'consolidate': draw(st.booleans()),
            'str_payload': draw(st.booleans())}  # decisive choices first
    nl, nr = draw(st.sampled_from([3, 2, 4, 1, 5])), draw(st.sampled_from([3, 2, 4, 1, 5]))
    pool = draw(st.sampled_from([[1, 2, 3], ['a', 'b', 'c'], [1, 2]]))
    lk = draw(st.lists(st.sampled_from(pool), min_size=nl, max_size=nl))
    rk = draw(st.lists(st.sampled_from(pool + ([9] if isinstance(pool[0], int) else ['z'])), min_size=nr, max_size=nr))
    return dict({'lk': lk, 'rk': rk}, **opts)


def check_join(case):
    lk, rk = case['lk'], case['rk']
    nl, nr = len(lk), len(rk)
    kdt = '<U1' if isinstance(lk[0], str) else np.int64
    lv = np.arange(nl) * 10 + 1
    rv = np.arange(nr) * 10 + 5
    li = ['L%d' % i for i in range(nl)]
    if case['index_overlap'] == 'same':
        ri = ['L%d' % i for i in range(nr)]
    elif case['index_overlap'] == 'disjoint':
        ri = ['R%d' % i for i in range(nr)]
    else:
        ri = [('L%d' % i) if i % 2 else ('R%d' % i) for i in range(nr)]
    lpay = lv if not case['str_payload'] else np.array(['l%d' % i for i in range(nl)])
    left = _frame([np.array(lk, dtype=kdt), lpay], ['k', 'lv'], li, case['consolidate'], name='left')
    right = _frame([np.array(rk, dtype=kdt), rv], ['k', 'rv'], ri, case['consolidate'], name='right')
    kw = dict(left_columns='k', right_columns='k', fill_value=case['fill'], composite_index=case['composite'])
    if case['template']:
        kw.update(left_template='{}_l', right_template='{}_r')
        names = ['k_l', 'lv_l', 'k_r', 'rv_r']
    else:
        kw.update(left_template='l_{}', right_template='r_{}')
        names = ['l_k', 'l_lv', 'r_k', 'r_rv']
    r = lib(lambda: getattr(left, 'join_' + case['kind'])(right, **kw))
    if isinstance(r, Raised):
        if isinstance(r.exc, RuntimeError) and 'composite index is required' in str(r.exc):
            raise Discard('documented refusal: a composite index is required')
        raise Failure('raised:%s' % r.cls, 'join_%s raised %r' % (case['kind'], r.exc), r.where)
    fill = case['fill']
    lrows = [(lk[i], arr_list(lpay)[i]) for i in range(nl)]
    rrows = [(rk[j], int(rv[j])) for j in range(nr)]
    want = []
    matched_l, matched_r = set(), set()
    for i in range(nl):
        for j in range(nr):
            if eq(lk[i], rk[j]):
                want.append((lrows[i][0], lrows[i][1], rrows[j][0], rrows[j][1]))
                matched_l.add(i)
                matched_r.add(j)
    if case['kind'] in ('left', 'outer'):
        for i in range(nl):
            if i not in matched_l:
                want.append((lrows[i][0], lrows[i][1], fill, fill))
    if case['kind'] in ('right', 'outer'):
        for j in range(nr):
            if j not in matched_r:
                want.append((fill, fill, rrows[j][0], rrows[j][1]))
    gc = [str(x) for x in obs.labels_of(r.columns)]
    if sorted(gc) != sorted(names):
        raise Failure('join-columns', 'join_%s columns %s expected %s' % (case['kind'], gc, names))
    rcols = obs.frame_cols(r)
    order = [gc.index(nm) for nm in names]
    got = [tuple(arr_list(rcols[p])[i] for p in order) for i in range(r.shape[0])]

    def norm(row):
        return tuple(('<missing>' if (is_missing(x) and x is not None) else ('<None>' if x is None else _hk(x))) for x in row)
    a = sorted((norm(x) for x in got), key=repr)
    b = sorted((norm(x) for x in want), key=repr)
    if a != b:
        raise Failure('join-rows', 'join_%s(composite_index=%s, index %s): rows %s expected %s' % (case['kind'], case['composite'], case['index_overlap'], short(a, 400), short(b, 400)))
    rep_both = any(lk.count(v) >= 1 and rk.count(v) >= 1 and (lk.count(v) >= 2 or rk.count(v) >= 2) for v in set(lk))
    return {'nt': rep_both, 'cls': ['join:' + case['kind'], 'composite' if case['composite'] else 'plain-index', 'overlap:' + case['index_overlap']]}


# ---------------------------------------------------------------------------------------------
# joins keyed on index depths and / or several columns, listed in any order

@st.composite
def _side_spec(draw, width):
    """(depth list, column list): the key of a row is its values at those depths, then at those columns, in the order listed."""
    nd = draw(st.sampled_from([w for w in (width, 0, 1, 2) if w <= width]))
    depths = list(draw(st.permutations([0, 1, 2])))[:nd]
    cols = list(draw(st.permutations(['a', 'b', 'c'])))[:width - nd]
    return {'depths': depths, 'cols': cols, 'scalar': draw(st.booleans())}


@st.composite
def join_key_cases(draw):
    kind = draw(st.sampled_from(['inner', 'left', 'right', 'outer']))
    width = draw(st.sampled_from([2, 1, 3, 2]))
    sides = [draw(_side_spec(width)), draw(_side_spec(width))]
    strs, consolidate = draw(st.booleans()), draw(st.booleans())
    pool = ['x', 'y'] if strs else [1, 2]
    nl, nr = draw(st.sampled_from([4, 3, 5, 2, 6, 1])), draw(st.sampled_from([4, 3, 5, 2, 6, 1]))
    rows = [[tuple(draw(st.sampled_from(pool)) for _ in range(6)) for _ in range(n)] for n in (nl, nr)]
    return {'kind': kind, 'width': width, 'sides': sides, 'strs': strs, 'consolidate': consolidate, 'rows': rows}


def _side_frame(rows, strs, consolidate, pay, name):
    # each row: three index depths (d0, d1, d2), a fourth depth making the label unique, and columns a, b, c and a payload
    rows = sorted(rows)
    n = len(rows)
    kdt = '<U1' if strs else np.int64
    labels = [(r[0], r[1], r[2], i) for i, r in enumerate(rows)]
    ix = sf.IndexHierarchy.from_labels(labels)
    cols = [np.array([r[3 + q] for r in rows], dtype=kdt) for q in range(3)] + [np.arange(n) * 10 + pay]
    return _frame(cols, ['a', 'b', 'c', 'v'], ix, consolidate, name=name), rows


def _side_key(spec, row):
    return tuple(row[d] for d in spec['depths']) + tuple(row[3 + 'abc'.index(c)] for c in spec['cols'])


def _side_kwargs(spec, side):
    kw = {}
    if spec['depths']:
        kw[side + '_depth_level'] = spec['depths'][0] if (len(spec['depths']) == 1 and spec['scalar']) else list(spec['depths'])
    if spec['cols']:
        kw[side + '_columns'] = spec['cols'][0] if (len(spec['cols']) == 1 and spec['scalar']) else list(spec['cols'])
    return kw


def check_join_keys(case):
    (left, lrows), (right, rrows) = (_side_frame(case['rows'][0], case['strs'], case['consolidate'], 1, 'left'),
                                     _side_frame(case['rows'][1], case['strs'], case['consolidate'], 5, 'right'))
    ls, rs = case['sides']
    kw = dict(fill_value=-1, left_template='l_{}', right_template='r_{}')
    kw.update(_side_kwargs(ls, 'left'))
    kw.update(_side_kwargs(rs, 'right'))
    r = lib(lambda: getattr(left, 'join_' + case['kind'])(right, **kw))
    desc = 'join_%s(%s)' % (case['kind'], ', '.join('%s=%r' % kv for kv in sorted(kw.items()) if not kv[0].endswith('template')))
    if isinstance(r, Raised):
        raise Failure('raised:%s' % r.cls, '%s raised %r' % (desc, r.exc), r.where)
    want = []
    ml, mr = set(), set()
    for i, a in enumerate(lrows):
        for j, b in enumerate(rrows):
            if _side_key(ls, a) == _side_key(rs, b):
                want.append((i * 10 + 1, j * 10 + 5))
                ml.add(i)
                mr.add(j)
    if case['kind'] in ('left', 'outer'):
        want.extend((i * 10 + 1, -1) for i in range(len(lrows)) if i not in ml)
    if case['kind'] in ('right', 'outer'):
        want.extend((-1, j * 10 + 5) for j in range(len(rrows)) if j not in mr)
    gc = [str(x) for x in obs.labels_of(r.columns)]
    if 'l_v' not in gc or 'r_v' not in gc:
        raise Failure('join-columns', '%s columns %s' % (desc, gc))
    pay = list(zip(arr_list(r['l_v'].values), arr_list(r['r_v'].values)))
    if any(not isinstance(x, (int, np.integer)) or isinstance(x, (bool, np.bool_)) for ab in pay for x in ab):
        raise Failure('join-fill', '%s: payload cells %s are not the integers joined / the fill value -1' % (desc, short(pay, 300)))
    got = sorted((int(a), int(b)) for a, b in pay)
    if got != sorted(want):
        raise Failure('join-rows', '%s: matched (left payload, right payload) pairs %s expected %s; left key rows %s, right key rows %s' % (
            desc, short(got, 300), short(sorted(want), 300), short([_side_key(ls, a) for a in lrows], 200), short([_side_key(rs, b) for b in rrows], 200)))
    # the key columns carried into the result hold the values of the rows paired
    lcols = {nm: arr_list(r['l_' + nm].values) for nm in 'abc'}
    for q, (a, b) in enumerate(zip(arr_list(r['l_v'].values), arr_list(r['r_v'].values))):
        if int(a) >= 0:
            src = lrows[int(a) // 10]
            for nm in 'abc':
                if not eq(lcols[nm][q], src[3 + 'abc'.index(nm)]):
                    raise Failure('join-value', '%s: result row %d column l_%s holds %r, the left row holds %r' % (desc, q, nm, lcols[nm][q], src[3 + 'abc'.index(nm)]))
    unordered = (ls['depths'] != sorted(ls['depths'])) or (rs['depths'] != sorted(rs['depths']))
    cls = ['joinkeys:' + case['kind'], 'width:%d' % case['width'], 'depths:%d/%d' % (len(ls['depths']), len(rs['depths']))]
    if unordered:
        cls.append('depths-not-ascending')
    return {'nt': bool(ml) and (len(want) > len(ml) or case['width'] > 1), 'cls': cls}


def tag(case, f):
    # pivot skips the aggregation function for groups of one row
    if f.kind == 'pivot-value' and case.get('func') in ('len', 'std') and 'aggregates 1 source rows' in f.detail:
        return 'pivot-skips-function-on-single-row-groups'
    # with several data fields (or a function map) the aggregate is cast to the dtype of the source column
    if f.kind == 'pivot-value' and case.get('func') in ('std', 'len') and case.get('two_data'):
        return 'pivot-casts-aggregate-to-source-column-dtype'
    # several index fields whose distinct value combinations (object dtype: in order of appearance) do not form a tree
    if f.kind == 'raised:ErrorInitIndex' and case.get('two_index') and 'invalid tree-form' in f.detail:
        return 'pivot-multiple-index-fields-not-in-tree-order-raises'
    # joins without a composite index align the result by index label
    if f.kind in ('join-rows', 'raised:ErrorInitIndexNonUnique', 'raised:ErrorInitFrame', 'raised:ErrorInitIndex') and 'composite' in case and not case['composite']:
        return 'non-composite-join-aligns-by-index-label'
    return None


SUBS = [
    Sub('labels', label_cases(), check_labels, quick=3200, thorough=16000, tag=tag, rule='set_index/unset_index/relabel_shift round trips keep every cell in its row'),
    Sub('stack', stack_cases(), check_stack, quick=1600, thorough=8000, tag=tag, rule='pivot_stack then pivot_unstack restores all cells'),
    Sub('pivot', pivot_cases(), check_pivot, quick=3200, thorough=24000, tag=tag, rule='pivot vs group-aggregate reference'),
    Sub('join', join_cases(), check_join, quick=4000, thorough=32000, tag=tag, rule='joins vs nested-loop reference (multisets of value rows)'),
    Sub('join_keys', join_key_cases(), check_join_keys, quick=2000, thorough=16000, tag=tag,
        rule='joins keyed on index depths and / or several columns, listed in any order, vs nested-loop reference on the key tuples'),
]
