"""CLI: python -m vf.run <ID> [--tier quick|thorough] [--replay FILE] [--only sub1,sub2]

Exit 0: property held on everything explored (KNOWN-FINDING lines may be printed).
Exit 1: a line ``VIOLATION property=<ID> replay=<path>`` was printed.
Exit 2: harness error (never a verdict).
"""
import argparse
import importlib
import os
import sys


def main():
    if os.environ.get('PYTHONHASHSEED') != '0':
        os.environ['PYTHONHASHSEED'] = '0'
        os.execv(sys.executable, [sys.executable, '-m', 'vf.run'] + sys.argv[1:])
    ap = argparse.ArgumentParser()
    ap.add_argument('pid')
    ap.add_argument('--tier', default=None)
    ap.add_argument('--replay', default=None)
    ap.add_argument('--only', default=None)
    a = ap.parse_args()
    tier = a.tier or os.environ.get('VERIF_TIER') or 'quick'
    if tier not in ('quick', 'thorough'):
        tier = 'quick'
    try:
        sd = int(os.environ.get('VERIF_SEED', '1'))
    except ValueError:
        sd = 1
    sd = abs(sd) % (2 ** 31)
    import warnings
    warnings.simplefilter('ignore')
    try:
        from vf import harness
        mod = importlib.import_module('vf.props.%s' % a.pid.lower())
    except Exception as e:  # noqa: BLE001
        import traceback
        traceback.print_exc()
        print('HARNESS-ERROR import failed: %r' % e)
        return 2
    only = a.only.split(',') if a.only else None
    try:
        return harness.run_property(mod, tier, sd, replay=a.replay, only=only)
    except Exception as e:  # noqa: BLE001
        import traceback
        traceback.print_exc()
        print('HARNESS-ERROR %r' % e)
        return 2


if __name__ == '__main__':
    sys.exit(main())
